"""
Property runner: generates all obligations of a property from the current /repo sources, discharges them, runs the
vacuity guards, the Lean lemma check, the native cross-check, triages failures (counterexample search + replay file),
applies the known-findings file, writes evidence and decides the exit code.
"""
from __future__ import annotations
import fnmatch
import glob
import importlib
import json
import os
import subprocess
import sys
import time
import traceback
from typing import Any, Dict, List, Optional

ROOT = os.path.dirname(os.path.dirname(os.path.abspath(__file__)))
EVIDENCE_DIR = os.path.join(ROOT, "evidence")
if os.environ.get("PYVC_EVIDENCE_DIR"):
    # a sub-run on behalf of another property's check (specs/link.py)
    EVIDENCE_DIR = os.environ["PYVC_EVIDENCE_DIR"]
    os.makedirs(EVIDENCE_DIR, exist_ok=True)
elif os.environ.get("PYVC_REPO") and os.path.realpath(os.environ["PYVC_REPO"]) != "/repo":
    # a run against a scratch copy of the repository (mutation / seeded-change evaluation) is not evidence about /repo
    EVIDENCE_DIR = os.path.join(ROOT, ".cache", "evidence-scratch")
    os.makedirs(EVIDENCE_DIR, exist_ok=True)
REPLAY_DIR = os.path.join(ROOT, "replays")
LEDGER_DIR = os.path.join(ROOT, "ledger")
FINDINGS = os.path.join(ROOT, "known_findings.txt")
LEAN_DIR = os.path.join(ROOT, "lean", "Pydsdl")

TRUSTED_BASE = [
    "z3 5.1.0 (z3-new), cvc5 1.0.3, z3 4.8.12: soundness of `unsat` answers",
    "Lean 4.33 kernel + Mathlib v4.33 (lemma library lean/Pydsdl/*.lean, re-checked on every run)",
    "pyvc (this VC generator): translation of the Python subset of DESIGN.md section 3/10 into SMT; "
    "mitigated by must-fail/vacuity queries, the native cross-check of every contract on the real code, and the "
    "seeded-mutation log in DESIGN.md",
    "the sidecar contracts themselves (transcription of the property statement / Cyphal Specification into specs/)",
    "correspondence between SMT prelude axioms and the Lean theorems / definitions they cite (same statement, "
    "hand-transcribed; checked on the small-scope enumeration by the native versions of the spec functions)",
    "CPython semantics as modelled in pyvc/libmodel.py (assumed library contracts, listed under coverage)",
]

ENCODING_ASSUMPTIONS = [
    "int is mathematical; // and % have floor semantics (divisor sign cases encoded)",
    "objects of model classes are immutable after __init__ (fields of abstract objects are functions of the reference); "
    "class invariants proved as postconditions of __init__ are assumed for every instance",
    "closed world: the dynamic class of an object is one of the instantiable (non-abstract ABC) classes defined in the "
    "repository sources",
    "len() of every list / tuple is below 2**63 (CPython Py_ssize_t)",
    "no reflection / monkey-patching on functions under contract; single thread; unbounded recursion depth and memory",
    "docstrings, _logger.* and warnings.* calls are dropped by the extraction; message arguments of raise statements "
    "are evaluated only as far as the engine can (their text is not part of any contract)",
]


def sh(cmd, timeout=600, cwd=None):
    p = subprocess.run(cmd, stdout=subprocess.PIPE, stderr=subprocess.STDOUT, text=True, timeout=timeout, cwd=cwd)
    return p.returncode, p.stdout


def check_lean(files: List[str]) -> Dict[str, Any]:
    out = {"files": [], "ok": True, "time_s": 0.0}
    t0 = time.time()
    procs = []
    for f in files:
        path = os.path.join(LEAN_DIR, f)
        procs.append((f, subprocess.Popen(["lean", path], stdout=subprocess.PIPE, stderr=subprocess.STDOUT, text=True,
                                          cwd=LEAN_DIR)))
    for f, p in procs:
        try:
            o, _ = p.communicate(timeout=900)
        except subprocess.TimeoutExpired:
            p.kill()
            o = "timeout"
        src = open(os.path.join(LEAN_DIR, f)).read()
        bad = [w for w in ("sorry", "admit", "axiom ") if w in src]
        ok = (p.returncode == 0) and not bad and "error" not in o
        out["files"].append({"file": f, "exit": p.returncode, "forbidden": bad, "output": o[-300:] if not ok else ""})
        out["ok"] = out["ok"] and ok
    out["time_s"] = round(time.time() - t0, 2)
    return out


def load_findings(prop: str):
    findings, fixed = [], []
    if os.path.exists(FINDINGS):
        for line in open(FINDINGS):
            line = line.strip()
            if not line or line.startswith("#"):
                continue
            if line.startswith("finding:"):
                fields = {}
                rest = line[len("finding:"):].strip()
                # key=value pairs; the `what=` field runs to the end of the line
                what = ""
                if " what=" in rest:
                    rest, what = rest.split(" what=", 1)
                for tok in rest.split():
                    if "=" in tok:
                        k, v = tok.split("=", 1)
                        fields[k] = v
                fields["what"] = what
                if fields.get("property") == prop:
                    findings.append(fields)
            elif line.startswith("fixed:"):
                if ("property=%s " % prop) in line:
                    fixed.append(line)
    return findings, fixed


def write_json(path, obj):
    os.makedirs(os.path.dirname(path), exist_ok=True)
    tmp = path + ".tmp"
    with open(tmp, "w") as f:
        json.dump(obj, f, indent=1, default=str)
    os.replace(tmp, path)


def run_property(prop: str, tier: str = "quick", replay: Optional[str] = None, timeout: Optional[float] = None) -> int:
    t_start = time.time()
    seed = int(os.environ.get("VERIF_SEED", "0") or 0)
    sys.path.insert(0, ROOT)
    from . import solve, native, speclib
    from .spec import REG
    from .cli import build_engine

    importlib.import_module("specs.common")
    try:
        mod = importlib.import_module("specs.%s" % prop.lower())
    except ImportError as e:
        print("no specification module for %s: %s" % (prop, e))
        return 3
    if replay:
        return run_replay(prop, mod, replay)

    eng = build_engine()
    per_timeout = timeout or (10.0 if tier == "quick" else 60.0)
    backends = ["z3", "cvc5", "z3-4.8"]

    functions = []
    all_obs = []
    path_guards = []
    limits = []
    assumed_contracts = []
    paths = 0
    t_gen = time.time()
    # classes whose invariant is maintained at calls (`invariant_at_calls`): EVERY method found in the class body is
    # verified to preserve the class invariant - methods without a contract get a default one (no pre, no post, may modify
    # the declared mutable fields; only the inv# obligations).  Default contracts are not used at call sites.
    auto_contracts = {}
    for cq, cs in sorted(REG.classes.items()):
        if not getattr(cs, "invariant_at_calls", False) or cq not in eng.repo.classes:
            continue
        cls_props = set()
        for q2, c2 in REG.contracts.items():
            if q2.startswith(cq + "."):
                cls_props |= set(c2.props)
        if prop not in cls_props:
            continue
        for mname in sorted(eng.repo.classes[cq].methods):
            mq = cq + "." + mname
            if mq in REG.contracts or mq in REG.inline:
                continue

            class _Auto:
                modifies = list(cs.mutable)

            from .spec import Contract

            auto_contracts[mq] = Contract(mq, _Auto, [prop])
    to_verify = sorted(list(REG.contracts.items()) + list(auto_contracts.items()))
    for q, c in to_verify:
        if prop not in c.props:
            continue
        if not c.verify:
            assumed_contracts.append("%s: %s" % (q, c.assumed_reason or "assumed contract"))
            continue
        elsewhere = getattr(mod, "VERIFIED_ELSEWHERE", {}) or {}
        if q in elsewhere:
            # the contract names this property but its body is verified by another property's run (listed, not counted)
            assumed_contracts.append("%s: not verified in this run - %s" % (q, elsewhere[q]))
            continue
        if getattr(c, "definitions", None) is not None:
            assumed_contracts.append("%s: defining equation(s) of ghost predicate(s) assumed while its body is verified "
                                     "(Contract.definitions; conservative extension)" % q)
        try:
            res = eng.verify_function(q, c)
        except Exception as e:  # generator crash = engine limit, never a violation
            limits.append("%s: generator crash %s: %s" % (q, type(e).__name__, e))
            traceback.print_exc()
            continue
        functions.append({"function": q, "paths": res.paths, "obligations": len(res.obligations),
                          "instances": res.instances, "source_hash": eng.repo.functions[q].source_hash()
                          if q in eng.repo.functions else None})
        paths += res.paths
        if res.normal_paths == 0 and not getattr(c.impl, "never_returns", False) and not res.limits:
            limits.append("%s: no path of the function reaches a normal return (vacuous verification?)" % q)
        functions[-1]["normal_return_paths"] = res.normal_paths
        functions[-1]["raising_paths"] = res.raising_paths
        if res.skipped_instances:
            # finite-instantiation instances outside the domain (contradicting the receiver's class invariant / the
            # precondition): not verified, not counted - listed
            functions[-1]["instances_outside_domain"] = res.skipped_instances
            if len(res.skipped_instances) >= res.instances:
                limits.append("%s: every instance is outside the domain (contradictory entry assumptions)" % q)
        all_obs.extend(res.obligations)
        limits.extend("%s: %s" % (q, l) for l in res.limits)
        path_guards.extend(res.guards)
        # vacuity guard: the assumptions at function entry must be satisfiable
        if res.entry_pc is not None:
            from .symexec import Obligation
            import z3

            all_obs.append(Obligation("%s/vacuity#entry-assumptions-satisfiable" % q.replace("pydsdl.", ""),
                                      res.entry_pc, z3.BoolVal(False), res.entry_axioms, q, [], kind="vacuity"))
    # lemmas over contracts (no code executed): LEMMAS = {name: fn(ctx) -> {label: goal}}
    for lname, lfn in sorted((getattr(mod, "LEMMAS", {}) or {}).items()):
        try:
            res = eng.verify_lemma(lname, lfn)
        except Exception as e:
            limits.append("lemma %s: generator crash %s: %s" % (lname, type(e).__name__, e))
            traceback.print_exc()
            continue
        functions.append({"function": "lemma:" + lname, "paths": 1, "obligations": len(res.obligations), "instances": 1,
                          "source_hash": None, "normal_return_paths": res.normal_paths, "raising_paths": 0})
        all_obs.extend(res.obligations)
        limits.extend("lemma %s: %s" % (lname, l) for l in res.limits)
        if res.entry_pc is not None:
            from .symexec import Obligation
            import z3

            all_obs.append(Obligation("lemma.%s/vacuity#hypotheses-satisfiable" % lname, res.entry_pc, z3.BoolVal(False),
                                      res.entry_axioms, "lemma:" + lname, [], kind="vacuity"))
    gen_time = time.time() - t_gen

    extra_results = []
    for fn in getattr(mod, "EXTRA_CHECKS", []):
        try:
            extra_results.append(fn(eng, tier, seed))
        except Exception as e:
            traceback.print_exc()
            limits.append("extra check %s crashed: %s" % (getattr(fn, "__name__", "?"), e))

    # return-reachability guards: one query per path end (normal return, expected raise, end of a loop iteration):
    # "path condition + path axioms + prelude is satisfiable"; `unsat` = the obligations of that path hold vacuously
    guard_obs, guard_qf_unsat = build_path_guards(eng, path_guards)
    all_obs.extend(guard_obs)

    t_solve = time.time()
    results = solve.discharge(eng, all_obs, timeout=per_timeout, backends=backends, tag=prop)
    solve_time = time.time() - t_solve

    # must-fail sampling: ~10 discharged obligations (seeded) re-asked with the goal False under the same assumptions
    mustfail = sample_must_fail(eng, solve, all_obs, results, seed, prop)

    # obligations decided by an extra check (e.g. the effect checker): named, counted, ledgered like the others
    for x in extra_results:
        for o in x.get("obligations", []) if isinstance(x, dict) else []:
            r = solve.Result(o["name"])
            r.status = "unsat" if o["ok"] else "sat"
            r.backend = x.get("check", "extra")
            r.kind = "effect"
            r.func = o.get("function", "")
            r.detail = o.get("detail", "")
            results.append(r)
        if isinstance(x, dict) and x.get("obligations"):
            x["violations"] = []  # reported through the obligations
    if os.environ.get("PYVC_DUMP_RESULTS"):
        # per-obligation verdicts for a check that is consumed by another one (specs/reader_link.py)
        write_json(os.environ["PYVC_DUMP_RESULTS"], [{"name": r.name, "ok": bool(r.discharged), "status": r.status, "function": r.func,
                                                     "kind": r.kind} for r in results if not r.kind.startswith("vacuity")])
    real = [r for r in results if not r.kind.startswith("vacuity")]
    vac = [r for r in results if r.kind == "vacuity"]
    vac_bad = [r for r in vac if r.status == "unsat"]
    guard_report = summarise_path_guards([r for r in results if r.kind == "vacuity-path"], guard_qf_unsat)
    failed = [r for r in real if not r.discharged]
    backend_count: Dict[str, int] = {}
    for r in real:
        if r.discharged:
            b = r.backend.replace("(dup)", "")
            backend_count[b] = backend_count.get(b, 0) + 1

    # second opinion (thorough): every non-trivial obligation again on cvc5
    second = None
    if tier == "thorough":
        work = [o for o, r in zip(all_obs, results) if not r.kind.startswith("vacuity") and r.backend not in ("trivial",)]
        res2 = solve.discharge(eng, work, timeout=per_timeout, backends=["cvc5"], tag=prop + "-cvc5")
        second = {"backend": "cvc5", "agree_unsat": sum(1 for r in res2 if r.status == "unsat"),
                  "undecided": sum(1 for r in res2 if r.status not in ("unsat", "sat")),
                  "disagree_sat": [r.name for r in res2 if r.status == "sat"]}

    # Lean lemma library
    lean = None
    lean_files = getattr(mod, "LEAN", [])
    if lean_files:
        lean = check_lean(lean_files)

    # native cross-check of the contracts on the real code
    suite = getattr(mod, "NATIVE", None)
    native_info = None
    native_failures = []
    if suite is not None:
        budget = int(getattr(mod, "NATIVE_BUDGET", {}).get(tier, 200 if tier == "quick" else 3000))
        ev, distinct, native_failures, samples = suite.run(REG, seed, budget)
        native_info = {"evaluations": ev, "distinct_nontrivial": distinct, "failures": len(native_failures),
                       "samples": samples, "bound": "seeded random small-scope inputs, %d per contract" % budget}

    # functions the engine could not decide: escalate the native search on them before giving up
    if suite is not None and limits and os.environ.get("PYVC_NATIVE_BUDGET") != "0":
        undecided_fns = sorted(set(l.split(":")[0] for l in limits))
        for fnq in undecided_fns:
            ev2, d2, fails2, _ = suite.run(REG, seed + 1, 3000 if tier == "quick" else 30000, only=fnq)
            if native_info is not None:
                native_info["evaluations"] += ev2
                native_info["escalated_for"] = undecided_fns
            native_failures.extend(fails2[:1])

    # ledger: obligations that were discharged on the pinned tree
    ledger_path = os.path.join(LEDGER_DIR, "%s.json" % prop)
    ledger = json.load(open(ledger_path)) if os.path.exists(ledger_path) else None
    if os.environ.get("PYVC_WRITE_LEDGER") == "1":
        ledger = None  # re-baselining: the old ledger is not consulted
    names_now = sorted(set(r.name for r in real))
    missing = []
    if ledger is not None:
        # names are compared modulo the suffixes that goal splitting adds (conjunct ordinals, subset/superset, le/ge):
        # a harmless rewrite of an expression may change how a goal is split without changing what is proved
        now_norm = set(norm_name(n) for n in names_now)
        missing = [n for n in ledger["obligation_names"] if n not in set(names_now) and norm_name(n) not in now_norm]

    findings, fixed = load_findings(prop)
    violations = []
    known_hits = []
    undecided = []

    def match_finding(name, input_desc=None):
        for f in findings:
            if fnmatch.fnmatch(name, f.get("obligation", "")):
                return f
        return None

    # triage of failed obligations
    seen_names = set()
    for r in failed:
        if r.name in seen_names:
            continue
        seen_names.add(r.name)
        f = match_finding(r.name)
        if f is not None:
            known_hits.append((f, r))
            continue
        in_ledger = ledger is not None and (r.name in set(ledger["obligation_names"]) or
                                            norm_name(r.name) in set(norm_name(n) for n in ledger["obligation_names"]))
        # look for a concrete failing input on the real code
        concrete = None
        if suite is not None and os.environ.get("PYVC_NATIVE_BUDGET") != "0":  # "0": no native runs at all (see specs/c16.py)
            fn_tail = r.func.split("[")[0].split("<")[0]
            ev2, d2, fails2, _ = suite.run(REG, seed, 2000 if tier == "quick" else 20000, only=fn_tail)
            if fails2:
                concrete = fails2[0]
        if r.status == "error" and concrete is None:
            # a back end rejected the query (malformed term, unsupported construct): a checker problem, never a verdict
            limits.append("%s: solver error on obligation %s (%s)" % (r.func, r.name, (r.detail or "")[:120]))
        elif r.status == "sat" or in_ledger or concrete is not None:
            violations.append((r, concrete))
        else:
            undecided.append(r)
    if suite is not None and getattr(suite, "timeouts", None):
        if native_info is not None:
            native_info["timeouts"] = suite.timeouts[:3]
        if getattr(mod, "NATIVE_TIMEOUT_IS_VIOLATION", False):
            # a property about cost: the real code not finishing a query within the per-call limit on an input of the
            # bounded enumeration (all of which finish in milliseconds on the pinned tree) is a violation
            t0_ = suite.timeouts[0]
            native_failures.append({"function": t0_["function"], "input": t0_["input"], "clause": "time-limit",
                                    "detail": "the real function did not return within %d s" % t0_["limit_s"],
                                    "observed": "timeout"})
    for nf in native_failures:
        name = "%s/native#%s" % (nf["function"].replace("pydsdl.", ""), nf["clause"])
        f = match_finding(name)
        if f is not None:
            known_hits.append((f, None))
            continue
        if not any(c is not None and c.get("input") == nf["input"] for _, c in violations):
            r = solve.Result(name)
            r.func = nf["function"]
            r.status = "native"
            violations.append((r, nf))
    seen_extra = set()
    for x in extra_results:
        for v in x.get("violations", []):
            if v["name"] in seen_extra:
                continue  # one VIOLATION line per named check (the first failing input is the replay)
            seen_extra.add(v["name"])
            f = match_finding(v["name"])
            if f is not None:
                known_hits.append((f, None))
                continue
            r = solve.Result(v["name"])
            r.status = "extra"
            r.detail = v.get("detail", "")
            violations.append((r, v.get("concrete")))

    # obligations of the baseline that vanished: the generator no longer produces them (e.g. the assert was removed)
    vanished = [n for n in missing if not any(fnmatch.fnmatch(n, f.get("obligation", "")) for f in findings)]

    exit_code = 0
    lines = []
    seen_findings: Dict[str, int] = {}
    for f, r in known_hits:
        seen_findings[f.get("obligation")] = seen_findings.get(f.get("obligation"), 0) + 1
    for f, r in known_hits:
        n = seen_findings.pop(f.get("obligation"), None)
        if n is None:
            continue  # one line per listed finding, however many failing obligations it explains
        lines.append("KNOWN-FINDING: property=%s obligation=%s (%d failing obligation%s) %s" % (
            prop, f.get("obligation"), n, "" if n == 1 else "s", f.get("what", "")))
    os.makedirs(REPLAY_DIR, exist_ok=True)
    for r, concrete in violations:
        rp = os.path.join(REPLAY_DIR, "%s-%s.json" % (prop, safe(r.name)))
        payload = {"property": prop, "obligation": r.name, "function": r.func, "solver_status": r.status,
                   "solver_backend": r.backend, "solver_output": r.detail, "smt2": r.smt2_path,
                   "attempts": r.attempts, "assert_source": r.info.get("source") if r.info else None,
                   "concrete": concrete}
        if concrete is None and r.status == "sat":
            payload["model_excerpt"] = model_excerpt(eng, all_obs, results, r)
        write_json(rp, payload)
        suffix = "" if concrete is not None else " no-failing-input-found"
        lines.append("VIOLATION property=%s replay=%s obligation=%s%s" % (prop, rp, r.name, suffix))
        exit_code = 1
    if vac_bad:
        for r in vac_bad:
            lines.append("BROKEN-CHECK: contradictory assumptions at entry of %s" % r.func)
        exit_code = exit_code or 3
    for fn_, grp_ in guard_report["all_vacuous"]:
        lines.append("BROKEN-CHECK: every %s path of %s is unreachable under its assumptions (vacuous verification)" % (grp_, fn_))
        exit_code = exit_code or 3
    if guard_report["vacuous_paths"]:
        lines.append("VACUOUS-PATHS: %d path end(s) unreachable under their assumptions (infeasible branch combinations the "
                     "quantifier-free pruning could not exclude, or a contract error): see evidence coverage.vacuity_guards"
                     % len(guard_report["vacuous_paths"]))
    for n_ in mustfail["contradictory"]:
        lines.append("BROKEN-CHECK: the assumptions of a discharged obligation are contradictory (goal False is provable): %s" % n_)
        exit_code = exit_code or 3
    if lean is not None and not lean["ok"]:
        lines.append("BROKEN-CHECK: Lean lemma library does not check: %s" % [f for f in lean["files"] if f["exit"] != 0 or f["forbidden"]])
        exit_code = exit_code or 3
    if not real and not extra_results:
        lines.append("BROKEN-CHECK: zero obligations generated")
        exit_code = exit_code or 3
    if exit_code == 0 and (undecided or limits or vanished):
        exit_code = 2
    for r in undecided:
        lines.append("UNDECIDED: %s (%s on all back ends; not in the baseline ledger; no failing input found)" % (r.name, r.status))
    for l in limits:
        lines.append("ENGINE-LIMIT: %s" % l)
    for n in vanished:
        lines.append("UNDECIDED: baseline obligation no longer generated: %s" % n)

    wall = time.time() - t_start
    n_obl = len(real)
    n_dis = sum(1 for r in real if r.discharged)
    samples = []
    for r in real:
        if r.backend not in ("trivial",) and r.smt2_path and len(samples) < 3:
            try:
                txt = open(r.smt2_path).read()
                samples.append({"obligation": r.name, "status": r.status, "backend": r.backend,
                                "smt2_head": txt[:600], "smt2_bytes": len(txt)})
            except OSError:
                pass
    if not samples:
        samples = [{"obligation": r.name, "status": r.status} for r in real[:3]]
    evidence = {
        "property_id": prop,
        "tier": tier if tier in ("quick", "thorough") else "quick",
        "seed": seed,
        "level": getattr(mod, "LEVEL", "proof"),
        "wall_s": round(wall, 2),
        "violations": len(violations),
        "coverage": {
            "obligations": n_obl,
            "discharged": n_dis,
            "checker_cmd": "./check %s --tier %s  (python3-vt -m pyvc.cli; solvers: z3-new -T, cvc5 --tlimit, /usr/bin/z3 -T; lean <file>)" % (prop, tier),
            "trusted_base": TRUSTED_BASE,
            "functions_under_contract": functions,
            "paths_explored": paths,
            "obligations_by_backend": backend_count,
            "obligations_by_kind": count_by(real, lambda r: r.kind),
            "vacuity_guards": {"entry_assumption_checks": len(vac), "contradictory": [r.func for r in vac_bad],
                               "path_guards": guard_report["counts"], "vacuous_paths": guard_report["vacuous_paths"],
                               "functions_with_only_vacuous_paths": guard_report["all_vacuous"],
                               "must_fail_sample": mustfail},
            "generation_time_s": round(gen_time, 2),
            "solver_time_s": round(sum(r.time for r in results), 2),
            "solver_wall_s": round(solve_time, 2),
            "per_obligation_timeout_s": per_timeout,
            "slowest": sorted([(round(r.time, 2), r.name) for r in real], reverse=True)[:5],
            "second_opinion": second,
            "lean": lean,
            "assumed_contracts": assumed_contracts,
            "default_contracts_invariant_only": sorted(auto_contracts),
            "contract_overrides": ["%s: %s (%s) replaced by %s (%s)" % (q_, m1_, "verified" if v1_ else "assumed", m2_,
                                                                         "verified" if v2_ else "assumed")
                                   for (q_, m1_, m2_, v1_, v2_) in getattr(REG, "overrides", [])],
            "inlined_accessors": sorted(REG.inline.keys()) if getattr(mod, "REPORT_INLINE", True) else [],
            "assumed_library_contracts": eng.lib_assumed(),
            "prelude_axioms": [{"name": n, "justification": w} for (n, w, a) in eng.prelude_named
                               if a.get_id() in eng.used_prelude_ids],
            "bounded": [native_info] if native_info else [],
            "extra_checks": extra_results,
            "engine_limits": limits,
            "unchecked_assertions": sorted(eng.unchecked_asserts),
            "undecided": [r.name for r in undecided],
            "known_findings": [f for f, _ in known_hits],
            "fixed_entries": fixed,
            "not_covered": getattr(mod, "NOT_COVERED", []),
            "ledger": {"baseline_obligations": len(ledger["obligation_names"]) if ledger else None,
                       "vanished": vanished},
            "samples": samples,
            "explanation": getattr(mod, "EXPLANATION", ""),
        },
        "assumptions": ENCODING_ASSUMPTIONS + assumed_contracts + list(getattr(mod, "ASSUMPTIONS", [])),
    }
    write_json(os.path.join(EVIDENCE_DIR, "%s.json" % prop), evidence)
    if os.environ.get("PYVC_WRITE_LEDGER") == "1" and exit_code == 0:
        write_json(ledger_path, {"property": prop, "obligation_names": names_now})
    for l in lines:
        print(l)
    print("%s: %d/%d obligations discharged over %d functions (%d paths); gen %.1fs solve %.1fs; exit %d" % (
        prop, n_dis, n_obl, len(functions), paths, gen_time, solve_time, exit_code))
    return exit_code


def norm_name(name: str) -> str:
    import re

    prev = None
    while prev != name:
        prev = name
        name = re.sub(r"(/subset|/superset|/le|/ge|\.\d+)$", "", name)
    return name


def build_path_guards(eng, path_guards):
    """Obligations `goal False` (kind vacuity-path) for the distinct path ends; path ends whose quantifier-free part alone is
    contradictory are decided in process (cheap) and returned separately."""
    import z3
    from .symexec import Obligation, has_quantifier

    obs, qf_unsat, seen = [], [], set()
    for k, (func, kind, pc, axioms, taken) in enumerate(path_guards):
        key = (func, kind, tuple(p.get_id() for p in pc))
        if key in seen:
            continue
        seen.add(key)
        fshort = func.replace("pydsdl.", "")
        name = "%s/vacuity#%s-path-reachable[%s]" % (fshort, kind, "".join(str(d) for d in taken)[:40])
        s_ = z3.Solver()
        s_.set("timeout", 300)
        for p_ in pc:
            if not has_quantifier(p_):
                s_.add(p_)
        if s_.check() == z3.unsat:
            qf_unsat.append((func, kind, name))
            continue
        obs.append(Obligation(name, pc, z3.BoolVal(False), axioms, func, list(taken), info={"guard": kind}, kind="vacuity-path"))
    return obs, qf_unsat


def summarise_path_guards(results, qf_unsat):
    groups = {}
    vacuous = []

    def group_of(kind):
        return "normal-return" if kind == "return" else ("expected-raise" if kind.startswith("raise") else kind)

    for r in results:
        kind = (r.info or {}).get("guard", "return")
        g = groups.setdefault((r.func, group_of(kind)), [0, 0])
        g[0] += 1
        if r.status == "unsat":
            g[1] += 1
            vacuous.append(r.name)
    for func, kind, name in qf_unsat:
        g = groups.setdefault((func, group_of(kind)), [0, 0])
        g[0] += 1
        g[1] += 1
        vacuous.append(name + " (quantifier-free part contradictory)")
    all_vac = sorted((f, g) for (f, g), (n, v) in groups.items() if n > 0 and v == n and g != "expected-raise")
    counts = {"%s|%s" % (f.replace("pydsdl.", ""), g): {"paths": n, "vacuous": v} for (f, g), (n, v) in sorted(groups.items())}
    return {"counts": counts, "vacuous_paths": sorted(vacuous), "all_vacuous": all_vac}


def sample_must_fail(eng, solve, all_obs, results, seed, prop, k=10):
    """Deterministic sample of ~k discharged obligation *names*; every instance (path) of a sampled name is re-asked with the
    goal False under the same assumptions.  An instance whose assumptions are contradictory lies on an infeasible path
    (listed); a name ALL of whose instances are contradictory was never really proved (BROKEN-CHECK)."""
    import random
    import z3
    from .symexec import Obligation

    by_name = {}
    for i, (o, r) in enumerate(zip(all_obs, results)):
        if r.kind.startswith("vacuity") or not r.discharged or r.kind == "noraise" or z3.is_false(z3.simplify(o.goal)):
            continue  # (an obligation with the goal False *is* a proof that its path is infeasible)
        by_name.setdefault(o.name, {})[tuple(p.get_id() for p in o.pc)] = i
    rng = random.Random("%s-%d" % (prop, seed))
    names = sorted(by_name)
    picked = rng.sample(names, min(k, len(names)))
    obs, owner = [], []
    for n in picked:
        for i in list(by_name[n].values())[:12]:
            obs.append(Obligation(n + "/must-fail", all_obs[i].pc, z3.BoolVal(False), all_obs[i].axioms, all_obs[i].func,
                                  all_obs[i].path, kind="vacuity-mustfail"))
            owner.append(n)
    res = solve.discharge(eng, obs, timeout=2.0, backends=["z3"], tag=prop + "-mustfail") if obs else []
    per = {}
    for n, r in zip(owner, res):
        t = per.setdefault(n, [0, 0])
        t[0] += 1
        t[1] += 1 if r.status == "unsat" else 0
    return {"sampled": picked, "instances": len(obs),
            "contradictory": sorted(n for n, (a, b) in per.items() if a > 0 and a == b),
            "instances_on_infeasible_paths": {n: "%d of %d" % (b, a) for n, (a, b) in sorted(per.items()) if 0 < b < a}}


def count_by(items, key):
    out: Dict[str, int] = {}
    for it in items:
        k = key(it)
        out[k] = out.get(k, 0) + 1
    return out


def safe(name: str) -> str:
    return "".join(ch if ch.isalnum() or ch in "._-" else "_" for ch in name)[:150]


def model_excerpt(eng, obs, results, r):
    from . import solve

    for o, rr in zip(obs, results):
        if rr is r:
            st, m = solve.model_for(eng, o)
            if m is None:
                return None
            out = {}
            for d in m.decls():
                if d.arity() == 0:
                    try:
                        out[d.name()] = str(m[d])[:80]
                    except Exception:
                        pass
            return out
    return None


def run_replay(prop: str, mod, path: str) -> int:
    from . import speclib
    from .spec import REG

    data = json.load(open(path))
    suite = getattr(mod, "NATIVE", None)
    c = data.get("concrete")
    if not c or suite is None:
        print("replay file carries no concrete input (obligation %s): nothing to execute" % data.get("obligation"))
        print(json.dumps({k: data.get(k) for k in ("obligation", "solver_status", "solver_output")}, indent=1))
        return 1
    o = suite.replay(REG, c["function"], c["input"])
    print("replayed %s on %s: ok=%s clause=%s observed=%s" % (c["function"], c["input"], o.ok, o.failed_clause, o.observed))
    return 0 if o.ok else 1
