"""
Engine extension for the expression layer (properties C13 / C04).  Purely additive: importing this module installs

 * symbolic `float` / `complex` values (floats are not modelled arithmetically: a float is an opaque real-valued
   quantity with two flags nan / inf - all that `fractions.Fraction(float)` observes),
 * the CPython 3.12 `fractions.Fraction` contract for `%` and `**`,
 * the functions of the `operator` module, `unicodedata.normalize`, `chr`, `functools.reduce`,
 * bitwise operators on mathematical integers as uninterpreted functions,
 * class-valued fields (`type(x)` stored in an attribute),
 * sets of expression values (`frozenset` of objects whose equality is value equality).

Every entry is an ASSUMED library contract and is listed in the evidence (`assumed_library_contracts`).
Existing behaviour is only extended where the engine previously answered EngineLimit.
"""
from __future__ import annotations
import ast
import z3

from . import values as V
from .values import EngineLimit, Obj, SymSet, SymSeq, PyList, PySet, ExcVal, Kind
from . import libmodel
from .libmodel import Lib, ASSUMED
from . import symexec
from .symexec import Engine, PyRaise, PathEnd

ASSUMED.update({
    "float": "a float is an opaque value: a real number plus the flags nan / inf; float arithmetic is not modelled",
    "fractions.Fraction(float)": "Fraction(x) of a float raises OverflowError iff x is +-inf, ValueError iff x is nan, "
                                 "otherwise it is the exact value of x; Fraction(complex) raises TypeError",
    "fractions.Fraction.__mod__": "a % b on Fractions is a - b*floor(a/b); ZeroDivisionError iff b == 0",
    "fractions.Fraction.__pow__": "CPython 3.12 fractions.py: integer exponent -> exact rational power rpow(a,b), "
                                  "ZeroDivisionError iff a == 0 and b < 0; non-integer exponent -> float(a) ** float(b): "
                                  "a deterministic function of (a, b) that raises OverflowError (fpow_overflow), raises "
                                  "ZeroDivisionError (fpow_zerodiv, only if b < 0), returns a complex (fpow_complex, only "
                                  "if a < 0) or returns a finite float (fpow_value)",
    "operator module": "operator.add/sub/mul/truediv/mod/pow/eq/le/ge/lt/gt/or_/xor/and_ are the Python operators",
    "int bitwise": "| ^ & on ints are uninterpreted total functions bitor/bitxor/bitand on mathematical integers",
    "unicodedata.normalize": "unicodedata.normalize('NFC', s) is a total uninterpreted function nfc(s) of the string",
    "chr": "chr(i) raises OverflowError unless -2**31 <= i < 2**31, else ValueError unless 0 <= i < 0x110000 (else the "
           "one-character string with that code point)",
    "int(str, base)": "int(s, 16) of a non-empty string of hexadecimal digits is its base-16 value (uninterpreted "
                      "function hexval with 0 <= hexval(s) < 16**len(s)); never raises on such a string",
    "str % args": "%-formatting of concrete strings is evaluated; of symbolic arguments it is an opaque string",
    "functools.reduce": "functools.reduce(f, xs) over a non-empty finite set with a selecting f (f(a,b) is a or b): the "
                        "result r is a member; a singleton is returned without calling f; selection-fold lemma: if "
                        "C(a,b) := 'f(a,b) is a' is asymmetric and negatively transitive on the set (obligations) then "
                        "not C(x, r) for every other member x (induction over List.foldl)",
    "frozenset of expression values": "equality/hash of Boolean/Rational/String/Set objects is value equality, "
                                      "therefore a frozenset of them is modelled as a set of canonical references "
                                      "(no code under contract compares expression values with `is`)",
})


# ---------------------------------------------------------------------------------------------------- values / kinds
class SymFloatV:
    """A symbolic float: `val` (z3 Real, meaningful when finite), `nan`, `inf` (z3 Bool or python bool)."""

    def __init__(self, val, nan=False, inf=False):
        self.val, self.nan, self.inf = val, nan, inf

    def __repr__(self):
        return "<float %s nan=%s inf=%s>" % (self.val, self.nan, self.inf)


class ComplexV:
    def __repr__(self):
        return "<complex>"


class _FloatK(Kind):
    def build(self, ctx, mk):
        return SymFloatV(mk("!val", z3.RealSort()), mk("!nan", z3.BoolSort()), mk("!inf", z3.BoolSort()))

    def sort(self):
        raise EngineLimit("float has no single sort")

    def __repr__(self):
        return "Float"


class _ComplexK(Kind):
    def build(self, ctx, mk):
        return ComplexV()

    def sort(self):
        raise EngineLimit("complex has no sort")

    def __repr__(self):
        return "Complex"


FloatK, ComplexK = _FloatK(), _ComplexK()


def class_id_of(cls) -> int:
    from .frontend import load_repo

    return sorted(load_repo().classes).index(cls.qualname) + 1


class _ClassTagK(Kind):
    """A field holding a class object (`type(x)`): the class tag."""

    def sort(self):
        return z3.IntSort()

    def wrap(self, ctx, term):
        return V.ClassTagV(term)

    def unwrap(self, v):
        if isinstance(v, V.ClassTagV):
            return v.term
        if isinstance(v, V.ClassVal):
            return z3.IntVal(class_id_of(v.cls))
        raise EngineLimit("expected a class, got %r" % (v,))

    def __repr__(self):
        return "ClassTag"


ClassTagK = _ClassTagK()


class _RefSetK(Kind):
    """frozenset of expression values (canonical references)."""

    def sort(self):
        return z3.ArraySort(V.RefSort, z3.BoolSort())

    def wrap(self, ctx, term):
        # closed world: the members are expression values (instances of the repository's subclasses of Any)
        eng = ctx.engine
        anyc = eng.repo.cls("pydsdl._expression._any.Any")
        x = z3.FreshConst(V.RefSort, "x")
        rng = z3.Or(*[eng.tag_fn(x) == eng.class_id(c) for c in anyc.all_subclasses()])
        ctx.add_axiom(z3.ForAll([x], z3.Implies(z3.Select(term, x), rng), patterns=[z3.Select(term, x)]))
        return SymSet(term, V.RefSort)

    def unwrap(self, v):
        if isinstance(v, SymSet):
            return v.term
        raise EngineLimit("expected a set of objects, got %r" % (v,))

    def __repr__(self):
        return "RefSet"


RefSetK = _RefSetK()
RefSetSort = z3.ArraySort(V.RefSort, z3.BoolSort())


# ---------------------------------------------------------------------------------------------------- spec functions
def _uf(name, *sorts):
    return z3.Function(name, *sorts)


R = z3.RealSort()
RPOW = _uf("rpow", R, R, R)
FPOW_OVERFLOW = _uf("fpow_overflow", R, R, z3.BoolSort())
FPOW_ZERODIV = _uf("fpow_zerodiv", R, R, z3.BoolSort())
FPOW_COMPLEX = _uf("fpow_complex", R, R, z3.BoolSort())
FPOW_VALUE = _uf("fpow_value", R, R, R)
BITOR = _uf("bitor", z3.IntSort(), z3.IntSort(), z3.IntSort())
BITXOR = _uf("bitxor", z3.IntSort(), z3.IntSort(), z3.IntSort())
BITAND = _uf("bitand", z3.IntSort(), z3.IntSort(), z3.IntSort())
NFC = _uf("nfc", z3.StringSort(), z3.StringSort())
HEXVAL = _uf("hexval", z3.StringSort(), z3.IntSort())
REFCARD = _uf("refcard", RefSetSort, z3.IntSort())


def rmod(ta, tb):
    """Python's floored modulo on rationals (divisor non-zero)."""
    return ta - tb * z3.ToReal(z3.ToInt(ta / tb))


# ---------------------------------------------------------------------------------------------------- library model
def _term(x):
    if isinstance(x, V.FractionV):
        return x.term
    return V.Real.unwrap(x)


_orig_frac_binop = Lib.frac_binop


def frac_binop(self, ctx, op, a, b):
    if isinstance(op, ast.Mod) and not isinstance(a, str):
        ta, tb = _term(a), _term(b)
        if ctx.decide(tb == 0):
            raise self.raise_ext("ZeroDivisionError")
        return V.FractionV(rmod(ta, tb))
    if isinstance(op, ast.Pow):
        try:
            return _orig_frac_binop(self, ctx, op, a, b)
        except EngineLimit:
            pass
        ta, tb = _term(a), _term(b)
        if ctx.decide(z3.IsInt(tb)):
            if ctx.decide(z3.And(ta == 0, tb < 0)):
                raise self.raise_ext("ZeroDivisionError")
            return V.FractionV(RPOW(ta, tb))
        if not isinstance(b, V.FractionV):
            raise EngineLimit("Fraction ** non-Fraction")
        # float(a) ** float(b)
        if ctx.decide(FPOW_OVERFLOW(ta, tb)):
            raise self.raise_ext("OverflowError", "float(a) ** float(b): result (or an operand) out of the float range")
        ctx.assume(z3.Implies(FPOW_ZERODIV(ta, tb), tb < 0))
        if ctx.decide(FPOW_ZERODIV(ta, tb)):
            raise self.raise_ext("ZeroDivisionError")
        ctx.assume(z3.Implies(FPOW_COMPLEX(ta, tb), ta < 0))
        if ctx.decide(FPOW_COMPLEX(ta, tb)):
            return ComplexV()
        return SymFloatV(FPOW_VALUE(ta, tb), False, False)
    return _orig_frac_binop(self, ctx, op, a, b)


Lib.frac_binop = frac_binop

_orig_binop = Lib.binop


def _intish(x):
    return (isinstance(x, int) and not isinstance(x, bool)) or (isinstance(x, z3.ExprRef) and z3.is_int(x))


def binop(self, ctx, op, a, b):
    if isinstance(op, ast.Mod) and isinstance(a, str):
        conc = lambda v: isinstance(v, (str, int)) and not isinstance(v, bool)
        if conc(b) or (isinstance(b, tuple) and all(conc(x) for x in b)):
            try:
                return a % b
            except (TypeError, ValueError):
                raise self.raise_ext("TypeError")
    if isinstance(op, (ast.BitOr, ast.BitXor, ast.BitAnd)) and _intish(a) and _intish(b) and not (
            isinstance(a, int) and isinstance(b, int)):
        try:
            return _orig_binop(self, ctx, op, a, b)
        except EngineLimit:
            f = {ast.BitOr: BITOR, ast.BitXor: BITXOR, ast.BitAnd: BITAND}[type(op)]
            return f(V.Int.unwrap(a), V.Int.unwrap(b))
    if isinstance(a, (SymFloatV, ComplexV)) or isinstance(b, (SymFloatV, ComplexV)):
        raise EngineLimit("arithmetic on a symbolic float / complex")
    return _orig_binop(self, ctx, op, a, b)


Lib.binop = binop

_orig_isinstance_ext = Lib.isinstance_ext


def isinstance_ext(self, ctx, v, name):
    short = name.split(".")[-1]
    if isinstance(v, SymFloatV):
        return short in ("float", "object")
    if isinstance(v, ComplexV):
        return short in ("complex", "object")
    if short == "complex":
        return False
    if isinstance(v, V.FractionV) and short in ("int", "float", "str", "bool"):
        return False
    return _orig_isinstance_ext(self, ctx, v, name)


Lib.isinstance_ext = isinstance_ext

_orig_Fraction = Lib.bi_fractions_Fraction


def bi_fractions_Fraction(self, ctx, num=0, den=None):
    if isinstance(num, SymFloatV) and den is None:
        if ctx.decide(_b(num.inf)):
            raise self.raise_ext("OverflowError", "Fraction(float): infinity")
        if ctx.decide(_b(num.nan)):
            raise self.raise_ext("ValueError", "Fraction(float): nan")
        return V.FractionV(num.val)
    if isinstance(num, ComplexV):
        raise self.raise_ext("TypeError", "Fraction(complex)")
    if isinstance(num, z3.ExprRef) and z3.is_bool(num) and den is None:
        return V.FractionV(z3.If(num, z3.RealVal(1), z3.RealVal(0)))
    return _orig_Fraction(self, ctx, num, den)


def _b(x):
    return z3.BoolVal(x) if isinstance(x, bool) else x


_orig_builtin_name = Lib.builtin_name


def builtin_name(self, name):
    if name == "complex":
        return V.Builtin("complex")
    return _orig_builtin_name(self, name)


Lib.builtin_name = builtin_name


Lib.bi_fractions_Fraction = bi_fractions_Fraction
Lib.bi_Fraction = bi_fractions_Fraction
Lib.bi_frac = bi_fractions_Fraction


def _mk_op(astop):
    def f(self, ctx, a, b):
        return self.binop(ctx, astop(), a, b)

    return f


for _n, _o in (("add", ast.Add), ("sub", ast.Sub), ("mul", ast.Mult), ("truediv", ast.Div), ("mod", ast.Mod),
               ("pow", ast.Pow), ("or_", ast.BitOr), ("xor", ast.BitXor), ("and_", ast.BitAnd)):
    setattr(Lib, "bi_operator_" + _n, _mk_op(_o))


def _mk_cmp(astop):
    def f(self, ctx, a, b):
        return self.e.compare(ctx, astop(), a, b)

    return f


for _n, _o in (("eq", ast.Eq), ("ne", ast.NotEq), ("le", ast.LtE), ("ge", ast.GtE), ("lt", ast.Lt), ("gt", ast.Gt)):
    setattr(Lib, "bi_operator_" + _n, _mk_cmp(_o))


def bi_unicodedata_normalize(self, ctx, form, s):
    if form != "NFC":
        raise EngineLimit("unicodedata.normalize form %r" % (form,))
    return NFC(V.Str.unwrap(s))


Lib.bi_unicodedata_normalize = bi_unicodedata_normalize

_orig_chr = Lib.bi_chr


def bi_chr(self, ctx, i):
    if isinstance(i, z3.ExprRef) and z3.is_int(i):
        if ctx.decide(z3.Or(i < -2 ** 31, i >= 2 ** 31)):
            raise self.raise_ext("OverflowError", "chr() arg does not fit a C int")
        if ctx.decide(z3.Or(i < 0, i >= 0x110000)):
            raise self.raise_ext("ValueError", "chr() arg not in range(0x110000)")
        return z3.StrFromCode(i)
    return _orig_chr(self, ctx, i)


Lib.bi_chr = bi_chr

_orig_getattr = Lib.getattr


def lib_getattr(self, ctx, o, name):
    if isinstance(o, V.Closure) and name == "__name__":
        return o.finfo.name
    if isinstance(o, SymSet) and o.elem_sort == V.RefSort:
        return V.Builtin("method." + name, bound=o)
    return _orig_getattr(self, ctx, o, name)


Lib.getattr = lib_getattr

_orig_py_eq = Engine.py_eq


def py_eq(self, ctx, a, b):
    if isinstance(a, V.FractionV) and isinstance(b, (V.FractionV, int)) or \
            isinstance(b, V.FractionV) and isinstance(a, (V.FractionV, int)):
        return _term(a) == _term(b)
    if isinstance(a, SymSet) and isinstance(b, SymSet) and a.elem_sort == V.RefSort:
        return a.term == b.term
    return _orig_py_eq(self, ctx, a, b)


Engine.py_eq = py_eq


# ---- sets of objects
def _refset_lambda(fn):
    x = z3.FreshConst(V.RefSort, "x")
    return z3.Lambda([x], fn(x))


def _as_refset(self, ctx, other):
    if isinstance(other, SymSet) and other.elem_sort == V.RefSort:
        return other
    raise EngineLimit("set operation between a set of objects and %r" % (other,))


def m_set_union(self, ctx, o, other):
    if isinstance(o, SymSet) and o.elem_sort == V.RefSort:
        b = _as_refset(self, ctx, other)
        return SymSet(_refset_lambda(lambda x: z3.Or(z3.Select(o.term, x), z3.Select(b.term, x))), V.RefSort, fresh=True)
    raise EngineLimit("set.union")


def m_set_intersection(self, ctx, o, other):
    if isinstance(o, SymSet) and o.elem_sort == V.RefSort:
        b = _as_refset(self, ctx, other)
        return SymSet(_refset_lambda(lambda x: z3.And(z3.Select(o.term, x), z3.Select(b.term, x))), V.RefSort, fresh=True)
    raise EngineLimit("set.intersection")


def m_set_symmetric_difference(self, ctx, o, other):
    if isinstance(o, SymSet) and o.elem_sort == V.RefSort:
        b = _as_refset(self, ctx, other)
        return SymSet(_refset_lambda(lambda x: z3.Xor(z3.Select(o.term, x), z3.Select(b.term, x))), V.RefSort, fresh=True)
    raise EngineLimit("set.symmetric_difference")


def _subset(a, b):
    x = z3.FreshConst(V.RefSort, "x")
    return z3.ForAll([x], z3.Implies(z3.Select(a.term, x), z3.Select(b.term, x)), patterns=[z3.Select(a.term, x)])


def m_set_issubset(self, ctx, o, other):
    if isinstance(o, SymSet) and o.elem_sort == V.RefSort:
        return _subset(o, _as_refset(self, ctx, other))
    raise EngineLimit("set.issubset")


def m_set_issuperset(self, ctx, o, other):
    if isinstance(o, SymSet) and o.elem_sort == V.RefSort:
        return _subset(_as_refset(self, ctx, other), o)
    raise EngineLimit("issuperset")


Lib.m_set_union = m_set_union
Lib.m_set_intersection = m_set_intersection
Lib.m_set_symmetric_difference = m_set_symmetric_difference
Lib.m_set_issubset = m_set_issubset
Lib.m_set_issuperset = m_set_issuperset

_orig_set_card = Lib.set_card


def set_card(self, ctx, s):
    if s.elem_sort == V.RefSort:
        c = REFCARD(s.term)
        x = z3.FreshConst(V.RefSort, "x")
        # cardinality facts of finite sets (Finset.card_eq_zero / card_pos): card >= 0, card == 0 iff empty
        w = ctx.fresh("wit", V.RefSort)
        ctx.assume(c >= 0)
        ctx.assume(z3.Implies(c > 0, z3.Select(s.term, w)))
        ctx.add_axiom(z3.ForAll([x], z3.Implies(z3.Select(s.term, x), c > 0), patterns=[z3.Select(s.term, x)]))
        return c
    return _orig_set_card(self, ctx, s)


Lib.set_card = set_card

_orig_bi_set = Lib.bi_set


def bi_set(self, ctx, it=None):
    if isinstance(it, SymSet) and it.elem_sort == V.RefSort:
        return SymSet(it.term, V.RefSort, fresh=True)
    if isinstance(it, SymSeq) and isinstance(it.kind, V.ObjOf):
        x = z3.FreshConst(V.RefSort, "x")
        i = z3.FreshConst(z3.IntSort(), "i")
        t = ctx.fresh("setof", RefSetSort)
        # image axioms of set(seq): every element is a member; every member is an element (skolemised index)
        idx = symexec_fresh_fn(ctx, "setof!idx", [V.RefSort], z3.IntSort())
        ctx.add_axiom(z3.ForAll([i], z3.Implies(z3.And(0 <= i, i < it.length), z3.Select(t, z3.Select(it.arr, i))),
                                patterns=[z3.Select(it.arr, i)]))
        ctx.add_axiom(z3.ForAll([x], z3.Implies(z3.Select(t, x), z3.And(0 <= idx(x), idx(x) < it.length,
                                                                        z3.Select(it.arr, idx(x)) == x)),
                                patterns=[z3.Select(t, x)]))
        return SymSet(t, V.RefSort, fresh=True)
    return _orig_bi_set(self, ctx, it)


def symexec_fresh_fn(ctx, base, arg_sorts, ret_sort):
    from .loops import fresh_fn

    return fresh_fn(ctx, base, arg_sorts, ret_sort)


Lib.bi_set = bi_set
Lib.bi_frozenset = bi_set

_orig_bi_iter = Lib.bi_iter


def bi_iter(self, ctx, it):
    if isinstance(it, SymSet):
        return it
    if isinstance(it, str):
        return V.ConcreteIter(list(it))
    return _orig_bi_iter(self, ctx, it)


Lib.bi_iter = bi_iter


def bi_functools_wraps(self, ctx, fn):
    return V.Builtin("identity")


def bi_identity(self, ctx, x):
    return x


Lib.bi_functools_wraps = bi_functools_wraps
Lib.bi_identity = bi_identity


# ---------------------------------------------------------------------------------------------------- decorators
def semantic_decorators(engine, finfo):
    """Decorator expressions of a def that are repository functions (these are applied; `property`, `staticmethod`,
    `abc.abstractmethod`, `functools.*` ... keep their built-in meaning)."""
    cached = getattr(finfo, "_semantic_decorators", None)
    if cached is not None:
        return cached
    out = []
    for d in getattr(finfo.node, "decorator_list", []):
        t = d.func if isinstance(d, ast.Call) else d
        root = t
        while isinstance(root, ast.Attribute):
            root = root.value
        if not isinstance(root, ast.Name):
            continue
        name = root.id
        mod = finfo.module
        if name in mod.functions or name in mod.classes:
            out.append(d)
            continue
        c = finfo.cls
        while c is not None:
            if name in c.nested:
                out.append(d)
                break
            c = None
    finfo._semantic_decorators = out
    return out


def call_decorated(engine, ctx, finfo, args, kwargs):
    raw = V.Closure(finfo, None)
    raw.raw = True
    denv = symexec.Env(finfo.module, None, None)
    if finfo.cls is not None:
        for n, c in finfo.cls.nested.items():
            denv.vars[n] = V.ClassVal(c)
    callee = raw
    for d in reversed(semantic_decorators(engine, finfo)):
        dec = engine.eval(ctx, d, denv)
        callee = engine.call(ctx, dec, [callee], {})
    return engine.call(ctx, callee, list(args), dict(kwargs))


Engine.semantic_decorators = semantic_decorators
Engine.call_decorated = call_decorated


# ---------------------------------------------------------------------------------------------------- Set.__init__ idioms
TAGCARD = _uf("tagcard", V.IntSetSort, z3.IntSort())


class TagSet(SymSet):
    """set(map(type, xs)): the set of the dynamic classes of a collection of objects."""


def _tagset_of_seq(engine, ctx, seq: SymSeq):
    tags = ctx.fresh("tags", V.IntSetSort)
    i = z3.FreshConst(z3.IntSort(), "i")
    t = z3.FreshConst(z3.IntSort(), "t")
    idx = symexec_fresh_fn(ctx, "tags!idx", [z3.IntSort()], z3.IntSort())
    el = z3.Select(seq.arr, i)
    ctx.add_axiom(z3.ForAll([i], z3.Implies(z3.And(0 <= i, i < seq.length), z3.Select(tags, engine.tag_fn(el))),
                            patterns=[el]))
    ctx.add_axiom(z3.ForAll([t], z3.Implies(z3.Select(tags, t),
                                            z3.And(0 <= idx(t), idx(t) < seq.length,
                                                   engine.tag_fn(z3.Select(seq.arr, idx(t))) == t)),
                            patterns=[z3.Select(tags, t)]))
    return TagSet(tags, z3.IntSort(), fresh=True)


def _card_facts(ctx, term, c, elem_sort):
    """Cardinality of a finite set (Finset.card_eq_zero, Finset.card_eq_one): card >= 0; card = 0 iff empty;
    card = 1 iff the set is a singleton."""
    w = ctx.fresh("wit", elem_sort)
    x = z3.FreshConst(elem_sort, "x")
    y = z3.FreshConst(elem_sort, "y")
    ctx.assume(c >= 0)
    ctx.assume(z3.Implies(c >= 1, z3.Select(term, w)))
    ctx.add_axiom(z3.ForAll([x], z3.Implies(z3.Select(term, x), c >= 1), patterns=[z3.Select(term, x)]))
    single = z3.ForAll([y], z3.Implies(z3.Select(term, y), y == w), patterns=[z3.Select(term, y)])
    ctx.assume(z3.Implies(c == 1, single))
    ctx.assume(z3.Implies(z3.And(z3.Select(term, w), single), c == 1))


_orig_bi_len = Lib.bi_len


def bi_len(self, ctx, x):
    if isinstance(x, TagSet):
        c = TAGCARD(x.term)
        _card_facts(ctx, x.term, c, z3.IntSort())
        return c
    return _orig_bi_len(self, ctx, x)


Lib.bi_len = bi_len

_orig_bi_list = Lib.bi_list


def _enumerate_set(self, ctx, s: SymSet, kind, card):
    """list(S) of a finite set: a duplicate-free enumeration of exactly its members (in an unspecified order)."""
    arr = ctx.fresh("enum!arr", z3.ArraySort(z3.IntSort(), s.elem_sort))
    i = z3.FreshConst(z3.IntSort(), "i")
    x = z3.FreshConst(s.elem_sort, "x")
    idx = symexec_fresh_fn(ctx, "enum!idx", [s.elem_sort], z3.IntSort())
    ctx.add_axiom(z3.ForAll([i], z3.Implies(z3.And(0 <= i, i < card), z3.Select(s.term, z3.Select(arr, i))),
                            patterns=[z3.Select(arr, i)]))
    ctx.add_axiom(z3.ForAll([x], z3.Implies(z3.Select(s.term, x),
                                            z3.And(0 <= idx(x), idx(x) < card, z3.Select(arr, idx(x)) == x)),
                            patterns=[z3.Select(s.term, x)]))
    return SymSeq(arr, card, kind, fresh=True)


def bi_list(self, ctx, it=None):
    if isinstance(it, TagSet):
        return _enumerate_set(self, ctx, it, ClassTagK, self.bi_len(ctx, it))
    if isinstance(it, SymSet) and it.elem_sort == V.RefSort:
        return _enumerate_set(self, ctx, it, V.ObjOf("pydsdl._expression._any.Any"), self.set_card(ctx, it))
    if isinstance(it, V.MappedIter) and it.fn is None:
        return self.bi_list(ctx, refset_of_generator(self.e, ctx, it))
    return _orig_bi_list(self, ctx, it)


Lib.bi_list = bi_list

_orig_bi_set2 = Lib.bi_set


def bi_set2(self, ctx, it=None):
    if isinstance(it, V.MappedIter) and isinstance(it.fn, V.Builtin) and it.fn.name == "type" and \
            isinstance(it.it, SymSeq) and isinstance(it.it.kind, V.ObjOf):
        return _tagset_of_seq(self.e, ctx, it.it)
    if isinstance(it, V.MappedIter) and isinstance(it.fn, V.Builtin) and it.fn.name == "type" and \
            isinstance(it.it, (PyList, tuple)):
        items = it.it.items if isinstance(it.it, PyList) else list(it.it)
        if all(isinstance(x, Obj) for x in items):
            t = z3.K(z3.IntSort(), z3.BoolVal(False))
            for x in items:
                t = z3.Store(t, self.e.tag_fn(x.ref), z3.BoolVal(True))
            return TagSet(t, z3.IntSort(), fresh=True)
    if isinstance(it, (PyList, tuple)):
        items = it.items if isinstance(it, PyList) else list(it)
        if items and all(isinstance(x, Obj) for x in items):
            t = z3.K(V.RefSort, z3.BoolVal(False))
            for x in items:
                t = z3.Store(t, x.ref, z3.BoolVal(True))
            return SymSet(t, V.RefSort, fresh=True)
    return _orig_bi_set2(self, ctx, it)


Lib.bi_set = bi_set2
Lib.bi_frozenset = bi_set2

_orig_issubclass = Lib.bi_issubclass


def bi_issubclass(self, ctx, c, base):
    if isinstance(c, V.ClassTagV) and isinstance(base, V.ClassVal):
        return z3.Or(*[c.term == self.e.class_id(k) for k in base.cls.all_subclasses()])
    return _orig_issubclass(self, ctx, c, base)


Lib.bi_issubclass = bi_issubclass


def refset_of_generator(engine, ctx, m: V.MappedIter):
    """The collection produced by a generator expression `(f(x) for x in S)` over a set of objects, consumed eagerly
    (list(...) / set(...)): either the evaluation of f raises for some element (witness path: one arbitrary element,
    every path explored), or it completes for every element and the result is the image of S under f."""
    from . import loops

    src = m.it
    if isinstance(src, Obj) and src.cls.lookup("__iter__") is not None:
        src = engine.call_function(ctx, src.cls.lookup("__iter__"), [src], {}, dynamic=True)
    if not (isinstance(src, SymSet) and src.elem_sort == V.RefSort):
        raise EngineLimit("generator expression over %r" % (src,))
    gen = m.node.generators[0]
    if gen.ifs:
        raise EngineLimit("filtered generator expression")

    def run_elem(value):
        cenv = symexec.Env(m.env.module, m.env, m.env.finfo)
        engine.assign(ctx, gen.target, value, cenv)
        return engine.eval(ctx, m.node.elt, cenv)

    if ctx.choose(2) == 0:
        b = loops.bind_domain(engine, ctx, src)
        wrapped = V.ObjOf("pydsdl._expression._any.Any").wrap(ctx, b.value)
        engine.assume_wellformed(ctx, wrapped)
        for g in b.guards + b.facts:
            ctx.assume(g)
        run_elem(wrapped)
        raise PathEnd()
    b = loops.bind_domain(engine, ctx, src)
    holder = {"vals": []}

    def run():
        wrapped = V.ObjOf("pydsdl._expression._any.Any").wrap(ctx, b.value)
        engine.assume_class_range(ctx, wrapped)
        v = run_elem(wrapped)
        holder["vals"].append(v)

    normal = loops.summarise_block(engine, ctx, b, run, lambda: None)
    vals = holder["vals"]
    if len(normal) != 1 or len(vals) != 1 or not isinstance(vals[0], Obj):
        raise EngineLimit("generator expression whose element has %d normal paths" % len(normal))
    x = b.consts[0]
    fx = vals[0].ref
    v = z3.FreshConst(V.RefSort, "e")
    y = z3.FreshConst(V.RefSort, "y")
    out = ctx.fresh("image", RefSetSort)
    inv = symexec_fresh_fn(ctx, "image!pre", [V.RefSort], V.RefSort)
    sub = lambda t, a: z3.substitute(t, (x, a))
    ctx.add_axiom(z3.ForAll([v], z3.Implies(z3.Select(src.term, v),
                                            z3.And(sub(normal[0], v), z3.Select(out, sub(fx, v)))),
                            patterns=[z3.Select(src.term, v)]))
    ctx.add_axiom(z3.ForAll([y], z3.Implies(z3.Select(out, y),
                                            z3.And(z3.Select(src.term, inv(y)), sub(fx, inv(y)) == y,
                                                   sub(normal[0], inv(y)))),
                            patterns=[z3.Select(out, y)]))
    r = SymSet(out, V.RefSort, fresh=True)
    r.image_of = (src, x, fx)
    return r


_orig_apply_contract = Engine.apply_contract


def apply_contract(self, ctx, finfo, contract, args, kwargs):
    hook = getattr(contract.impl, "coerce_args", None)
    if hook is not None:
        args, kwargs = hook(self, ctx, list(args), dict(kwargs))
    return _orig_apply_contract(self, ctx, finfo, contract, args, kwargs)


Engine.apply_contract = apply_contract


# ---------------------------------------------------------------------------------------------------- strings / iterators
ASSUMED.update({
    "iter(str)/next": "iter(s) of a string yields its characters in order; next() raises StopIteration at the end",
    "itertools.count": "itertools.count() yields 0, 1, 2, ... forever (loops over it need an invariant; they end by "
                       "break / return / raise only)",
    "str.islower": "str.islower of a one-character ASCII string is evaluated on the running CPython; uninterpreted otherwise",
    "str.lower (hex digits)": "if c is one character and c.lower() occurs in '0123456789abcdef' then c.lower() is one "
                              "character (checked over all 0x110000 code points of the running CPython at import)",
    "str.replace": "s.replace(a, b) of a symbolic string is an uninterpreted function strrepl(s, a, b)",
})


def _check_lower_fact():
    hexd = "0123456789abcdef"
    for c in range(0x110000):
        lo = chr(c).lower()
        if len(lo) != 1 and lo in hexd:
            return False
    return True


LOWER_FACT_HOLDS = _check_lower_fact()


class SymStrIter:
    """iter(s) of a symbolic string: the string and the current position (mutable)."""

    def __init__(self, s, pos):
        self.s, self.pos = s, pos


class CountV:
    """itertools.count()"""


def bi_itertools_count(self, ctx, start=0, step=1):
    if start != 0 or step != 1:
        raise EngineLimit("itertools.count with arguments")
    return CountV()


Lib.bi_itertools_count = bi_itertools_count

_orig_bi_iter2 = Lib.bi_iter


def bi_iter2(self, ctx, it):
    if isinstance(it, z3.ExprRef) and z3.is_string(it):
        return SymStrIter(it, z3.IntVal(0))
    return _orig_bi_iter2(self, ctx, it)


Lib.bi_iter = bi_iter2

_orig_bi_next = Lib.bi_next


def bi_next(self, ctx, it, *default):
    if isinstance(it, SymStrIter):
        if ctx.decide(it.pos >= z3.Length(it.s)):
            if default:
                return default[0]
            raise self.raise_ext("StopIteration")
        ch = z3.SubString(it.s, it.pos, 1)
        it.pos = it.pos + 1
        return ch
    return _orig_bi_next(self, ctx, it, *default)


Lib.bi_next = bi_next

_orig_getslice = Lib.getslice


def getslice(self, ctx, o, lo, hi):
    if isinstance(o, z3.ExprRef) and z3.is_string(o) and (lo is None or isinstance(lo, int)) and (
            hi is None or isinstance(hi, int)):
        n = z3.Length(o)

        def norm(v, dflt):
            if v is None:
                return dflt
            t = z3.IntVal(v) if v >= 0 else n + v
            return z3.If(t < 0, 0, z3.If(t > n, n, t))

        a, b = norm(lo, z3.IntVal(0)), norm(hi, n)
        return z3.SubString(o, a, z3.If(b > a, b - a, 0))
    return _orig_getslice(self, ctx, o, lo, hi)


Lib.getslice = getslice

ISLOWER = _uf("str.islower", z3.StringSort(), z3.BoolSort())
STRREPL = _uf("strrepl", z3.StringSort(), z3.StringSort(), z3.StringSort(), z3.StringSort())


def m_str_islower(self, ctx, o):
    if isinstance(o, str):
        return o.islower()
    r = ISLOWER(o)
    for c in "uU":  # the only strings the functions under contract ask about
        ctx.assume(z3.Implies(o == z3.StringVal(c), r == z3.BoolVal(c.islower())))
    return r


Lib.m_str_islower = m_str_islower

_orig_m_str_lower = Lib.m_str_lower


def m_str_lower(self, ctx, o):
    r = _orig_m_str_lower(self, ctx, o)
    if isinstance(r, z3.ExprRef) and LOWER_FACT_HOLDS:
        ctx.assume(z3.Implies(z3.And(z3.Length(o) == 1, z3.Contains(z3.StringVal("0123456789abcdef"), r)),
                              z3.Length(r) == 1))
    return r


Lib.m_str_lower = m_str_lower


def m_str_replace(self, ctx, o, a, b):
    if isinstance(o, str) and isinstance(a, str) and isinstance(b, str):
        return o.replace(a, b)
    return STRREPL(V.Str.unwrap(o), V.Str.unwrap(a), V.Str.unwrap(b))


Lib.m_str_replace = m_str_replace

_orig_bi_range = Lib.bi_range


def bi_range(self, ctx, a, b=None, step=1):
    if b is None and isinstance(a, z3.ExprRef):
        a = self.concretize(ctx, a, limit=16)
    return _orig_bi_range(self, ctx, a, b, step)


Lib.bi_range = bi_range

_HEXRE = None


def _hexre():
    global _HEXRE
    if _HEXRE is None:
        _HEXRE = z3.Plus(z3.Union(z3.Range("0", "9"), z3.Range("a", "f"), z3.Range("A", "F")))
    return _HEXRE


def _all_hex_digits(ctx, x) -> bool:
    """The string term is a concatenation of pieces each of which is provably one hexadecimal digit."""
    pieces = []

    def flat(t):
        if z3.is_app(t) and t.decl().kind() == z3.Z3_OP_SEQ_CONCAT:
            for c in t.children():
                flat(c)
        elif z3.is_string_value(t):
            if t.as_string() != "":
                pieces.append(t)
        else:
            pieces.append(t)

    flat(x)
    if not pieces:
        return False
    hexd = z3.StringVal("0123456789abcdef")
    qf = [p for p in ctx.pc if not symexec.has_quantifier(p)]
    for p in pieces:
        s = z3.Solver()
        s.set("timeout", 3000)
        for f in qf:
            s.add(f)
        s.add(z3.Not(z3.And(z3.Length(p) == 1, z3.Contains(hexd, p))))
        if s.check() != z3.unsat:
            return False
    return True


_orig_bi_int = Lib.bi_int


def bi_int(self, ctx, x=0, base=None):
    if isinstance(x, z3.ExprRef) and z3.is_string(x) and base == 16:
        if not _all_hex_digits(ctx, x):
            raise EngineLimit("int(s, 16) of a string that is not known to consist of hexadecimal digits")
        v = HEXVAL(x)
        ctx.assume(v >= 0)
        for k in range(1, 17):
            ctx.assume(z3.Implies(z3.Length(x) == k, v < 16 ** k))
        return v
    return _orig_bi_int(self, ctx, x, base)


Lib.bi_int = bi_int


def _find_iters(env):
    out = []
    e = env
    while e is not None:
        for v in e.vars.values():
            if isinstance(v, SymStrIter) and v not in out:
                out.append(v)
        e = e.parent
    return out


def _has_concrete_iter(env):
    e = env
    while e is not None:
        if any(isinstance(v, V.ConcreteIter) for v in e.vars.values()):
            return True
        e = e.parent
    return False


def exec_count_loop(engine, ctx, st, env):
    """`for i in itertools.count(): body` with a sidecar invariant.  The loop is left by break / return / raise only.
       Loop-carried state: the local names assigned in the body and the position of every string iterator in scope."""
    from . import loops
    from .spec import NS
    from .symexec import lift_bool, short, BreakSig, ContinueSig

    qual = env.finfo.qualname if env.finfo is not None else ""
    k = loops.loop_ordinal(env, st)
    if not _find_iters(env) and _has_concrete_iter(env):
        # every iterator in scope is over a concrete string: the loop is simply executed (bounded by the input's length)
        for n in range(4096):
            engine.assign(ctx, st.target, n, env)
            try:
                engine.exec_block(ctx, st.body, env)
            except ContinueSig:
                continue
            except BreakSig:
                return
        raise EngineLimit("loop over itertools.count() did not end on a concrete input")
    inv = engine.reg.loops.get((qual, k))
    if inv is None:
        raise EngineLimit("loop over itertools.count() without an invariant")
    label = "%s/loop%d" % (short(ctx.func), k)
    modified = [n for n in loops.assigned_names(st.body) if n in env.vars]
    iters = _find_iters(env)

    def inv_clauses(i):
        ns = NS(i=i, ctx=ctx, **{k_: v for k_, v in env.vars.items()})
        return engine.run_spec(ctx, lambda: loops._as_items(inv(ns)))

    for lab, c in inv_clauses(z3.IntVal(0)):
        ctx.oblige("%s/inv-init#%s" % (label, lab), lift_bool(c), kind="inv-init")
    for n in modified:
        env.vars[n] = loops.fresh_like(engine, ctx, n, env.vars[n])
    for it in iters:
        it.pos = ctx.fresh("iterpos", z3.IntSort())
    i = ctx.fresh("iter", z3.IntSort())
    ctx.assume(i >= 0)
    for lab, c in inv_clauses(i):
        ctx.assume(lift_bool(c))
    engine.assign(ctx, st.target, i, env)
    try:
        engine.exec_block(ctx, st.body, env)
    except ContinueSig:
        pass
    except BreakSig:
        return  # the state after the loop: an arbitrary iteration that satisfied the invariant, up to the break
    for lab, c in inv_clauses(i + 1):
        ctx.oblige("%s/inv-step#%s" % (label, lab), lift_bool(c), kind="inv-step")
    raise PathEnd()


def _install_count_loop():
    from . import loops

    orig = loops.exec_for

    def exec_for(engine, ctx, st, env):
        it = st.iter
        if isinstance(it, ast.Call) and isinstance(it.func, ast.Attribute) and it.func.attr == "count" and \
                isinstance(it.func.value, ast.Name) and it.func.value.id == "itertools":
            return exec_count_loop(engine, ctx, st, env)
        return orig(engine, ctx, st, env)

    loops.exec_for = exec_for


_install_count_loop()


def _install_fresh_like():
    from . import loops

    orig = loops.fresh_like

    def fresh_like(engine, ctx, name, v):
        if isinstance(v, str):
            return ctx.fresh(name, z3.StringSort())
        return orig(engine, ctx, name, v)

    loops.fresh_like = fresh_like


_install_fresh_like()


# ---------------------------------------------------------------------------------------------------- parse tree values
class TupleOf(Kind):
    """A tuple of fixed length whose components have the given kinds (children of a parse tree node)."""

    def __init__(self, *kinds):
        self.kinds = kinds

    def build(self, ctx, mk):
        out = []
        for k_, kind in enumerate(self.kinds):
            out.append(kind.build(ctx, lambda s, so, k_=k_: mk("!%d%s" % (k_, s), so)))
        for v in out:
            ctx.engine.assume_wellformed(ctx, v)
        return tuple(out)

    def sort(self):
        raise EngineLimit("tuple has no single sort")

    def __repr__(self):
        return "Tuple(%s)" % ", ".join(repr(k) for k in self.kinds)


class _OpaqueK(Kind):
    def __repr__(self):
        return "Node"

    def build(self, ctx, mk):
        return V.Opaque("parse tree node")

    def sort(self):
        raise EngineLimit("opaque")


OpaqueK = _OpaqueK()

ASSUMED.update({
    "int(str, base=0) / int(str)": "int(s, base) raises ValueError unless int_literal_ok(s, base) (the string is an integer "
                                   "literal of that base; base 0: Python literal syntax with 0b/0o/0x prefixes); otherwise "
                                   "it is the literal's value int_literal_value(s, base)",
    "fractions.Fraction(str)": "Fraction(s) raises ValueError unless fraction_literal_ok(s); otherwise it is the exact decimal "
                               "value fraction_literal_value(s)",
})
INT_OK = _uf("int_literal_ok", z3.StringSort(), z3.IntSort(), z3.BoolSort())
INT_VALUE = _uf("int_literal_value", z3.StringSort(), z3.IntSort(), z3.IntSort())
FRAC_OK = _uf("fraction_literal_ok", z3.StringSort(), z3.BoolSort())
FRAC_VALUE = _uf("fraction_literal_value", z3.StringSort(), z3.RealSort())

DIGITS = _uf("digits_value", z3.StringSort(), z3.IntSort(), z3.IntSort())
ASSUMED.update({
    "int(str, base) value": "int(s, base) ignores single underscores between digits (PEP 515): its value is that of the text "
                            "c = s.replace('_', ''); base 0 reads the prefix of c: 0x/0X -> 16, 0o/0O -> 8, 0b/0B -> 2, none -> "
                            "10; the value is digits_value(digits of c after the prefix, base) - positional notation, "
                            "uninterpreted; ValueError unless int_literal_ok(c, base)",
})


def clean_underscores(t):
    """t.replace('_', '') as a term; idempotent by construction"""
    if z3.is_app(t) and t.decl().name() == "strrepl" and z3.is_string_value(t.arg(1)) and t.arg(1).as_string() == "_" \
            and z3.is_string_value(t.arg(2)) and t.arg(2).as_string() == "":
        return t
    return STRREPL(t, z3.StringVal("_"), z3.StringVal(""))


def int_literal_value(c, base):
    """value of the cleaned literal text c read with int(c, base), base in (0, 10)"""
    if base == 10:
        return DIGITS(c, z3.IntVal(10))
    p = z3.SubString(c, 0, 2)
    body = z3.SubString(c, 2, z3.Length(c) - 2)
    is_p = lambda a, b: z3.Or(p == z3.StringVal(a), p == z3.StringVal(b))
    return z3.If(is_p("0x", "0X"), DIGITS(body, z3.IntVal(16)),
                 z3.If(is_p("0o", "0O"), DIGITS(body, z3.IntVal(8)),
                       z3.If(is_p("0b", "0B"), DIGITS(body, z3.IntVal(2)), DIGITS(c, z3.IntVal(10)))))


_orig_bi_int3 = Lib.bi_int


def bi_int3(self, ctx, x=0, base=None):
    if isinstance(x, z3.ExprRef) and z3.is_string(x) and base in (None, 0, 10):
        b = 10 if base is None else base
        c = clean_underscores(x)
        if ctx.decide(z3.Not(INT_OK(c, z3.IntVal(b)))):
            raise self.raise_ext("ValueError", "int(): invalid literal")
        return int_literal_value(c, b)
    return _orig_bi_int3(self, ctx, x, base)


Lib.bi_int = bi_int3

_orig_Fraction3 = Lib.bi_fractions_Fraction


def bi_fractions_Fraction3(self, ctx, num=0, den=None):
    if isinstance(num, z3.ExprRef) and z3.is_string(num) and den is None:
        c = clean_underscores(num)  # Fraction(str) accepts the same digit separators
        if ctx.decide(z3.Not(FRAC_OK(c))):
            raise self.raise_ext("ValueError", "Fraction(): invalid literal")
        return V.FractionV(FRAC_VALUE(c))
    return _orig_Fraction3(self, ctx, num, den)


Lib.bi_fractions_Fraction = bi_fractions_Fraction3
Lib.bi_Fraction = bi_fractions_Fraction3
Lib.bi_frac = bi_fractions_Fraction3


_orig_global_name = Engine.global_name


def global_name(self, ctx, module, name):
    try:
        return _orig_global_name(self, ctx, module, name)
    except EngineLimit:
        imp = module.imports.get(name)
        if imp is not None and imp[0] == "from" and imp[1] in self.repo.modules:
            return self.global_name(ctx, self.repo.modules[imp[1]], imp[2])
        raise


Engine.global_name = global_name


# ---------------------------------------------------------------------------------------------------- the parser funnel
ASSUMED.update({
    "parsimonious.Grammar.parse": "Grammar.parse(text) returns a parse tree or raises parsimonious.ParseError (whose "
                                  "line() is a positive integer); nothing else",
    "parsimonious.NodeVisitor.visit": "NodeVisitor.visit(tree) calls the visit_<rule> methods; an exception raised by a "
                                      "visitor leaves visit() unchanged if its class is listed in unwrapped_exceptions "
                                      "(pydsdl: Error, SystemError, MemoryError, SystemExit) and wrapped into "
                                      "parsimonious.VisitationError otherwise (ghost flag visitor_crashed); "
                                      "VisitationError.original_class.line() does not return (TypeError)",
})
VISITOR_CRASHED = z3.Bool("ghost!visitor_crashed")       # some visit_* method raised a non-Error exception
VISITOR_INTERNAL = z3.Bool("ghost!visitor_raised_internal_error")  # some visit_* method raised InternalError itself


class ExtObj:
    """An object of a third-party class of which only an assumed contract is known."""

    def __init__(self, what):
        self.what = what

    def __repr__(self):
        return "<ext %s>" % self.what


class _GrammarK(Kind):
    def build(self, ctx, mk):
        return ExtObj("Grammar")

    def sort(self):
        raise EngineLimit("no sort")


GrammarK = _GrammarK()

_orig_lib_getattr2 = Lib.getattr


def lib_getattr2(self, ctx, o, name):
    if (isinstance(o, V.ExtModule) or (isinstance(o, V.Builtin) and o.bound is None)) and o.name == "parsimonious" \
            and name in ("ParseError", "VisitationError"):
        return V.ExtClass(name)
    if isinstance(o, ExtObj):
        return V.Builtin("method." + name, bound=o)
    return _orig_lib_getattr2(self, ctx, o, name)


Lib.getattr = lib_getattr2


def m_other_parse(self, ctx, o, text):
    if isinstance(o, ExtObj) and o.what == "Grammar":
        if ctx.choose(2) == 1:
            raise PyRaise(ExcVal(V.ExtClass("ParseError")))
        return ExtObj("parse tree")
    raise EngineLimit("parse of %r" % (o,))


def m_other_visit(self, ctx, o, tree):
    """Assumed contract of NodeVisitor.visit specialised to _ParseTreeProcessor (see ASSUMED)."""
    if not (isinstance(o, Obj) and o.cls.name == "_ParseTreeProcessor"):
        raise EngineLimit("visit of %r" % (o,))
    # visiting advances the line counter (visit_end_of_line); it stays positive
    if o.fields is not None:
        n = ctx.fresh("line", z3.IntSort())
        ctx.assume(n >= 1)
        o.fields["_current_line_number"] = n
    k = ctx.choose(4)
    if k == 1:
        exc = ExcVal(self.e.exc_class("InvalidDefinitionError"))
        raise PyRaise(exc)
    if k == 2:
        ctx.assume(VISITOR_INTERNAL)
        raise PyRaise(ExcVal(self.e.exc_class("InternalError")))
    if k == 3:
        ctx.assume(VISITOR_CRASHED)
        raise PyRaise(ExcVal(V.ExtClass("VisitationError")))
    return None


Lib.m_other_parse = m_other_parse
Lib.m_other_visit = m_other_visit

_orig_engine_getattr = Engine.getattr


def engine_getattr(self, ctx, o, name, from_spec=False):
    if isinstance(o, Obj) and name == "visit" and o.cls.name == "_ParseTreeProcessor":
        return V.Builtin("method.visit", bound=o)
    return _orig_engine_getattr(self, ctx, o, name, from_spec)


Engine.getattr = engine_getattr

_orig_exc_attr = Lib.exc_attr


def _error_init_field(self, ctx, exc, name):
    """`_path` / `_line` of a pydsdl Error: from the constructor arguments when the exception was raised by code on this
    path, an unknown optional value when it came out of a callee's contract."""
    from .frontend import ClassInfo

    if not isinstance(exc.cls, ClassInfo):
        raise EngineLimit("exception attribute %s" % name)
    pos = {"_path": 1, "_line": 2}[name]
    kw = name[1:]
    if exc.args or exc.kwargs:
        v = exc.kwargs.get(kw, exc.args[pos] if len(exc.args) > pos else None)
    else:
        kind, _ = self.e.field_kind(exc.cls, name)
        if kind is None:
            raise EngineLimit("no field kind for %s.%s" % (exc.cls.name, name))
        v = ctx.fresh_kind("exc." + name, kind)
    exc.fields[name] = v
    return v


def exc_attr(self, ctx, exc, name):
    if name in exc.fields:
        return exc.fields[name]
    if name in ("_path", "_line"):
        return _error_init_field(self, ctx, exc, name)
    if name == "line" and isinstance(exc.cls, V.ExtClass) and exc.cls.name == "ParseError":
        return V.Builtin("exc.line", bound=exc)
    if name == "original_class":
        return ExtObj("original_class")
    return _orig_exc_attr(self, ctx, exc, name)


Lib.exc_attr = exc_attr


def m_other_line(self, ctx, o):
    raise self.raise_ext("TypeError", "VisitationError.original_class.line() is an unbound method call")


Lib.m_other_line = m_other_line

_orig_call_exc_method = Lib.call_exc_method


def call_exc_method(self, ctx, exc, name, args, kwargs):
    if name == "line":
        n = ctx.fresh("parse_error_line", z3.IntSort())
        ctx.assume(n >= 1)
        return n
    m = exc.cls.lookup(name) if hasattr(exc.cls, "lookup") else None
    if m is not None:
        return self.e.inline_call(ctx, m, [exc] + list(args), kwargs, None)
    return _orig_call_exc_method(self, ctx, exc, name, args, kwargs)


Lib.call_exc_method = call_exc_method


# ---------------------------------------------------------------------------------------------------- functools.reduce
def bi_functools_reduce(self, ctx, fn, it):
    """functools.reduce(f, S) over a non-empty set of objects with a *selecting* f (f(a, b) returns a or b):
       a singleton is returned without calling f; otherwise f is called on pairs of distinct members - either some call
       raises (witness pair, every path explored) or all complete and the result is some member r of S.
       Selection-fold lemma (List.foldl over distinct elements, by induction on the prefix): write C(a, b) for "f(a, b)
       returns a".  If C is asymmetric and negatively transitive on S (two obligations `pre#functools.reduce#...`), then no
       member beats the result: for all x in S, x != r: not C(x, r)."""
    from . import loops
    from .symexec import short

    if isinstance(it, Obj) and it.cls.lookup("__iter__") is not None:
        it = self.e.call_function(ctx, it.cls.lookup("__iter__"), [it], {}, dynamic=True)
    if not (isinstance(it, SymSet) and it.elem_sort == V.RefSort):
        raise EngineLimit("functools.reduce over %r" % (it,))
    anyk = V.ObjOf("pydsdl._expression._any.Any")
    k = ctx.choose(3)
    x = z3.FreshConst(V.RefSort, "x")
    if k == 0:
        a, b = ctx.fresh("acc", V.RefSort), ctx.fresh("nxt", V.RefSort)
        ctx.assume(z3.And(z3.Select(it.term, a), z3.Select(it.term, b), a != b))
        oa, ob = anyk.wrap(ctx, a), anyk.wrap(ctx, b)
        self.e.assume_class_range(ctx, oa)
        self.e.assume_class_range(ctx, ob)
        r = self.e.call(ctx, fn, [oa, ob], {})
        if not (isinstance(r, Obj) and (r.ref.eq(a) or r.ref.eq(b))):
            raise EngineLimit("functools.reduce with a function that does not select one of its arguments")
        raise PathEnd()
    r = ctx.fresh("reduced", V.RefSort)
    ctx.assume(z3.Select(it.term, r))
    res = anyk.wrap(ctx, r)
    self.e.assume_class_range(ctx, res)
    if k == 1:  # singleton
        ctx.assume(z3.ForAll([x], z3.Implies(z3.Select(it.term, x), x == r), patterns=[z3.Select(it.term, x)]))
        return res
    # every call completes: summarise f on an arbitrary pair of distinct members
    a, b = ctx.fresh("ra", V.RefSort), ctx.fresh("rb", V.RefSort)
    bind = loops.Binding(None, [z3.Select(it.term, a), z3.Select(it.term, b), a != b], [a, b],
                         [z3.Select(it.term, a), z3.Select(it.term, b)])
    picks = []

    def run():
        oa, ob = anyk.wrap(ctx, a), anyk.wrap(ctx, b)
        self.e.assume_class_range(ctx, oa)
        self.e.assume_class_range(ctx, ob)
        v = self.e.call(ctx, fn, [oa, ob], {})
        if not (isinstance(v, Obj) and (v.ref.eq(a) or v.ref.eq(b))):
            raise EngineLimit("functools.reduce with a function that does not select one of its arguments")
        picks.append(v.ref.eq(a))

    normal = loops.summarise_block(self.e, ctx, bind, run, lambda: None)
    if len(normal) != len(picks) or not normal:
        raise EngineLimit("functools.reduce: cannot summarise the folded function")
    p, q = z3.FreshConst(V.RefSort, "p"), z3.FreshConst(V.RefSort, "q")
    guard = lambda u, v: z3.And(z3.Select(it.term, u), z3.Select(it.term, v), u != v)
    sub = lambda t, u, v: z3.substitute(t, (a, u), (b, v))
    all_normal = z3.Or(*normal)
    ctx.assume(z3.ForAll([p, q], z3.Implies(guard(p, q), sub(all_normal, p, q)),
                         patterns=[z3.MultiPattern(z3.Select(it.term, p), z3.Select(it.term, q))]))
    first = [n for n, pk in zip(normal, picks) if pk]
    C = (lambda u, v: sub(z3.Or(*first), u, v)) if first else (lambda u, v: z3.BoolVal(False))
    c1, c2, c3 = (ctx.fresh("m%d" % i, V.RefSort) for i in (1, 2, 3))
    dom = z3.And(z3.Select(it.term, c1), z3.Select(it.term, c2), z3.Select(it.term, c3), c1 != c2, c2 != c3, c1 != c3)
    name = "%s/pre#functools.reduce#selection-order" % short(ctx.func)
    ctx.oblige(name + ".asymmetric", z3.Implies(dom, z3.Not(z3.And(C(c1, c2), C(c2, c1)))), kind="pre")
    ctx.oblige(name + ".negatively-transitive",
               z3.Implies(z3.And(dom, z3.Not(C(c1, c2)), z3.Not(C(c2, c3))), z3.Not(C(c1, c3))), kind="pre")
    ctx.assume(z3.ForAll([x], z3.Implies(z3.And(z3.Select(it.term, x), x != r), z3.Not(C(x, r))),
                         patterns=[z3.Select(it.term, x)]))
    return res


Lib.bi_functools_reduce = bi_functools_reduce

_orig_isinstance_of = Engine.isinstance_of


def isinstance_of(self, ctx, v, cls):
    if isinstance(cls, V.ClassTagV):
        if isinstance(v, Obj):
            return self.tag_fn(v.ref) == cls.term  # exact class match (sufficient for isinstance)
        return False
    return _orig_isinstance_of(self, ctx, v, cls)


Engine.isinstance_of = isinstance_of


# ---------------------------------------------------------------------------------------------------- truthiness
_orig_truth = Engine.truth


def truth(self, ctx, v):
    """Truthiness of an object whose static class is only an upper bound: a subclass may define __bool__ (Boolean)."""
    if isinstance(v, Obj) and not v.exact and v.cls.lookup("__bool__") is None and v.cls.lookup("__len__") is None:
        for c in v.cls.all_subclasses():
            m = c.methods.get("__bool__")
            if m is None:
                continue
            classes = [k for k in c.all_subclasses() if k.lookup("__bool__") is m]
            cond = z3.Or(*[self.tag_fn(v.ref) == self.class_id(k) for k in classes])
            if ctx.decide(cond):
                return self.truth(ctx, self.call_function(ctx, m, [Obj(c, False, v.ref, None, ctx)], {}))
        return True
    return _orig_truth(self, ctx, v)


Engine.truth = truth


# ---------------------------------------------------------------------------------------------------- min/max(set, key=f)
ASSUMED.update({
    "min/max(set, key=f)": "min(S, key=f) / max(S, key=f) over a finite set of objects: ValueError iff S is empty; f is "
                           "evaluated on every member (an exception of f leaves the call); the result is a member whose key "
                           "is minimal / maximal; keys of different Python classes are not comparable (str against a number: "
                           "TypeError - excluded only if the solver shows that all members yield keys of one class)",
})


def _install_argminmax():
    from . import loops

    orig = loops.argminmax_iter

    def argminmax_iter(engine, ctx, it, keyfn, is_min):
        src = it
        if isinstance(src, Obj) and src.cls.lookup("__iter__") is not None:
            src = engine.call_function(ctx, src.cls.lookup("__iter__"), [src], {}, dynamic=True)
        if not (isinstance(src, SymSet) and src.elem_sort == V.RefSort):
            return orig(engine, ctx, it, keyfn, is_min)
        S = src.term
        x = z3.FreshConst(V.RefSort, "x")
        anyk = V.ObjOf("pydsdl._expression._any.Any")
        k = ctx.choose(3)
        if k == 0:  # empty collection
            ctx.assume(z3.ForAll([x], z3.Not(z3.Select(S, x)), patterns=[z3.Select(S, x)]))
            raise engine.lib.raise_ext("ValueError", "min()/max() of an empty collection")
        if k == 1:  # witness: the key function on one arbitrary member (exceptions leave; every path explored)
            a = ctx.fresh("member", V.RefSort)
            ctx.assume(z3.Select(S, a))
            oa = anyk.wrap(ctx, a)
            engine.assume_class_range(ctx, oa)
            engine.call(ctx, keyfn, [oa], {})
            raise PathEnd()
        # the key function completes on every member
        a = ctx.fresh("ka", V.RefSort)
        bind = loops.Binding(None, [z3.Select(S, a)], [a], [z3.Select(S, a)])
        keys = []

        def run():
            oa = anyk.wrap(ctx, a)
            engine.assume_class_range(ctx, oa)
            v = engine.call(ctx, keyfn, [oa], {})
            if isinstance(v, V.FractionV):
                v = v.term
            if isinstance(v, bool):
                v = z3.BoolVal(v)
            if not (isinstance(v, z3.ExprRef) and (z3.is_real(v) or z3.is_int(v) or z3.is_bool(v) or z3.is_string(v))):
                raise EngineLimit("min/max with a key of unmodelled kind %r" % (v,))
            keys.append(v)

        normal = loops.summarise_block(engine, ctx, bind, run, lambda: None)
        if not normal or len(normal) != len(keys):
            raise EngineLimit("min/max with key: cannot summarise the key function")
        sub = lambda t, u: z3.substitute(t, (a, u))
        ctx.assume(z3.ForAll([x], z3.Implies(z3.Select(S, x), sub(z3.Or(*normal), x)), patterns=[z3.Select(S, x)]))
        w = ctx.fresh("argbest", V.RefSort)
        ctx.assume(z3.Select(S, w))

        def num(t):
            if z3.is_bool(t):
                return z3.If(t, z3.RealVal(1), z3.RealVal(0))
            return z3.ToReal(t) if z3.is_int(t) else t

        for i, (ci, ki) in enumerate(zip(normal, keys)):
            for j, (cj, kj) in enumerate(zip(normal, keys)):
                both = z3.And(z3.Select(S, x), sub(ci, w), sub(cj, x))
                if z3.is_string(ki) != z3.is_string(kj):
                    # keys of different classes among the members: Python would raise TypeError - must be impossible
                    s = z3.Solver()
                    s.set("timeout", 3000)
                    for f in list(ctx.pc) + list(ctx.axioms) + engine.relevant_prelude(list(ctx.pc) + [both]):
                        s.add(f)
                    s.add(both)
                    if s.check() != z3.unsat:
                        raise EngineLimit("min/max over members whose keys are of different classes")
                    continue
                if z3.is_string(ki):
                    le = z3.Or(sub(ki, w) == sub(kj, x), sub(ki, w) < sub(kj, x)) if is_min else \
                        z3.Or(sub(ki, w) == sub(kj, x), sub(kj, x) < sub(ki, w))
                else:
                    le = num(sub(ki, w)) <= num(sub(kj, x)) if is_min else num(sub(ki, w)) >= num(sub(kj, x))
                ctx.assume(z3.ForAll([x], z3.Implies(both, le), patterns=[z3.Select(S, x)]))
        res = anyk.wrap(ctx, w)
        engine.assume_class_range(ctx, res)
        return res

    loops.argminmax_iter = argminmax_iter


_install_argminmax()


# ---------------------------------------------------------------------------------------------------- operator chains
ASSUMED.update({
    "operator callables of a parse tree": "the callables that the op2_* visitors hand to a chain visitor are the operator "
                                          "functions of pydsdl._expression (binary wrappers / attribute): applied to "
                                          "(left, right) they return an expression value apply_op(op, left, right) - a "
                                          "function of the callable and its two arguments in this order - or raise a "
                                          "subclass of InvalidOperandError (contracts of the wrappers, specs/expr.py)",
})
ChainItemSort = z3.DeclareSort("ChainItem")
CH_OP = _uf("chain!operator", ChainItemSort, z3.IntSort())
CH_RIGHT = _uf("chain!right", ChainItemSort, V.RefSort)
CH_NAME = _uf("chain!identifier", ChainItemSort, z3.StringSort())
APPLY_OP = _uf("apply_op", z3.IntSort(), V.RefSort, V.RefSort, V.RefSort)
APPLY_ATTR = _uf("apply_attribute", z3.IntSort(), V.RefSort, z3.StringSort(), V.RefSort)


class OperatorV:
    """An operator callable taken from a parse tree (symbolic identity)."""

    def __init__(self, ident):
        self.ident = ident

    def __repr__(self):
        return "<operator %s>" % self.ident


class ChainItemK(Kind):
    """One `(_? op _? operand)` group of an operator chain: (blank, operator callable, blank, right operand).
    `named`: the right operand is an identifier (attribute chain), else an expression value."""

    def __init__(self, named=False):
        self.named = named

    def sort(self):
        return ChainItemSort

    def wrap(self, ctx, term):
        right = CH_NAME(term) if self.named else V.ObjOf("pydsdl._expression._any.Any").wrap(ctx, CH_RIGHT(term))
        if not self.named:
            ctx.engine.assume_class_range(ctx, right)
        return (V.Opaque("blank"), OperatorV(CH_OP(term)), V.Opaque("blank"), right)

    def unwrap(self, v):
        raise EngineLimit("a chain item cannot be built by the code under contract")

    def __repr__(self):
        return "ChainItem(right=%s)" % ("identifier" if self.named else "value")


_orig_engine_call = Engine.call


def engine_call(self, ctx, callee, args, kwargs):
    if isinstance(callee, OperatorV):
        if kwargs or len(args) != 2 or not isinstance(args[0], Obj):
            raise EngineLimit("operator callable applied to %r" % (args,))
        if ctx.choose(2) == 1:
            raise PyRaise(ExcVal(self.exc_class("InvalidOperandError")))
        left, right = args
        if isinstance(right, Obj):
            r = APPLY_OP(callee.ident, left.ref, right.ref)
        else:
            r = APPLY_ATTR(callee.ident, left.ref, V.Str.unwrap(right))
        res = V.ObjOf("pydsdl._expression._any.Any").wrap(ctx, r)
        self.assume_class_range(ctx, res)
        return res
    return _orig_engine_call(self, ctx, callee, args, kwargs)


Engine.call = engine_call
FOLD = _uf("chain!fold", z3.ArraySort(z3.IntSort(), ChainItemSort), V.RefSort, z3.IntSort(), V.RefSort)
FOLD_NAMED = _uf("chain!fold_named", z3.ArraySort(z3.IntSort(), ChainItemSort), V.RefSort, z3.IntSort(), V.RefSort)


def fold_term(ctx, seq: SymSeq, first: Obj, n, named: bool):
    """foldl over the first n items of the chain, starting from `first` (definition by recursion on n, stated as an axiom
    that is instantiated where the fold of a prefix and the next item meet)."""
    F = FOLD_NAMED if named else FOLD
    i = z3.FreshConst(z3.IntSort(), "fi")
    it = z3.Select(seq.arr, i)
    step = APPLY_ATTR(CH_OP(it), F(seq.arr, first.ref, i), CH_NAME(it)) if named else \
        APPLY_OP(CH_OP(it), F(seq.arr, first.ref, i), CH_RIGHT(it))
    body = z3.Implies(i >= 0, F(seq.arr, first.ref, i + 1) == step)
    try:
        ctx.add_axiom(z3.ForAll([i], body, patterns=[z3.MultiPattern(F(seq.arr, first.ref, i), it)]))
    except z3.Z3Exception:  # the sequence is not a plain array name (e.g. a slice): no explicit trigger
        ctx.add_axiom(z3.ForAll([i], body))
    ctx.add_axiom(F(seq.arr, first.ref, z3.IntVal(0)) == first.ref)
    return F(seq.arr, first.ref, n)


# ---------------------------------------------------------------------------------------------------- concrete evaluation
_orig_call_method = Lib.call_method


def call_method(self, ctx, o, name, args, kwargs):
    """Methods of a *concrete* str with concrete arguments are evaluated by the running CPython."""
    if isinstance(o, str) and not kwargs and all(isinstance(a, (str, int)) and not isinstance(a, bool) for a in args) \
            and getattr(self, "m_str_" + name, None) is None and hasattr(str, name) and not name.startswith("_"):
        try:
            r = getattr(o, name)(*args)
        except (ValueError, TypeError, IndexError) as ex:
            raise self.raise_ext(type(ex).__name__, "str.%s" % name)
        if isinstance(r, list):
            return PyList(r)
        if isinstance(r, (str, int, bool, tuple)):
            return r
        raise EngineLimit("result of str.%s" % name)
    return _orig_call_method(self, ctx, o, name, args, kwargs)


Lib.call_method = call_method

_orig_binop2 = Lib.binop


def _concrete_fraction(v):
    import fractions

    if isinstance(v, V.FractionV):
        t = z3.simplify(v.term)
        if z3.is_rational_value(t):
            return fractions.Fraction(t.numerator_as_long(), t.denominator_as_long())
    return None


def binop2(self, ctx, op, a, b):
    # int ** negative int is a float in Python
    if isinstance(op, ast.Pow) and isinstance(a, int) and isinstance(b, int) and not isinstance(a, bool) \
            and not isinstance(b, bool) and b < 0 and a != 0 and abs(b) <= 400:
        return V.FloatV(float(a) ** b)
    # Fraction (concrete) with float: the result is a float
    for x, y, swap in ((a, b, False), (b, a, True)):
        fx = _concrete_fraction(x)
        if fx is not None and isinstance(y, V.FloatV) and isinstance(op, (ast.Add, ast.Sub, ast.Mult, ast.Div)):
            l, r = (y.value, float(fx)) if swap else (float(fx), y.value)
            try:
                return V.FloatV(self.py_arith(op, l, r))
            except ZeroDivisionError:
                raise self.raise_ext("ZeroDivisionError")
    return _orig_binop2(self, ctx, op, a, b)


Lib.binop = binop2


# ---------------------------------------------------------------------------------------------------- `a or b` as a value
_orig_ex_BoolOp = Engine.ex_BoolOp


def ex_BoolOp(self, ctx, e, env):
    """`x or default` / `x and y` yield one of the operands, not a truth value, when the operands are not booleans."""
    if all(symexec._pure_simple(v) for v in e.values):
        vals = [self.eval(ctx, v, env) for v in e.values]
        if any(not isinstance(v, (bool, z3.BoolRef)) for v in vals):
            is_and = isinstance(e.op, ast.And)
            for i, v in enumerate(vals):
                if i == len(vals) - 1:
                    return v
                t = ctx.decide(self.truth(ctx, v))
                if (is_and and not t) or (not is_and and t):
                    return v
    return _orig_ex_BoolOp(self, ctx, e, env)


Engine.ex_BoolOp = ex_BoolOp


# ---------------------------------------------------------------------------------------------------- spellings of Set.__init__
def _install_type_comprehension():
    """`{type(x) for x in xs}` is `set(map(type, xs))`: the same value (TagSet), hence the same obligations."""
    from . import loops

    orig = loops.eval_comprehension

    def eval_comprehension(engine, ctx, e, env, kind):
        if kind == "set" and len(e.generators) == 1 and not e.generators[0].ifs and not e.generators[0].is_async:
            g, elt = e.generators[0], e.elt
            if isinstance(g.target, ast.Name) and isinstance(elt, ast.Call) and isinstance(elt.func, ast.Name) \
                    and elt.func.id == "type" and len(elt.args) == 1 and not elt.keywords \
                    and isinstance(elt.args[0], ast.Name) and elt.args[0].id == g.target.id \
                    and not env.lookup("type")[0]:
                it = engine.eval(ctx, g.iter, env)
                if isinstance(it, Obj) and it.cls.lookup("__iter__") is not None:
                    it = engine.call_function(ctx, it.cls.lookup("__iter__"), [it], {}, dynamic=True)
                if isinstance(it, SymSet) and it.elem_sort == V.RefSort:
                    it = engine.lib.bi_list(ctx, it)
                if (isinstance(it, SymSeq) and isinstance(it.kind, V.ObjOf)) or (
                        isinstance(it, (PyList, tuple)) and all(isinstance(x, Obj) for x in (
                            it.items if isinstance(it, PyList) else it))):
                    return engine.lib.bi_set(ctx, V.MappedIter(V.Builtin("type"), it))
        return orig(engine, ctx, e, env, kind)

    loops.eval_comprehension = eval_comprehension


_install_type_comprehension()


_orig_assign = Engine.assign


def assign(self, ctx, target, v, env):
    # (x,) = S  /  [x] = S  for a set: ValueError unless it has exactly one element
    if isinstance(target, (ast.Tuple, ast.List)) and len(target.elts) == 1 and not isinstance(target.elts[0], ast.Starred) \
            and (isinstance(v, TagSet) or (isinstance(v, SymSet) and v.elem_sort == V.RefSort)):
        seq = self.lib.bi_list(ctx, v)
        if ctx.decide(seq.length != 1):
            raise self.lib.raise_ext("ValueError", "unpacking a set whose size is not 1")
        return self.assign(ctx, target.elts[0], seq.at(ctx, z3.IntVal(0)), env)
    return _orig_assign(self, ctx, target, v, env)


Engine.assign = assign

_orig_bi_next2 = Lib.bi_next


def bi_next2(self, ctx, it, *default):
    if isinstance(it, TagSet) or (isinstance(it, SymSet) and it.elem_sort == V.RefSort):
        seq = self.bi_list(ctx, it)
        if ctx.decide(seq.length <= 0):
            if default:
                return default[0]
            raise self.raise_ext("StopIteration")
        return seq.at(ctx, z3.IntVal(0))
    return _orig_bi_next2(self, ctx, it, *default)


Lib.bi_next = bi_next2
