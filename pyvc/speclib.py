"""
Spec library: the vocabulary in which sidecar contracts are written.  Every function has two realisations:
 * SMT (when a verification context is active): builds z3 terms / uses declared functions with prelude axioms,
 * native (no context active): computes on real Python objects (brute force) - used for the CPython cross-check,
   the small-scope counterexample search and replay.
"""
from __future__ import annotations
import itertools
import z3
from typing import Any, Callable, List
from . import values as V

CTX = None  # the active verification context (set by the engine); None => native mode


def smt() -> bool:
    return CTX is not None


def _b(x):
    if isinstance(x, bool):
        return z3.BoolVal(x)
    return x


# ------------------------------------------------------------------------------------------------ logic
def _force(x):
    return x() if callable(x) and not isinstance(x, z3.ExprRef) else x


def AND(*xs):
    """Conjunction; arguments may be thunks (lambda: clause) which the native reading evaluates lazily."""
    if smt():
        xs = _flatten([_force(x) for x in xs])
        return z3.And(*[_b(x) for x in xs]) if xs else z3.BoolVal(True)
    for x in xs:
        v = _force(x)
        if isinstance(v, (list, tuple, dict)):
            v = all(_flatten([v]))
        if not v:
            return False
    return True


def OR(*xs):
    if smt():
        xs = _flatten([_force(x) for x in xs])
        return z3.Or(*[_b(x) for x in xs]) if xs else z3.BoolVal(False)
    for x in xs:
        v = _force(x)
        if isinstance(v, (list, tuple, dict)):
            v = any(_flatten([v]))
        if v:
            return True
    return False


def NOT(x):
    if smt():
        return z3.Not(_b(x))
    return not x


def IMPLIES(a, b):
    if smt():
        return z3.Implies(_b(a), _b(_force(b)))
    return (not a) or bool(_force(b))


def IFF(a, b):
    if smt():
        return _b(a) == _b(b)
    return bool(a) == bool(b)


def ITE(c, a, b):
    if smt():
        if isinstance(c, bool):
            return a if c else b
        return z3.If(c, _lift(a), _lift(b))
    return a if c else b


def _lift(x):
    if isinstance(x, bool):
        return z3.BoolVal(x)
    if isinstance(x, int):
        return z3.IntVal(x)
    if isinstance(x, str):
        return z3.StringVal(x)
    return x


def _flatten(xs):
    out = []
    for x in xs:
        if isinstance(x, (list, tuple)):
            out.extend(_flatten(x))
        elif isinstance(x, dict):
            out.extend(_flatten(list(x.values())))
        else:
            out.append(x)
    return out


def EQ(a, b):
    """Python `==` on spec values."""
    if smt():
        return CTX.engine.py_eq(CTX, a, b)
    return a == b


def IS_NONE(x):
    if smt():
        if isinstance(x, V.OptV):
            return _b(x.is_none)
        return x is None
    return x is None


def VAL(x):
    """The value of an Optional known to be present."""
    if smt() and isinstance(x, V.OptV):
        return x.val
    return x


def ISINST(x, *clsnames: str):
    if smt():
        return OR(*[CTX.engine.isinstance_of(CTX, x, CTX.engine.class_by_name(n)) for n in clsnames])
    import pydsdl

    return any(isinstance(x, _native_class(n)) for n in clsnames)


def _native_class(name: str):
    import importlib

    if "." in name:
        modname, _, cname = name.rpartition(".")
        if not modname.startswith("pydsdl"):
            modname = "pydsdl." + modname
        try:
            return getattr(importlib.import_module(modname), cname)
        except (ImportError, AttributeError):
            pass
    import pydsdl

    for modname in (
        "pydsdl",
        "pydsdl._serializable",
        "pydsdl._serializable._composite",
        "pydsdl._expression",
        "pydsdl._bit_length_set._symbolic",
        "pydsdl._bit_length_set",
        "pydsdl._data_schema_builder",
        "pydsdl._data_type_builder",
    ):
        m = importlib.import_module(modname)
        if hasattr(m, name.split(".")[-1]):
            return getattr(m, name.split(".")[-1])
    raise KeyError(name)


def LEN(seq):
    if smt():
        if isinstance(seq, V.SymSeq):
            return seq.length
        if isinstance(seq, V.PyList):
            return len(seq.items)
        if isinstance(seq, (list, tuple)):
            return len(seq)
        raise V.EngineLimit("LEN of %r" % (seq,))
    return len(seq)


def AT(seq, i):
    if smt():
        if isinstance(seq, V.SymSeq):
            return seq.at(CTX, _lift(i))
        if isinstance(seq, V.PyList):
            return seq.items[i]
        return seq[i]
    return seq[i]


def FORALL_IDX(seq, body: Callable[[Any, Any], Any], lo=0, hi=None, name="i"):
    """forall i in [lo, hi) (default: all indices of seq): body(i, seq[i])"""
    if smt():
        if isinstance(seq, V.SymSeq):
            i = z3.FreshConst(z3.IntSort(), name)
            hi_t = seq.length if hi is None else _lift(hi)
            guard = z3.And(_lift(lo) <= i, i < hi_t)
            b = _b(body(i, seq.at(CTX, i)))
            try:
                return z3.ForAll([i], z3.Implies(guard, b), patterns=[z3.Select(seq.arr, i)])
            except z3.Z3Exception:  # e.g. a slice (lambda array): no usable trigger term
                return z3.ForAll([i], z3.Implies(guard, b))
        items = seq.items if isinstance(seq, V.PyList) else list(seq)
        hi_c = len(items) if hi is None else hi
        return AND(*[body(i, items[i]) for i in range(lo, hi_c)])
    hi_c = len(seq) if hi is None else hi
    return all(body(i, seq[i]) for i in range(lo, hi_c))


def EXISTS_IDX(seq, body: Callable[[Any, Any], Any], lo=0, hi=None, name="i"):
    if smt():
        if isinstance(seq, V.SymSeq):
            i = z3.FreshConst(z3.IntSort(), name)
            hi_t = seq.length if hi is None else _lift(hi)
            guard = z3.And(_lift(lo) <= i, i < hi_t)
            b = _b(body(i, seq.at(CTX, i)))
            return z3.Exists([i], z3.And(guard, b))
        items = seq.items if isinstance(seq, V.PyList) else list(seq)
        hi_c = len(items) if hi is None else hi
        return OR(*[body(i, items[i]) for i in range(lo, hi_c)])
    hi_c = len(seq) if hi is None else hi
    return any(body(i, seq[i]) for i in range(lo, hi_c))


def FORALL_INT(body: Callable[[Any], Any], lo=None, hi=None, name="k", patterns=None):
    """forall integer k in [lo, hi]: body(k)  (native: requires finite bounds)"""
    if smt():
        k = z3.FreshConst(z3.IntSort(), name)
        g = []
        if lo is not None:
            g.append(_lift(lo) <= k)
        if hi is not None:
            g.append(k <= _lift(hi))
        b = _b(body(k))
        pats = [p(k) for p in patterns] if patterns else []
        return z3.ForAll([k], z3.Implies(z3.And(*g) if g else z3.BoolVal(True), b), patterns=pats)
    return all(body(k) for k in range(lo, hi + 1))


def INT(x):
    """Python int(x) for spec purposes."""
    return x


def TRUTH(x):
    if smt():
        return CTX.engine.truth(CTX, x)
    return bool(x)


def lower(s):
    if smt():
        return CTX.engine.str_lower(CTX, s)
    return s.lower()


def AS(obj, clsname: str):
    """View an object as an instance of a subclass (used under an ISINST guard)."""
    if smt():
        if isinstance(obj, V.Obj):
            cls = CTX.engine.class_by_name(clsname)
            if obj.fields is not None:
                return obj
            return V.Obj(cls, False, obj.ref, None, CTX)
        return obj
    return obj


def OPT_ALL(opt, pred):
    """`opt is None or pred(opt)` for an Optional value."""
    if smt():
        if opt is None:
            return True
        if isinstance(opt, V.OptV):
            return OR(_b(opt.is_none), pred(opt.val))
        return pred(opt)
    return opt is None or bool(pred(opt))


def FILTER(seq, pred, strict=False):
    """[x for x in seq if pred(x)] (order preserving).  strict: also state that the result is strictly shorter than
    `seq` when some element is rejected (used by termination measures)."""
    if smt():
        from . import loops

        if isinstance(seq, V.SymSeq):
            i0 = z3.FreshConst(z3.IntSort(), "fi0")
            cond = _b(pred(seq.at(CTX, i0)))
            return loops.canonical_filter(CTX, seq, cond, i0, strict=strict)
        items = seq.items if isinstance(seq, V.PyList) else list(seq)
        out = []
        for x in items:
            c = pred(x)
            if not isinstance(c, bool):
                raise V.EngineLimit("FILTER over a concrete list with a symbolic predicate")
            if c:
                out.append(x)
        return V.PyList(out)
    return [x for x in seq if pred(x)]


def MAPSEQ(seq, fn):
    """[fn(x) for x in seq]"""
    if smt():
        from . import loops

        if isinstance(seq, V.SymSeq):
            i0 = z3.FreshConst(z3.IntSort(), "mi0")
            b = loops.Binding(seq.at(CTX, i0), [i0 >= 0, i0 < seq.length], [i0], [z3.Select(seq.arr, i0)], ordered=True,
                              source=seq)
            return loops.seq_from_template(CTX.engine, CTX, seq, b, fn(b.value))
        items = seq.items if isinstance(seq, V.PyList) else list(seq)
        return V.PyList([fn(x) for x in items])
    return [fn(x) for x in seq]


def CALLS(qualname_suffix: str):
    """SMT reading only: the calls made so far on this path through the contract of a function whose qualified name
       ends with `qualname_suffix`, in program order: a list of records {ns (arguments), result, returned, index}.
       Native reading: None (protocol clauses are not evaluated natively)."""
    if smt():
        return [e for e in CTX.call_log if e["callee"].endswith(qualname_suffix)]
    return None
