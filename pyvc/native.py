"""
Native (CPython) reading of the sidecar contracts: the same clauses that are compiled to verification conditions are
evaluated on real objects around a call of the real function.  Used for
  * the cross-check of contracts against the running code on a seeded small-scope enumeration (every run),
  * the search for a concrete failing input when an obligation is not discharged,
  * replay of a stored failing input.
Nothing here counts as proof; it is reported under coverage.bounded.
"""
from __future__ import annotations
import importlib
import random
import signal
import traceback
from typing import Any, Callable, Dict, List, Optional, Tuple

from .spec import Contract, NS
from . import speclib


class Timeout(Exception):
    pass


def _alarm(signum, frame):
    raise Timeout()


def resolve_real(qualname: str):
    """Import the real function / class member named by a qualified name."""
    parts = qualname.split(".")
    for cut in range(len(parts), 0, -1):
        modname = ".".join(parts[:cut])
        try:
            obj = importlib.import_module(modname)
        except ImportError:
            continue
        for p in parts[cut:]:
            obj = obj.__dict__[p] if isinstance(obj, type) and p in obj.__dict__ else getattr(obj, p)
        return obj
    raise ImportError(qualname)


def exc_matches(exc: BaseException, name: str) -> bool:
    return any(c.__name__ == name for c in type(exc).__mro__)


def native_snapshot(ns_args):
    """Pre-state for `s.old`: objects with a __dict__ of a mutable repository class (bit reader / writer) are copied
       shallowly, bytearray attributes as bytes."""
    import copy

    out = {}
    for k, v in ns_args.items():
        if type(v).__name__ in ("_BitReader", "_BitWriter"):
            c = copy.copy(v)
            for a, x in list(vars(c).items()):
                if isinstance(x, bytearray):
                    setattr(c, a, bytes(x))
            out[k] = c
        else:
            out[k] = v
    return NS(**out)


class Outcome:
    def __init__(self):
        self.ok = True
        self.failed_clause = None
        self.detail = ""
        self.observed = None
        self.trivial = False
        self.timed_out = False


class _Watchdog:
    """SIGALRM interrupts Python code only between bytecodes: a native evaluation stuck inside one C-level loop (e.g.
    `set(map(sum, itertools.product(...)))` over an astronomically large product) never sees it.  A daemon thread ends the
    whole check instead of letting it hang: exit code 2 (undecided) with the function and a note - unless the spec module
    declared what such a hang means for its property (`HANG_VERDICT = (exit code, line to print)`)."""
    HANG_VERDICT = None
    current = None

    @classmethod
    def arm(cls, label, seconds):
        import threading

        token = object()
        cls.current = token

        def fire():
            if cls.current is token:
                import os
                import sys

                code, line = cls.HANG_VERDICT or (2, "UNDECIDED: the native evaluation does not return and cannot be interrupted")
                sys.stdout.write("%s (%s; limit %d s)\n" % (line, label, seconds))
                sys.stdout.flush()
                os._exit(code)

        t = threading.Timer(seconds, fire)
        t.daemon = True
        t.start()
        return t

    @classmethod
    def disarm(cls, t):
        cls.current = None
        t.cancel()


def _exception_class_only(out: "Outcome", call: Callable[[], Any], base: str, time_limit: int) -> "Outcome":
    """Input outside the contract's precondition: nothing of the contract is claimed, but the property-level exception-class
    clause still is - only subclasses of `base` may leave the call (bounded native evidence, never counted as proof)."""
    old = signal.signal(signal.SIGALRM, _alarm)
    signal.alarm(time_limit)
    wd = _Watchdog.arm("outside-precondition call", 3 * time_limit + 30)
    try:
        r = call()
        try:
            out.observed = ("returned %r" % (r,))[:300]
        except Exception:
            out.observed = "returned <%s>" % type(r).__name__
    except Timeout:
        out.trivial = True
        out.timed_out = True
        return out
    except BaseException as e:  # noqa
        out.observed = ("raised %s: %s" % (type(e).__name__, str(e)[:200]))
        if not exc_matches(e, base):
            out.ok = False
            out.failed_clause = "noraise#%s" % type(e).__name__
            out.detail = "outside the contract's precondition, still: only %s may leave; got %s" % (base, type(e).__name__)
    finally:
        _Watchdog.disarm(wd)
        signal.alarm(0)
        signal.signal(signal.SIGALRM, old)
    out.trivial = False
    return out


def check_call(contract: Contract, call: Callable[[], Any], ns_args: Dict[str, Any], time_limit: int = 20,
               outside_pre_only_raises: Optional[str] = None) -> Outcome:
    """Run `call()` (which invokes the real function on the real arguments) and evaluate the contract natively."""
    assert speclib.CTX is None
    out = Outcome()
    ns = NS(**ns_args)
    if "old" not in ns_args:
        ns.__dict__["old"] = native_snapshot(ns_args)
    try:
        pre = contract.clauses("pre", ns)
    except Exception as e:  # a precondition that cannot be evaluated: input outside the contract's domain
        out.trivial = True
        if outside_pre_only_raises:
            return _exception_class_only(out, call, outside_pre_only_raises, time_limit)
        return out
    if not all(bool(c) for _, c in pre):
        out.trivial = True  # outside the precondition: nothing is claimed
        if outside_pre_only_raises:
            return _exception_class_only(out, call, outside_pre_only_raises, time_limit)
        return out
    expected = {}
    for xname, cond in contract.raises.items():
        if cond is not None:
            expected[xname] = bool(cond(ns))
    old = signal.signal(signal.SIGALRM, _alarm)
    signal.alarm(time_limit)
    wd = _Watchdog.arm(contract.qualname, 3 * time_limit + 30)
    raised = None
    result = None
    try:
        result = call()
    except Timeout:
        out.trivial = True
        out.timed_out = True
        return out
    except BaseException as e:  # noqa
        raised = e
    finally:
        _Watchdog.disarm(wd)
        signal.alarm(0)
        signal.signal(signal.SIGALRM, old)
    if raised is not None:
        out.observed = "raised %s: %s" % (type(raised).__name__, str(raised)[:200])
        for xname, fn in (getattr(contract.impl, "raises_post", None) or {}).items():
            if exc_matches(raised, xname):
                ns.__dict__["exc"] = raised
                try:
                    bad = [label for label, c in fn(ns).items() if not bool(c)]
                except Exception as e:
                    bad = ["<evaluation: %s>" % e]
                if bad:
                    out.ok = False
                    out.failed_clause = "raises-post#%s#%s" % (xname, bad[0])
                    out.detail = "exceptional postcondition %s is false" % bad[0]
                    return out
        matched = None
        for xname, cond in getattr(contract, "raises_implies", {}).items():
            if exc_matches(raised, xname):
                # one-sided exceptional postcondition: `raise X` implies cond
                if not bool(cond(ns)):
                    out.ok = False
                    out.failed_clause = "raises#%s" % xname
                    out.detail = "raised %s although its (one-sided) condition does not hold" % xname
                return out
        for xname in contract.raises:
            if exc_matches(raised, xname):
                matched = xname
                break
        if matched is None:
            one_sided = list(getattr(contract, "raises_if", {}).items()) + list(getattr(contract, "raises_only_if", {}).items())
            for xname, cond in one_sided:
                if exc_matches(raised, xname):
                    ns.__dict__["exc"] = raised
                    if not bool(cond(ns)):
                        out.ok = False
                        out.failed_clause = "raises#%s" % xname
                        out.detail = "raised %s although its condition does not hold" % xname
                    return out
            if any(exc_matches(raised, x) for x in contract.may_raise):
                return out
            out.ok = False
            out.failed_clause = "noraise#%s" % type(raised).__name__
            out.detail = "undeclared exception %s" % type(raised).__name__
            return out
        if contract.raises[matched] is not None and not expected[matched]:
            out.ok = False
            out.failed_clause = "raises#%s" % matched
            out.detail = "raised %s although its condition does not hold" % matched
        return out
    try:
        out.observed = "returned %r" % (result,) if not isinstance(result, (list, dict)) or len(repr(result)) < 200 else "returned (large)"
    except Exception:  # e.g. CPython's int -> str digit limit inside a __repr__
        out.observed = "returned <%s> (repr failed)" % type(result).__name__
    out.observed = out.observed[:300]
    for xname, val in expected.items():
        if val:
            out.ok = False
            out.failed_clause = "noraise-implies#not-%s" % xname
            out.detail = "returned normally although the condition of %s holds" % xname
            return out
    ns.__dict__["result"] = result
    if contract.qualname.endswith(".__init__"):
        ns.__dict__["self"] = result  # the harness calls the class; the constructed object is `self`
    try:
        post = contract.clauses("post", ns)
    except Exception as e:
        out.ok = False
        out.failed_clause = "post#<evaluation>"
        out.detail = "postcondition raised %s: %s" % (type(e).__name__, e)
        return out
    extra = getattr(contract.impl, "native_extra_post", None)
    if extra is not None:
        post = list(post) + [("class-invariant", extra(ns))]
    for label, c in post:
        if not bool(c):
            out.ok = False
            out.failed_clause = "post#%s" % label
            out.detail = "postcondition %s is false" % label
            return out
    return out


class NativeSuite:
    """A property's native harness: a list of (contract qualname, generator) pairs.

    A generator is a callable gen(rng, size) -> (desc, build) where `desc` is a JSON-serialisable description of the
    input and build(desc) -> (call, ns_args) constructs the real objects and the closure that calls the real function.
    """

    MAX_TIMEOUTS = 3       # after this many calls of the real code ran into the time limit the native run is abandoned
    CALL_TIME_LIMIT = 10   # seconds per call of the real function

    def __init__(self):
        self.cases: List[Tuple[str, Callable, Callable]] = []
        self.timeouts: List[dict] = []

    def add(self, qualname: str, gen: Callable, build: Callable, outside_pre_only_raises: Optional[str] = None):
        """outside_pre_only_raises: name of an exception class; inputs outside the contract's precondition are then still
        executed and only the exception class of the outcome is checked (property-level clause, e.g. C13)."""
        self.cases.append((qualname, gen, build))
        if outside_pre_only_raises:
            self.__dict__.setdefault("outside_pre", {})[qualname] = outside_pre_only_raises

    def run(self, reg, seed: int, budget: int, only: Optional[str] = None, stop_on_fail: bool = True):
        """Returns (evaluations, nontrivial_distinct, failures[list of dict], samples)."""
        rng = random.Random(seed)
        evaluations = 0
        distinct = set()
        failures = []
        samples = []
        self.timeouts = getattr(self, "timeouts", [])
        for qualname, gen, build in self.cases:
            if len(self.timeouts) >= self.MAX_TIMEOUTS:
                break  # the real code keeps running into the per-call time limit: stop the (bounded) native run
            if only is not None and not qualname.endswith(only) and only not in qualname:
                continue
            contract = reg.contracts.get(qualname if qualname.startswith("pydsdl.") else "pydsdl." + qualname)
            if contract is None:
                continue
            for k in range(budget):
                desc = gen(rng, k)
                if desc is None:
                    continue
                try:
                    call, ns_args = build(desc)
                except Exception as e:
                    continue
                evaluations += 1
                o = check_call(contract, call, ns_args, time_limit=self.CALL_TIME_LIMIT,
                               outside_pre_only_raises=self.__dict__.get("outside_pre", {}).get(qualname))
                if o.timed_out:
                    self.timeouts.append({"function": qualname, "input": desc, "limit_s": self.CALL_TIME_LIMIT})
                    if len(self.timeouts) >= self.MAX_TIMEOUTS:
                        break
                if o.trivial:
                    continue
                key = repr(desc)
                distinct.add((qualname, key))
                if len(samples) < 3 and k % 7 == 0:
                    samples.append({"function": qualname, "input": desc, "observed": o.observed})
                if not o.ok:
                    failures.append({"function": qualname, "input": desc, "clause": o.failed_clause, "detail": o.detail,
                                     "observed": o.observed})
                    if stop_on_fail:
                        break
        return evaluations, len(distinct), failures, samples

    def replay(self, reg, qualname: str, desc) -> Outcome:
        for q, gen, build in self.cases:
            if q == qualname or q.endswith(qualname) or qualname.endswith(q):
                contract = reg.contracts.get(q if q.startswith("pydsdl.") else "pydsdl." + q)
                call, ns_args = build(desc)
                return check_call(contract, call, ns_args,
                                  outside_pre_only_raises=self.__dict__.get("outside_pre", {}).get(q))
        raise KeyError(qualname)
