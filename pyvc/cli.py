"""
Command line driver:  python -m pyvc.cli <PROP> [--tier quick|thorough] [--replay PATH] [--debug FUNC]
Exit codes: 0 every obligation discharged; 1 violation (VIOLATION line printed); 2 undecided (engine limit); 3 crash.
"""
from __future__ import annotations
import argparse
import importlib
import json
import os
import sys
import time
import traceback

ROOT = os.path.dirname(os.path.dirname(os.path.abspath(__file__)))


def load_specs(prop: str):
    from .spec import REG

    modname = "specs.%s" % prop.lower()
    importlib.import_module("specs.common")
    mod = importlib.import_module(modname)
    return REG, mod


def build_engine():
    from .frontend import load_repo
    from .symexec import Engine
    from .spec import REG
    from . import settheory

    repo = load_repo()
    eng = Engine(repo, REG)
    eng.prelude_named = settheory.prelude() + eng.build_class_axioms()
    eng.prelude = [a for (_, _, a) in eng.prelude_named]
    return eng


def debug_function(prop: str, func: str, timeout: float, verbose: bool):
    from . import solve

    reg, mod = load_specs(prop)
    eng = build_engine()
    names = [q for q in reg.contracts if q.endswith(func) and reg.contracts[q].verify]
    for q in names:
        c = reg.contracts[q]
        t0 = time.time()
        res = eng.verify_function(q, c)
        print("== %s: %d paths (%d normal, %d raising), %d obligations, %d limits (%.2fs)" % (
            q, res.paths, res.normal_paths, res.raising_paths, len(res.obligations), len(res.limits), time.time() - t0))
        for l in res.limits:
            print("   LIMIT:", l)
        results = solve.discharge(eng, res.obligations, timeout=timeout, tag="debug")
        for r in results:
            flag = "ok " if r.discharged else "FAIL"
            print("   %s %-90s %-8s %-10s %.2fs" % (flag, r.name, r.status, r.backend, r.time))
            if not r.discharged and verbose:
                print("        path=%s %s %s %s" % (r.path, r.detail[:100], r.smt2_path, r.info))


def main(argv=None):
    ap = argparse.ArgumentParser()
    ap.add_argument("prop")
    ap.add_argument("--tier", default=os.environ.get("VERIF_TIER", "quick"))
    ap.add_argument("--replay")
    ap.add_argument("--debug")
    ap.add_argument("--timeout", type=float, default=None)
    ap.add_argument("-v", action="store_true")
    args = ap.parse_args(argv)
    sys.path.insert(0, ROOT)
    if args.debug:
        debug_function(args.prop, args.debug, args.timeout or 10.0, args.v)
        return 0
    from . import runner

    return runner.run_property(args.prop, args.tier, args.replay, args.timeout)


if __name__ == "__main__":
    try:
        sys.exit(main())
    except SystemExit:
        raise
    except Exception:  # pragma: no cover
        traceback.print_exc()
        sys.exit(3)
