"""
Path-wise symbolic executor for the Python subset of DESIGN.md section 3/10.

Exploration is by re-execution: a path is identified by the sequence of decisions taken at symbolic branch points;
the executor runs the function from the start following a prescribed prefix, and whenever it reaches a new
symbolic branch it takes the first feasible side and schedules the other one.  The interpreter itself is therefore
an ordinary recursive evaluator with mutable state (no state copying), which keeps it small and auditable.
"""
from __future__ import annotations
import ast
import z3
from typing import Any, Dict, List, Optional, Tuple

from . import values as V
from .values import EngineLimit, Obj, SymSet, SymSeq, SymMap, OptV, RecV, PyList, PySet, PyDict, ExcVal
from .frontend import Repo, FuncInfo, ClassInfo, ModuleInfo
from .spec import Registry, Contract, NS
from . import speclib


class PyRaise(Exception):
    def __init__(self, exc: ExcVal):
        self.exc = exc


class ReturnSig(Exception):
    def __init__(self, value):
        self.value = value


class BreakSig(Exception):
    pass


class ContinueSig(Exception):
    pass


class InstanceOutsideDomain(Exception):
    """The entry assumptions of a (receiver class, finite-instantiation instance) pair are contradictory: the pair is not
    in the domain (e.g. a width that the class invariant of the receiver class excludes); it is skipped and reported."""


class PathEnd(Exception):
    """The current path ends here (loop step case proved, or an assumption made the path infeasible)."""


class Obligation:
    __slots__ = ("name", "pc", "goal", "axioms", "func", "path", "info", "kind")

    def __init__(self, name, pc, goal, axioms, func, path, info=None, kind="post"):
        self.name = name
        self.pc = pc
        self.goal = goal
        self.axioms = axioms
        self.func = func
        self.path = path
        self.info = info or {}
        self.kind = kind


EXT_EXC_BASES = {
    "BaseException": None,
    "Exception": "BaseException",
    "ArithmeticError": "Exception",
    "ZeroDivisionError": "ArithmeticError",
    "OverflowError": "ArithmeticError",
    "LookupError": "Exception",
    "KeyError": "LookupError",
    "IndexError": "LookupError",
    "ValueError": "Exception",
    "UnicodeError": "ValueError",
    "UnicodeDecodeError": "UnicodeError",
    "UnicodeEncodeError": "UnicodeError",
    "TypeError": "Exception",
    "AttributeError": "Exception",
    "AssertionError": "Exception",
    "RuntimeError": "Exception",
    "NotImplementedError": "RuntimeError",
    "RecursionError": "RuntimeError",
    "StopIteration": "Exception",
    "OSError": "Exception",
    "FileNotFoundError": "OSError",
    "MemoryError": "Exception",
    "SystemError": "Exception",
    "SystemExit": "BaseException",
    "KeyboardInterrupt": "BaseException",
    "ImportError": "Exception",
    "struct.error": "Exception",
}


def ext_is_subclass(name: str, base: str) -> bool:
    while name is not None:
        if name == base:
            return True
        name = EXT_EXC_BASES.get(name)
    return False


class Env:
    def __init__(self, module: ModuleInfo, parent: Optional["Env"] = None, finfo: Optional[FuncInfo] = None):
        self.vars: Dict[str, Any] = {}
        self.module = module
        self.parent = parent
        self.finfo = finfo
        self.loop_counter = 0

    def lookup(self, name: str):
        e = self
        while e is not None:
            if name in e.vars:
                return True, e.vars[name]
            e = e.parent
        return False, None


class Ctx:
    """State of one path."""

    def __init__(self, engine: "Engine", func: str, prefix: List[int]):
        self.engine = engine
        self.func = func
        self.prefix = list(prefix)
        self.taken: List[int] = []
        self.pending: List[List[int]] = []
        self.pc: List[Any] = []
        self.axioms: List[Any] = []
        self.obligations: List[Obligation] = []
        self.counter = 0
        self.bound: List[Any] = []  # constants standing for bound variables of collector loops
        self.bound_guards: List[Any] = []
        self.gen_facts: List[Any] = []  # facts assumed under bound variables (to be generalised)
        self.labels: List[str] = []
        self.inline_depth = 0
        self.opaque_ok = 0
        self.notes: List[str] = []
        self.assert_counter = 0
        self.covered = True
        self.spec_mode = 0
        self.bindings: List[Any] = []
        self.collector = None
        self.bound_patterns: List[Any] = []
        self.handling: List[Any] = []
        self.stores: List[Any] = []
        self.global_cache: Dict[Any, Any] = {}
        self.yielded: List[Any] = []
        self.call_log: List[Any] = []  # calls made through contracts on this path, in order (ghost; see speclib.CALLS)
        self.top_contract = None
        self.top_ns = None
        self.ysym = None  # symbolic sequence of yields (generators with yields inside invariant loops)
        self.guards: List[Any] = []  # reachability guards: (kind, pc, axioms, decisions) at the end of a path
        self.entry_measure = None

    # ---- fresh symbols
    def fresh(self, base: str, sort):
        self.counter += 1
        name = "%s!%d" % (base, self.counter)
        if self.bound:
            f = z3.Function(name, *[b.sort() for b in self.bound], sort)
            return f(*self.bound)
        return z3.Const(name, sort)

    def fresh_kind(self, base: str, kind):
        return kind.build(self, lambda suffix, sort: self.fresh(base + suffix, sort))

    # ---- assumptions and obligations
    def assume(self, fact):
        if isinstance(fact, bool):
            if not fact:
                # a concretely false assumption is almost always a specification / kind error: be loud
                raise EngineLimit("an assumed clause is concretely false (contract or kind declaration error?)")
            return
        self.pc.append(fact)
        if self.bound:
            self.gen_facts.append(fact)

    def add_axiom(self, ax):
        self.axioms.append(ax)

    def oblige(self, name: str, goal, kind="post", info=None):
        if self.spec_mode:
            return  # evaluating a specification expression never creates proof obligations
        if isinstance(goal, bool):
            goal = z3.BoolVal(goal)
        for sub_name, sub_goal in split_goal(name, goal):
            self.obligations.append(
                Obligation(sub_name, list(self.pc), sub_goal, list(self.axioms), self.func, list(self.taken), info, kind)
            )

    # ---- decisions
    def decide(self, cond) -> bool:
        if isinstance(cond, bool):
            return cond
        cond = z3.simplify(cond)
        if z3.is_true(cond):
            return True
        if z3.is_false(cond):
            return False
        # forced decisions (only one side feasible) are not recorded as decisions: they are recomputed identically
        # on every re-execution and do not count as branching
        t_ok = self.engine.feasible(self, cond)
        f_ok = self.engine.feasible(self, z3.Not(cond))
        if t_ok and f_ok and self.bound:
            # about to branch on an arbitrary element of a comprehension / set-building loop: try once more with the
            # instances of the universally quantified path facts at the bound constants
            t_ok = self.engine.feasible(self, cond, with_instances=True)
            f_ok = self.engine.feasible(self, z3.Not(cond), with_instances=True)
        if t_ok and not f_ok:
            self.pc.append(cond)
            return True
        if f_ok and not t_ok:
            self.pc.append(z3.Not(cond))
            return False
        if not t_ok and not f_ok:
            raise PathEnd()
        idx = len(self.taken)
        if idx < len(self.prefix):
            d = self.prefix[idx]
            self.taken.append(d)
            self.pc.append(cond if d else z3.Not(cond))
            return bool(d)
        self.pending.append(self.taken + [0])
        self.taken.append(1)
        self.pc.append(cond)
        return True

    def choose(self, n: int) -> int:
        """Unconditional n-way fork."""
        idx = len(self.taken)
        if idx < len(self.prefix):
            d = self.prefix[idx]
            self.taken.append(d)
            return d
        for k in range(1, n):
            self.pending.append(self.taken + [k])
        self.taken.append(0)
        return 0


class FunctionResult:
    def __init__(self, qualname):
        self.qualname = qualname
        self.obligations: List[Obligation] = []
        self.paths = 0
        self.limits: List[str] = []
        self.instances = 0
        self._seen = set()
        self._keep = []
        self.entry_pc = None
        self.entry_axioms = None
        self.normal_paths = 0
        self.raising_paths = 0
        self.guards: List[Any] = []  # (function tag, kind, pc, axioms, decisions): see runner path guards
        self.skipped_instances: List[str] = []  # (class, instance) pairs whose entry assumptions are contradictory


class Engine:
    MAX_PATHS = 4000
    FEAS_TIMEOUT_MS = 250

    def __init__(self, repo: Repo, reg: Registry):
        self.repo = repo
        self.reg = reg
        self.prelude: List[Any] = []
        self.tag_fn = z3.Function("cls_tag", V.RefSort, z3.IntSort())
        self._class_ids: Dict[str, int] = {}
        for i, q in enumerate(sorted(repo.classes)):
            self._class_ids[q] = i + 1
        self.uf_cache: Dict[str, Any] = {}
        self.libmodel = None
        from . import libmodel

        self.lib = libmodel.Lib(self)
        self.stats = {"feasibility_checks": 0}
        self.used_prelude_ids = set()
        self.unchecked_asserts = set()
        self._feas_cache: Dict[Any, Any] = {}

    # ------------------------------------------------------------------ helpers
    def class_by_name(self, name: str) -> ClassInfo:
        if name in self.repo.classes:
            return self.repo.classes[name]
        if "pydsdl." + name in self.repo.classes:
            return self.repo.classes["pydsdl." + name]
        cands = [c for q, c in self.repo.classes.items() if q.endswith("." + name)]
        if len(cands) == 1:
            return cands[0]
        # prefer the non-test, shortest
        cands = [c for c in cands if "_test" not in c.qualname]
        if cands:
            return sorted(cands, key=lambda c: len(c.qualname))[0]
        raise KeyError("class %s" % name)

    def class_id(self, c: ClassInfo) -> int:
        return self._class_ids[c.qualname]

    def uf(self, name: str, *sorts):
        key = name + "|" + ",".join(str(s) for s in sorts)
        if key not in self.uf_cache:
            self.uf_cache[key] = z3.Function(name, *sorts)
        return self.uf_cache[key]

    # ---- relevance filtering of the prelude (cone of influence over uninterpreted function symbols)
    def relevant_prelude(self, formulas) -> List[Any]:
        syms = set()
        for f in formulas:
            syms |= symbols_of(f)
        if not hasattr(self, "_prelude_trig") or len(self._prelude_trig) != len(self.prelude):
            self._prelude_trig = [trigger_symbol_sets(a) for a in self.prelude]
        chosen = [False] * len(self.prelude)
        changed = True
        while changed:
            changed = False
            for idx, alts in enumerate(self._prelude_trig):
                if not chosen[idx] and any(alt <= syms for alt in alts):
                    chosen[idx] = True
                    new = symbols_of(self.prelude[idx]) - syms
                    if new:
                        syms |= new
                    changed = True
        set_theory = bool(syms & SET_THEORY_SYMBOLS)
        out = []
        for (a, c), (nm, _, _) in zip(zip(self.prelude, chosen), self.prelude_named):
            if not c:
                continue
            if nm == "pmod-builtin" and set_theory:
                continue
            out.append(a)
        for a in out:
            self.used_prelude_ids.add(a.get_id())
        return out

    def lib_assumed(self):
        from . import libmodel

        return ["%s: %s" % kv for kv in sorted(libmodel.ASSUMED.items())]

    def feasible(self, ctx: Ctx, cond, with_instances: bool = False) -> bool:
        """Path pruning only (an over-approximation is sound): quantifier-free part of the path condition."""
        qf = [p for p in ctx.pc if not has_quantifier(p)]
        if ctx.bound and with_instances:
            # inside a comprehension / set-building loop: instances of the universally quantified facts of the path
            # condition at the bound constants (sound: instances of assumptions), so that preconditions stated over all
            # elements of a sequence decide branches on the arbitrary element
            for p in ctx.pc[:getattr(ctx, "entry_len", 0)]:  # preconditions and class invariants only
                if z3.is_quantifier(p) and p.is_forall() and p.num_vars() == 1:
                    for bc in ctx.bound:
                        if bc.sort() == p.var_sort(0):
                            qf.append(z3.substitute_vars(p.body(), bc))
        key = (tuple(p.get_id() for p in qf), cond.get_id())
        hit = self._feas_cache.get(key)
        if hit is not None:
            return hit[0]
        self.stats["feasibility_checks"] += 1
        s = z3.Solver()
        s.set("timeout", self.FEAS_TIMEOUT_MS)
        for p in qf:
            s.add(p)
        s.add(cond)
        r = s.check() != z3.unsat
        self._feas_cache[key] = (r, qf, cond)  # the terms are kept alive so that their ids stay unique
        return r

    # ------------------------------------------------------------------ class model
    def field_kind(self, cls: ClassInfo, name: str):
        for c in cls.mro():
            cs = self.reg.classes.get(c.qualname)
            if cs and name in cs.fields:
                return cs.fields[name], c
        return None, None

    def all_field_kinds(self, cls: ClassInfo) -> Dict[str, Any]:
        out: Dict[str, Any] = {}
        for c in reversed(cls.mro()):
            cs = self.reg.classes.get(c.qualname)
            if cs:
                out.update(cs.fields)
        return out

    def class_invariants(self, ctx: Ctx, obj: Obj, cls: Optional[ClassInfo] = None, partial: bool = False,
                         exempt=()) -> List[Tuple[str, Any]]:
        out = []
        for c in (cls or obj.cls).mro():
            if (c.name + ".*") in exempt:
                continue  # every clause of this class is exempt (Contract.inv_exempt): not even evaluated
            cs = self.reg.classes.get(c.qualname)
            if cs and cs.invariant:
                if partial and cs.whole_object:
                    # object of a subclass still under construction: whole-object clauses are not yet meaningful
                    old = speclib.CTX
                    speclib.CTX = ctx
                    ctx.spec_mode += 1
                    try:
                        r = cs.invariant(obj, skip=set(cs.whole_object)) if _accepts_skip(cs.invariant) else None
                    finally:
                        ctx.spec_mode -= 1
                        speclib.CTX = old
                    if r is None:
                        raise EngineLimit("invariant of %s has whole-object clauses but does not accept skip=" % c.name)
                else:
                    r = self.run_spec(ctx, cs.invariant, obj)
                if isinstance(r, dict):
                    out.extend(("%s.%s" % (c.name, k), v) for k, v in r.items())
                else:
                    out.extend(("%s.%d" % (c.name, i), v) for i, v in enumerate(r or []))
        return out

    def run_spec(self, ctx: Ctx, fn, *args):
        old = speclib.CTX
        speclib.CTX = ctx
        ctx.spec_mode += 1
        try:
            return fn(*args)
        finally:
            ctx.spec_mode -= 1
            speclib.CTX = old

    def abstract_field(self, ctx: Ctx, obj: Obj, name: str):
        kind, owner = self.field_kind(obj.cls, name)
        if kind is None:
            raise EngineLimit("no field kind declared for %s.%s" % (obj.cls.qualname, name))
        base = "fld!%s!%s" % (owner.name, name)
        v = kind.build(ctx, lambda suffix, sort: self.uf(base + suffix, V.RefSort, sort)(obj.ref))
        self.assume_wellformed(ctx, v)
        return v

    def subclass_roots_defining(self, cls: ClassInfo, name: str) -> List[ClassInfo]:
        def defines(c):
            if name in c.methods or name in c.class_attrs:
                return True
            cs = self.reg.classes.get(c.qualname)
            return bool(cs and name in cs.fields)

        roots = []
        for c in cls.all_subclasses():
            if c is cls:
                continue
            if defines(c) and not any(defines(b) for b in c.mro()[1:]):
                roots.append(c)
        return roots

    def spec_getattr(self, obj: Obj, name: str):
        ctx = speclib.CTX or obj.ctx
        return self.getattr(ctx, obj, name, from_spec=True)

    def materialise_self(self, ctx: Ctx, cls: ClassInfo, for_init: bool) -> Obj:
        ref = ctx.fresh("self", V.RefSort)
        ctx.assume(self.tag_fn(ref) == self.class_id(cls))
        if for_init:
            return Obj(cls, True, ref, {}, ctx)
        fields = {}
        for n, k in self.all_field_kinds(cls).items():
            fields[n] = ctx.fresh_kind("self." + n, k)
            # closed world, as for parameters: the dynamic class of an object-valued field (and of the elements of a
            # sequence-valued one) is one of the repository's instantiable subclasses of its declared class
            self.assume_wellformed(ctx, fields[n])
        return Obj(cls, True, ref, fields, ctx)

    def isinstance_of(self, ctx: Ctx, v, cls) -> Any:
        """isinstance(v, cls) as python bool or z3 Bool."""
        if isinstance(cls, V.Builtin) and cls.bound is None:
            cls = V.ExtClass(cls.name)
        if isinstance(cls, V.ExtClass):
            return self.lib.isinstance_ext(ctx, v, cls.name)
        if isinstance(cls, V.ClassTagV):
            # isinstance(v, type(y)): the dynamic class of v is a subclass of the class whose tag is given
            if isinstance(v, OptV):
                return speclib_and(self.b_not(v.is_none), self.isinstance_of(ctx, v.val, cls))
            if not isinstance(v, Obj):
                return False
            cands = [v.cls] if v.exact else v.cls.all_subclasses()
            alts = []
            for c1 in cands:
                for c2 in c1.mro():
                    alts.append(z3.And(self.tag_fn(v.ref) == self.class_id(c1), cls.term == self.class_id(c2)))
            return z3.Or(*alts) if alts else False
        if isinstance(cls, V.ClassVal):
            cls = cls.cls
        if isinstance(v, Obj):
            if v.exact:
                return v.cls.is_subclass_of(cls)
            if v.cls.is_subclass_of(cls):
                return True
            subs = [c for c in v.cls.all_subclasses() if c.is_subclass_of(cls)]
            if not subs:
                return False
            return z3.Or(*[self.tag_fn(v.ref) == self.class_id(c) for c in subs])
        if isinstance(v, ExcVal):
            return isinstance(v.cls, ClassInfo) and v.cls.is_subclass_of(cls)
        if isinstance(v, V.EnumV):
            return v.cls.is_subclass_of(cls)
        if isinstance(v, OptV):
            inner = self.isinstance_of(ctx, v.val, cls)
            return speclib_and(self.b_not(v.is_none), inner)
        return False

    def assume_class_range(self, ctx: Ctx, obj: Obj):
        """Closed world: the dynamic class of an abstract object is one of the repository's subclasses."""
        subs = [c for c in obj.cls.instantiable_subclasses()]
        ctx.assume(z3.Or(*[self.tag_fn(obj.ref) == self.class_id(c) for c in subs]))

    @staticmethod
    def b_not(b):
        if isinstance(b, bool):
            return not b
        return z3.Not(b)

    # ------------------------------------------------------------------ truth / equality
    def truth(self, ctx: Ctx, v) -> Any:
        if isinstance(v, (bool, int, str, float)) or v is None:
            return bool(v)
        if isinstance(v, z3.ExprRef):
            if z3.is_bool(v):
                return v
            if z3.is_int(v) or z3.is_real(v):
                return v != 0
            if z3.is_string(v):
                from . import strmodel as _sm

                if _sm.ENABLED and _sm.lower_arg(v) is not None:
                    return _sm.truth_of_lower(_sm.lower_arg(v))
                return z3.Length(v) > 0
        if isinstance(v, OptV):
            return speclib_and(self.b_not(v.is_none), self.truth(ctx, v.val))
        if isinstance(v, V.SymClosure):
            return v.tag != 0
        if isinstance(v, PyList):
            return len(v.items) > 0
        if isinstance(v, tuple):
            return len(v) > 0
        if isinstance(v, PySet):
            return len(v.items) > 0
        if isinstance(v, PyDict):
            return len(v.items) > 0
        if isinstance(v, SymSeq):
            return v.length > 0
        if isinstance(v, V.BytesV):
            return v.length > 0
        if type(v).__name__ == "DynV":
            from . import dynmodel as _dm

            return _dm.truth(v)
        if isinstance(v, SymSet):
            w = ctx.fresh("wit", v.elem_sort)
            x = z3.FreshConst(v.elem_sort, "x")
            ctx.add_axiom(z3.ForAll([x], z3.Implies(z3.Select(v.term, x), z3.Select(v.term, w)),
                                    patterns=[z3.Select(v.term, x)]))
            return z3.Select(v.term, w)
        if isinstance(v, Obj):
            m = v.cls.lookup("__bool__")
            if m is not None:
                return self.truth(ctx, self.call_function(ctx, m, [v], {}))
            if v.cls.lookup("__len__") is not None:
                raise EngineLimit("truthiness through __len__ of %s" % v.cls.name)
            return True
        if isinstance(v, (V.ClassVal, V.Closure, V.BoundMethod, V.Builtin, V.EnumV, RecV, ExcVal, V.ExtClass, V.Recorder)):
            return True
        if isinstance(v, V.Opaque):
            raise EngineLimit("truthiness of opaque value %s" % v.what)
        raise EngineLimit("truthiness of %r" % (v,))

    def py_eq(self, ctx: Ctx, a, b) -> Any:
        if isinstance(a, V.SymClosure) or isinstance(b, V.SymClosure):
            return self.py_is(ctx, a, b)
        if isinstance(a, OptV) or isinstance(b, OptV):
            if not isinstance(a, OptV):
                a, b = b, a
            if b is None:
                return a.is_none
            if isinstance(b, OptV):
                both_none = speclib_and(a.is_none, b.is_none)
                both_some = speclib_and(self.b_not(a.is_none), self.b_not(b.is_none), self.py_eq(ctx, a.val, b.val))
                return speclib_or(both_none, both_some)
            return speclib_and(self.b_not(a.is_none), self.py_eq(ctx, a.val, b))
        if isinstance(a, V.PathV) and isinstance(b, V.PathV):
            return a.term == b.term  # pure paths compare by value
        if a is None or b is None:
            if a is None and b is None:
                return True
            other = b if a is None else a
            if isinstance(other, (z3.ExprRef, Obj, RecV, SymSet, SymSeq, PyList, tuple, int, str, bool, V.EnumV)):
                return False
            raise EngineLimit("== None of %r" % (other,))
        if isinstance(a, z3.ExprRef) or isinstance(b, z3.ExprRef) or (
                isinstance(a, V.FractionV) and isinstance(b, (V.FractionV, int))) or (
                isinstance(b, V.FractionV) and isinstance(a, int)):
            from . import strmodel as _sm

            if _sm.ENABLED:
                for lit, term in ((a, b), (b, a)):
                    if isinstance(lit, str) and isinstance(term, z3.ExprRef) and _sm.lower_arg(term) is not None:
                        return _sm.eq_literal(self, ctx, lit, term)
            ta, tb = self.coerce_pair(a, b)
            if ta is None:
                return False
            return ta == tb
        if isinstance(a, RecV) or isinstance(b, RecV):
            ca = list(a.comps.values()) if isinstance(a, RecV) else list(a) if isinstance(a, tuple) else None
            cb = list(b.comps.values()) if isinstance(b, RecV) else list(b) if isinstance(b, tuple) else None
            if ca is None or cb is None or len(ca) != len(cb):
                return False
            return speclib_and(*[self.py_eq(ctx, x, y) for x, y in zip(ca, cb)])
        if isinstance(a, V.EnumV) or isinstance(b, V.EnumV):
            if isinstance(a, V.EnumV) and isinstance(b, V.EnumV):
                if a.cls is not b.cls:
                    return False
                return self.py_eq(ctx, a.term, b.term)
            return False
        if isinstance(a, Obj) and isinstance(b, Obj):
            hook = self.eq_spec(a, b)
            if hook is not None:
                return hook
            m = a.cls.lookup("__eq__")
            if m is not None:
                r = self.call_function(ctx, m, [a, b], {})
                return r
            return a.ref == b.ref
        if isinstance(a, Obj) or isinstance(b, Obj):
            o, other = (a, b) if isinstance(a, Obj) else (b, a)
            m = o.cls.lookup("__eq__")
            if m is not None:
                return self.call_function(ctx, m, [o, other], {})
            return False
        if isinstance(a, SymSet) or isinstance(b, SymSet):
            ta = self.to_symset(ctx, a)
            tb = self.to_symset(ctx, b)
            return ta.term == tb.term
        if isinstance(a, V.ClassVal) and isinstance(b, V.ClassVal):
            return a.cls is b.cls
        if isinstance(a, V.ClassTagV) or isinstance(b, V.ClassTagV):
            return self.class_tag_eq(ctx, a, b)
        if isinstance(a, (V.ClassVal, V.ExtClass)) or isinstance(b, (V.ClassVal, V.ExtClass)):
            return a == b if isinstance(a, V.ExtClass) and isinstance(b, V.ExtClass) else False
        if isinstance(a, PyList) and isinstance(b, PyList):
            if len(a.items) != len(b.items):
                return False
            return speclib_and(*[self.py_eq(ctx, x, y) for x, y in zip(a.items, b.items)])
        if isinstance(a, tuple) and isinstance(b, tuple):
            if len(a) != len(b):
                return False
            return speclib_and(*[self.py_eq(ctx, x, y) for x, y in zip(a, b)])
        if isinstance(a, (bool, int, str, float)) and isinstance(b, (bool, int, str, float)):
            return a == b
        if isinstance(a, (V.Opaque, V.Builtin)) or isinstance(b, (V.Opaque, V.Builtin)):
            raise EngineLimit("== on an unmodelled value %r / %r" % (a, b))
        if type(a) is not type(b):
            return False
        raise EngineLimit("== of %r and %r" % (a, b))

    def eq_spec(self, a: Obj, b: Obj):
        """Interface contract of `==` declared by a class specification (`eq(a, b)` -> clause) for a hierarchy whose
           abstract base does not define __eq__ while implementations do (dynamic dispatch of == on a non-exact receiver).
           Applies when either operand is a non-exact object of such a hierarchy; the implementations' __eq__ are
           obligated to the same clause by their own contracts."""
        if a.exact and a.cls.lookup("__eq__") is not None:
            return None  # exact receiver with its own __eq__: the real method is used (contract / inlining)
        for c in a.cls.mro():
            cs = self.reg.classes.get(c.qualname)
            fn = getattr(cs, "eq", None) if cs else None
            if fn is not None and b.cls.is_subclass_of(c):
                ctx = speclib.CTX or a.ctx
                r = self.run_spec(ctx, fn, a, b) if speclib.CTX is None else fn(a, b)
                return lift_bool(r) if not isinstance(r, bool) else r
        return None

    def class_tag_eq(self, ctx, a, b):
        def tag(v):
            if isinstance(v, V.ClassTagV):
                return v.term
            if isinstance(v, V.ClassVal):
                return z3.IntVal(self.class_id(v.cls))
            return None

        ta, tb = tag(a), tag(b)
        if ta is None or tb is None:
            return False
        return ta == tb

    def to_symset(self, ctx: Ctx, v) -> SymSet:
        if isinstance(v, SymSet):
            return v
        if isinstance(v, PySet):
            items = v.items
        elif isinstance(v, (set, frozenset, list, tuple)):
            items = list(v)
        else:
            raise EngineLimit("cannot view %r as a set" % (v,))
        t = z3.K(z3.IntSort(), z3.BoolVal(False))
        for it in items:
            t = z3.Store(t, V.Int.unwrap(it), z3.BoolVal(True))
        return SymSet(t, fresh=True)

    def coerce_pair(self, a, b):
        def term(x):
            if isinstance(x, z3.ExprRef):
                return x
            if isinstance(x, bool):
                return z3.BoolVal(x)
            if isinstance(x, int):
                return z3.IntVal(x)
            if isinstance(x, str):
                return z3.StringVal(x)
            if isinstance(x, V.FractionV):
                return x.term
            return None

        ta, tb = term(a), term(b)
        if ta is None or tb is None:
            return None, None
        if ta.sort() == tb.sort():
            return ta, tb
        sa, sb = ta.sort().kind(), tb.sort().kind()
        num = (z3.Z3_INT_SORT, z3.Z3_REAL_SORT, z3.Z3_BOOL_SORT)
        if sa in num and sb in num:
            return self.to_num(ta, real=(z3.Z3_REAL_SORT in (sa, sb))), self.to_num(tb, real=(z3.Z3_REAL_SORT in (sa, sb)))
        return None, None

    @staticmethod
    def to_num(t, real=False):
        if isinstance(t, bool):
            t = z3.IntVal(int(t))
        elif isinstance(t, int):
            t = z3.IntVal(t)
        if z3.is_bool(t):
            t = z3.If(t, z3.IntVal(1), z3.IntVal(0))
        if real and z3.is_int(t):
            t = z3.ToReal(t)
        return t

    def str_lower(self, ctx, s):
        if isinstance(s, str):
            return s.lower()
        return self.uf("str.lower", z3.StringSort(), z3.StringSort())(s)

    # ------------------------------------------------------------------ verification driver
    def verify_function(self, qualname: str, contract: Optional[Contract] = None) -> FunctionResult:
        contract = contract or self.reg.contracts[qualname]
        finfo = self.repo.functions.get(contract.qualname)
        if finfo is None and "@" in contract.qualname and getattr(contract.impl, "body_slice", None):
            finfo = self.sliced_function(contract.qualname, contract.impl.body_slice)
        if finfo is None:
            finfo = self.nested_function(contract.qualname)
        res = FunctionResult(contract.qualname)
        if finfo is None:
            res.limits.append("function %s not found in the repository sources" % contract.qualname)
            return res
        instances = contract.instances or [None]
        if callable(instances):
            instances = instances()
        classes = [finfo.cls] if finfo.cls is not None else [None]
        if contract.self_classes:
            classes = [self.class_by_name(n) for n in contract.self_classes]
        for cls in classes:
            for inst in instances:
                res.instances += 1
                before = res.normal_paths
                self._verify_instance(finfo, contract, cls, inst, res)
                if getattr(contract.impl, "cover_instances", False) and not res.limits:
                    # opt-in reachability obligation per instance: some path of this instance returns normally (a change
                    # that makes a whole instance raise - e.g. through an exception the contract merely allows - must not
                    # verify vacuously).  Goal True/False is decided by the exploration; the query keeps the entry
                    # assumptions so that a failure is reported as `sat`.
                    tag = ""
                    if inst is not None:
                        tag = "[" + ",".join("%s=%s" % kv for kv in sorted(inst.items())) + "]"
                    if cls is not None and cls is not finfo.cls:
                        tag = "<%s>" % cls.name + tag
                    res.obligations.append(Obligation("%s%s/cover#returns-normally" % (short(contract.qualname), tag),
                                                      [], z3.BoolVal(res.normal_paths > before), [],
                                                      contract.qualname + tag, [], kind="cover"))
        return res

    def sliced_function(self, qualname: str, spec: dict) -> Optional[FuncInfo]:
        """A contiguous statement block of a repository function, cut out mechanically by AST position and verified as a
        function of the variables it reads: the top-level statements after the assignment to the local name
        spec['after_assign'] up to (excluding) the assignment to the attribute spec['until_assign_attr'].
        Parameters: self (for methods) and spec['params'].  What the slice drops is everything outside the block."""
        base = qualname.split("@")[0]
        outer = self.repo.functions.get(base)
        if outer is None:
            return None
        body = outer.node.body
        start = end = None
        for k, st in enumerate(body):
            tgts = st.targets if isinstance(st, ast.Assign) else [st.target] if isinstance(st, ast.AnnAssign) else []
            for t in tgts:
                if isinstance(t, ast.Name) and t.id == spec["after_assign"] and start is None:
                    start = k + 1
                if isinstance(t, ast.Attribute) and t.attr == spec["until_assign_attr"] and start is not None and end is None:
                    end = k
        if start is None or end is None or end <= start:
            return None
        names = ([outer.params[0]] if outer.cls is not None else []) + list(spec.get("params", []))
        node = ast.FunctionDef(name=outer.name, args=ast.arguments(posonlyargs=[], args=[ast.arg(arg=n, annotation=None)
                                                                                      for n in names],
                                                                     vararg=None, kwonlyargs=[], kw_defaults=[], kwarg=None,
                                                                     defaults=[]),
                               body=body[start:end], decorator_list=[], returns=None, lineno=body[start].lineno,
                               col_offset=0)
        fi = FuncInfo(qualname, node, outer.module, outer.cls)
        fi.name = outer.name
        fi.slice_of = (base, body[start].lineno, body[end - 1].end_lineno)
        return fi

    def nested_function(self, qualname: str) -> Optional[FuncInfo]:
        """A `def` nested directly in a repository function, addressed as <outer qualname>.<name>.  It is verified as a
        function of its parameters; names of the enclosing scope are visible only as far as a specification declares
        them (`outer_env` of the contract), anything else is an unknown name (engine limit)."""
        outer_q, _, name = qualname.rpartition(".")
        outer = self.repo.functions.get(outer_q)
        if outer is None:
            return None
        for node in ast.walk(outer.node):
            if isinstance(node, ast.FunctionDef) and node.name == name and node is not outer.node:
                fi = FuncInfo(qualname, node, outer.module, None)
                fi.outer = outer
                fi.self_recursive_name = name
                return fi
        return None

    def verify_lemma(self, name: str, fn) -> FunctionResult:
        """A lemma over contracts: `fn(ctx)` builds abstract objects (ctx.fresh_kind), states its hypotheses with
        ctx.assume and returns {label: goal}; each goal is an obligation under the class invariants / prelude only (no code
        is executed: the lemma chains what the contracts of the code already guarantee)."""
        res = FunctionResult("lemma:" + name)
        ctx = Ctx(self, "lemma:" + name, [])
        res.paths = 1
        try:
            goals = self.run_spec(ctx, fn, ctx)
            ctx.spec_mode = 0
            res.entry_pc, res.entry_axioms = list(ctx.pc), list(ctx.axioms)
            for lab, g in (goals or {}).items():
                ctx.oblige("lemma.%s/lemma#%s" % (name, lab), lift_bool(g), kind="lemma")
            res.normal_paths = 1
        except EngineLimit as e:
            res.limits.append(str(e))
        res.obligations.extend(ctx.obligations)
        return res

    def _verify_instance(self, finfo: FuncInfo, contract: Contract, cls, inst, res: FunctionResult):
        worklist: List[List[int]] = [[]]
        tagsuffix = ""
        if inst is not None:
            tagsuffix = "[" + ",".join("%s=%s" % kv for kv in sorted(inst.items())) + "]"
        if cls is not None and cls is not finfo.cls:
            tagsuffix = "<%s>" % cls.name + tagsuffix
        while worklist:
            prefix = worklist.pop()
            res.paths += 1
            if res.paths > self.MAX_PATHS:
                res.limits.append("path budget exceeded")
                return
            ctx = Ctx(self, contract.qualname + tagsuffix, prefix)
            try:
                self._run_path(ctx, finfo, contract, cls, inst, res)
            except InstanceOutsideDomain:
                res.skipped_instances.append(tagsuffix or "<default>")
                res.paths -= 1
                return
            except PathEnd:
                pass
            except EngineLimit as e:
                res.limits.append("%s (path %s)" % (e, ctx.taken))
            except RecursionError:
                res.limits.append("interpreter recursion limit")
            for g in ctx.guards:
                res.guards.append((ctx.func,) + tuple(g))
            for ob in ctx.obligations:
                key = (ob.name, tuple(x.get_id() for x in ob.pc), ob.goal.get_id(), len(ob.axioms))
                if key in res._seen:
                    continue
                res._seen.add(key)
                res._keep.append(ob)
                res.obligations.append(ob)
            worklist.extend(ctx.pending)

    def make_param(self, ctx: Ctx, finfo: FuncInfo, contract: Contract, name: str, annotation, inst):
        kind = contract.params.get(name)
        if inst is not None and name in inst:
            if isinstance(inst[name], V.Kind):
                kind = inst[name]
            else:
                return inst[name]
        if kind is None:
            kind = self.kind_from_annotation(finfo, annotation)
        if kind is None:
            raise EngineLimit("no kind for parameter %s of %s" % (name, finfo.qualname))
        if isinstance(kind, V.Const):
            return kind.value
        v = ctx.fresh_kind(name, kind)
        self.assume_wellformed(ctx, v)
        return v

    def assume_wellformed(self, ctx: Ctx, v):
        if isinstance(v, Obj) and v.fields is None and not v.exact:
            self.assume_class_range(ctx, v)
        elif isinstance(v, SymSeq) and isinstance(v.kind, V.ObjOf):
            i = z3.FreshConst(z3.IntSort(), "i")
            cls = self.repo.cls(v.kind.clsname)
            el = z3.Select(v.arr, i)
            rng = z3.Or(*[self.tag_fn(el) == self.class_id(c) for c in cls.instantiable_subclasses()])
            try:
                ctx.add_axiom(z3.ForAll([i], z3.Implies(z3.And(0 <= i, i < v.length), rng), patterns=[el]))
            except z3.Z3Exception:  # the array term is not usable as a trigger (e.g. it contains an if-then-else)
                ctx.add_axiom(z3.ForAll([i], z3.Implies(z3.And(0 <= i, i < v.length), rng)))
        elif isinstance(v, OptV):
            self.assume_wellformed(ctx, v.val)
        elif isinstance(v, RecV):
            for c in v.comps.values():
                self.assume_wellformed(ctx, c)

    def build_class_axioms(self):
        """Class invariants of (immutable, fully constructed) abstract objects as axioms over the abstract heap."""
        out = []
        r = z3.Const("r!obj", V.RefSort)
        for q, cs in self.reg.classes.items():
            if not cs.invariant or q not in self.repo.classes:
                continue
            cls = self.repo.classes[q]
            ctx = Ctx(self, "<class-axioms>", [])
            ctx.under_quantifier = True
            obj = Obj(cls, False, r, None, ctx)
            res = self.run_spec(ctx, cs.invariant, obj)
            items = list(res.items()) if isinstance(res, dict) else [("%d" % k_, c_) for k_, c_ in enumerate(res or [])]
            guard = z3.Or(*[self.tag_fn(r) == self.class_id(c) for c in cls.all_subclasses()])

            def pats_of(body):
                pats = _uf_apps_on(body, r)
                own = [p for p in pats if p.decl().name().startswith("fld!%s!" % cls.name)]
                own_ids = set(p.get_id() for p in own)
                inherited = [p for p in pats if p.decl().name().startswith("fld!") and p.get_id() not in own_ids]
                return (own + inherited) or pats

            whole = z3.And(*([lift_bool(c) for _, c in items] + ctx.pc))
            all_pats = pats_of(whole)
            # one axiom per clause, triggered by the terms that the clause itself speaks about (a clause about the
            # alignment is not instantiated because of a term about the bit length set, and vice versa)
            for lab, c in items:
                cb = lift_bool(c)
                ps = pats_of(cb) or all_pats
                out.append(("class-invariant:%s#%s" % (cls.name, lab),
                            "established by %s.__init__ (obligation inv#%s.%s)" % (cls.name, cls.name, lab),
                            z3.ForAll([r], z3.Implies(guard, cb), patterns=ps[:8])))
            if ctx.pc:
                out.append(("class-invariant:%s#side-conditions" % cls.name, "kind side conditions of the fields read by the "
                            "invariant (enum ordinals in range, lengths non-negative)",
                            z3.ForAll([r], z3.Implies(guard, z3.And(*ctx.pc)), patterns=all_pats[:8])))
            for k_, a_ in enumerate(ctx.axioms):
                out.append(("class-invariant:%s/aux%d" % (cls.name, k_), "definition of a canonical filtered / mapped "
                            "sequence used by the invariant", a_))
        # closed world for object-valued fields of abstract objects: the dynamic class of the field value is one of the
        # repository's subclasses of the declared class
        for q, cs in self.reg.classes.items():
            if q not in self.repo.classes:
                continue
            cls = self.repo.classes[q]
            for fname, kind in cs.fields.items():
                if isinstance(kind, V.ObjOf):
                    try:
                        fcls = self.repo.cls(kind.clsname)
                    except KeyError:
                        continue
                    f = self.uf("fld!%s!%s" % (cls.name, fname), V.RefSort, V.RefSort)
                    guard = z3.Or(*[self.tag_fn(r) == self.class_id(c) for c in cls.all_subclasses()])
                    rng = z3.Or(*[self.tag_fn(f(r)) == self.class_id(c) for c in fcls.instantiable_subclasses()])
                    out.append(("closed-world:%s.%s" % (cls.name, fname),
                                "closed world: the dynamic class of an object-valued field is a repository subclass of its "
                                "declared class", z3.ForAll([r], z3.Implies(guard, rng), patterns=[f(r)])))
        return out

    def kind_from_annotation(self, finfo: FuncInfo, ann):
        if ann is None:
            return None
        try:
            s = ast.unparse(ann)
        except Exception:  # pragma: no cover
            return None
        s = s.strip("'\"")
        simple = {"int": V.Int, "bool": V.Bool, "str": V.Str}
        if s in simple:
            return simple[s]
        try:
            c = self.class_by_name(s.split(".")[-1])
            if self.is_enum_class(c):
                return V.EnumOf(c.qualname)
            return V.ObjOf(c.qualname)
        except KeyError:
            return None

    def _run_path(self, ctx: Ctx, finfo: FuncInfo, contract: Contract, cls, inst, res=None):
        args: Dict[str, Any] = {}
        a = finfo.node.args
        all_args = a.posonlyargs + a.args + a.kwonlyargs
        self_obj = None
        is_init = finfo.name == "__init__"
        for i, p in enumerate(all_args):
            if i == 0 and finfo.cls is not None and not finfo.is_static:
                if finfo.is_classmethod:
                    args[p.arg] = V.ClassVal(cls)
                    continue
                self_obj = self.materialise_self(ctx, cls, is_init)
                for k, v in ((getattr(contract.impl, "body_slice", None) or {}).get("self_fields") or {}).items():
                    # a statement slice: fields of self assigned by the dropped statements before it
                    fv = ctx.fresh_kind("self." + k, v)
                    self.assume_wellformed(ctx, fv)
                    self_obj.fields[k] = fv
                if inst is not None:
                    for k, v in inst.items():
                        if k.startswith("self."):
                            if isinstance(v, V.Kind):
                                v = ctx.fresh_kind(k, v)
                                self.assume_wellformed(ctx, v)
                            self_obj.fields[k[5:]] = v
                if self_obj.fields is not None and not is_init:
                    V.bind_owner(self_obj)
                args[p.arg] = self_obj
                continue
            args[p.arg] = self.make_param(ctx, finfo, contract, p.arg, p.annotation, inst)
        if a.vararg or a.kwarg:
            raise EngineLimit("*args/**kwargs in a function under contract")
        ns = NS(**{("self" if (self_obj is not None and k == all_args[0].arg) else k): v for k, v in args.items()})
        ns.__dict__["ctx"] = ctx
        if self_obj is not None and not is_init:
            from . import mutstate

            ns.__dict__["old"] = mutstate.snapshot(self_obj)  # pre-state of a mutable receiver
        for pname, pval in list(args.items()):
            if isinstance(pval, Obj) and pval.fields is not None and pval is not self_obj:
                from . import mutstate

                ns.__dict__["old_" + pname] = mutstate.snapshot(pval)  # pre-state of a materialised (mutable) argument
        for pname in getattr(contract.impl, "mutates", None) or []:
            # collections received as parameters that the contract allows the function to mutate in place
            from . import ext_reader

            pval = args[pname]
            pval.fresh = True
            ns.__dict__["old_" + pname] = ext_reader.snapshot_collection(pval)
        ns.__dict__["old"] = make_old_view(ns, ns.__dict__.get("old"))
        if self_obj is not None and not is_init:
            for label, inv in self.class_invariants(ctx, self_obj):
                ctx.assume(lift_bool(inv))
        for label, c in self.run_spec(ctx, lambda: contract.clauses("pre", ns)):
            ctx.assume(lift_bool(c))
        if getattr(contract, "definitions", None) is not None:
            for label, c in self.run_spec(ctx, lambda: contract.clauses("definitions", ns)):
                ctx.assume(lift_bool(c))  # defining equation of a ghost predicate (see Contract.definitions)
        ctx.entry_len = len(ctx.pc)
        if res is not None and not ctx.prefix and (inst is not None or (cls is not None and cls is not finfo.cls)):
            # first path of a finite-instantiation instance / receiver class: is the pair in the domain at all?
            s_ = z3.Solver()
            s_.set("timeout", 500)
            for p_ in ctx.pc:
                if not has_quantifier(p_):
                    s_.add(p_)
            if s_.check() == z3.unsat:
                raise InstanceOutsideDomain()
        if res is not None and res.entry_pc is None:
            res.entry_pc = list(ctx.pc)
            res.entry_axioms = list(ctx.axioms)
        ctx.top_contract, ctx.top_ns = contract, ns
        ctx.entry_measure = None
        if contract.decreases is not None:
            ctx.entry_measure = as_measure(self.run_spec(ctx, contract.decreases, ns))
        ctx.entry_old = ns.__dict__.get("old")
        env = Env(finfo.module, None, finfo)
        env.vars.update(args)
        if getattr(finfo, "self_recursive_name", None):
            # a nested function under contract: its own name is bound (recursive calls go through its contract)
            env.vars[finfo.self_recursive_name] = V.Closure(finfo, None)
            for k_, v_ in (getattr(contract.impl, "outer_env", None) or {}).items():
                env.vars[k_] = v_(ctx) if callable(v_) else v_
        outcome = None
        try:
            if finfo.is_generator:
                ctx.yielded = []
            if getattr(self, "semantic_decorators", None) is not None and self.semantic_decorators(finfo):
                # the function under contract is the *decorated* function (pyvc.ext_expr)
                raise ReturnSig(self.call_decorated(ctx, finfo, [args[p.arg] for p in all_args], {}))
            self.exec_block(ctx, finfo.node.body, env)
            result = None
            if finfo.is_generator:
                result = ctx.ysym if getattr(ctx, "ysym", None) is not None else V.GeneratorV(ctx.yielded)
        except ReturnSig as r:
            result = r.value
            if finfo.is_generator:
                result = ctx.ysym if getattr(ctx, "ysym", None) is not None else V.GeneratorV(ctx.yielded)
        except PyRaise as pr:
            if res is not None:
                res.raising_paths += 1
            n0 = len(ctx.obligations)
            self._check_raise(ctx, contract, ns, pr.exc)
            if not any(o.kind == "noraise" for o in ctx.obligations[n0:]):
                # an exception the contract expects: the path that raises it must be reachable (an unexpected one must not)
                ctx.guards.append(("raise:%s" % pr.exc.clsname, list(ctx.pc), list(ctx.axioms), list(ctx.taken)))
            return
        if isinstance(result, OptV) and not isinstance(result.is_none, bool):
            if not self.feasible(ctx, result.is_none):
                result = result.val  # the path condition excludes None
        ns.__dict__["result"] = result
        if res is not None:
            res.normal_paths += 1
        # normal return
        post_items = self.run_spec(ctx, lambda: contract.clauses("post", ns))
        # clauses labelled `cut-...` are proved first and may then be used by the other clauses (sequential cut)
        post_items = [x for x in post_items if str(x[0]).startswith("cut-")] + \
                     [x for x in post_items if not str(x[0]).startswith("cut-")]
        for label, c in post_items:
            ctx.oblige("%s/post#%s" % (short(ctx.func), label), lift_bool(c), kind="post")
            if str(label).startswith("cut-"):
                ctx.assume(lift_bool(c))
        for xname, cond in contract.raises.items():
            if cond is None:
                continue
            c = self.run_spec(ctx, cond, ns)
            ctx.oblige("%s/noraise-implies#not-%s" % (short(ctx.func), xname), z3.Not(lift_bool(c)), kind="raises")
        if self_obj is not None and (is_init or self._is_mutable(cls)):
            # a constructor verified for a subclass receiver establishes the invariants of its own class (and bases) only
            for label, inv in self.class_invariants(ctx, self_obj, finfo.cls if (is_init and finfo.cls is not None) else cls,
                                                    exempt=contract.inv_exempt):
                if label in contract.inv_exempt:
                    continue
                ctx.oblige("%s/inv#%s" % (short(ctx.func), label), lift_bool(inv), kind="inv")
        ctx.guards.append(("return", list(ctx.pc), list(ctx.axioms), list(ctx.taken)))

    def _owns_state(self, cls) -> bool:
        for c in cls.mro():
            cs = self.reg.classes.get(c.qualname)
            if cs and getattr(cs, "owns_state", False):
                return True
        return False

    def _invariant_at_calls(self, cls) -> bool:
        """Class specs with `invariant_at_calls = True`: the class invariant of a materialised receiver is obligated
           before a call of one of its methods and assumed again afterwards (bit reader / writer)."""
        for c in cls.mro():
            cs = self.reg.classes.get(c.qualname)
            if cs and getattr(cs, "invariant_at_calls", False):
                return True
        return False

    def _is_mutable(self, cls) -> bool:
        for c in cls.mro():
            cs = self.reg.classes.get(c.qualname)
            if cs and cs.mutable:
                return True
        return False

    def _new_exc(self, ctx: Ctx, contract: Contract, ns: NS, xname: str) -> ExcVal:
        """The exception a callee raises according to its contract; `exc_fields(s, class name) -> {field: value}` of the
        contract states the location fields it carries (checked by `_check_exc_fields` when the callee is verified)."""
        exc = ExcVal(self.exc_class(xname))
        ef = getattr(contract.impl, "exc_fields", None) or getattr(contract, "exc_fields", None)
        if ef is not None:
            for fname, val in (self.run_spec(ctx, ef, ns, xname) or {}).items():
                exc.fields[fname] = val
        return exc

    def _check_exc_fields(self, ctx: Ctx, contract: Contract, ns: NS, exc: ExcVal):
        ef = getattr(contract.impl, "exc_fields", None) or getattr(contract, "exc_fields", None)
        if ef is None or not isinstance(exc.cls, ClassInfo):
            return
        from . import mutstate

        for fname, val in (self.run_spec(ctx, ef, ns, exc.clsname) or {}).items():
            actual = self.lib.exc_attr(ctx, exc, fname)
            c = mutstate.identical(self, ctx, actual, val)
            ctx.oblige("%s/raises-carries#%s#%s" % (short(ctx.func), exc.clsname, fname), lift_bool(c), kind="raises",
                       info={"origin": exc.fields.get("__origin__")})

    def _check_raise(self, ctx: Ctx, contract: Contract, ns: NS, exc: ExcVal):
        # `raises_here`: exceptional postconditions for exceptions raised by a `raise` statement of this very function
        # (not propagated from a callee): raise X here => cond_X
        here = getattr(contract.impl, "raises_here", None) or {}
        origin = exc.fields.get("__origin__") or ""
        if here and isinstance(origin, str) and origin.startswith(contract.qualname + " line"):
            for xname, cond in here.items():
                if self.exc_matches(exc, xname):
                    ns.__dict__["exc"] = exc
                    c = self.run_spec(ctx, cond, ns)
                    ctx.oblige("%s/raises-here#%s" % (short(ctx.func), xname), lift_bool(c), kind="raises")
                    break
        matched = None
        self._check_exc_fields(ctx, contract, ns, exc)
        for xname, cond in getattr(contract, "raises_implies", {}).items():
            if self.exc_matches(exc, xname):
                ns.__dict__["exc"] = exc
                c = self.run_spec(ctx, cond, ns)
                ctx.oblige("%s/raises#%s" % (short(ctx.func), xname), lift_bool(c), kind="raises",
                           info={"origin": exc.fields.get("__origin__")})
                return
        for xname in contract.raises:
            if self.exc_matches(exc, xname):
                matched = xname
                break
        if matched is None:
            for xname, cond in list(contract.raises_if.items()) + list(contract.raises_only_if.items()):
                if self.exc_matches(exc, xname):
                    ns.__dict__["exc"] = exc
                    c = self.run_spec(ctx, cond, ns)
                    ctx.oblige("%s/raises#%s" % (short(ctx.func), xname), lift_bool(c), kind="raises",
                               info={"origin": exc.fields.get("__origin__")})
                    return
            for xname in contract.may_raise:
                if self.exc_matches(exc, xname):
                    self._check_raise_post(ctx, contract, ns, exc)
                    return
            ctx.oblige("%s/noraise#%s" % (short(ctx.func), exc.clsname), z3.BoolVal(False), kind="noraise",
                       info={"exception": exc.clsname, "origin": exc.fields.get("__origin__")})
            return
        cond = contract.raises[matched]
        self._check_raise_post(ctx, contract, ns, exc)
        if cond is None:
            return
        ns.__dict__["exc"] = exc
        c = self.run_spec(ctx, cond, ns)
        ctx.oblige("%s/raises#%s" % (short(ctx.func), matched), lift_bool(c), kind="raises",
                   info={"origin": exc.fields.get("__origin__")})

    def _check_raise_post(self, ctx: Ctx, contract: Contract, ns: NS, exc: ExcVal):
        """Exceptional postconditions (`raises_post`: exception class name -> fn(s) -> dict label -> clause): what holds
           of the final state whenever an exception of that class escapes (one-sided, e.g. frame conditions)."""
        rp = getattr(contract.impl, "raises_post", None)
        if not rp:
            return
        ns.__dict__["exc"] = exc
        for xname, fn in rp.items():
            if self.exc_matches(exc, xname):
                r = self.run_spec(ctx, fn, ns)
                for label, c in (r.items() if isinstance(r, dict) else enumerate(r or [])):
                    ctx.oblige("%s/raises-post#%s#%s" % (short(ctx.func), xname, label), lift_bool(c), kind="raises")

    def exc_matches(self, exc: ExcVal, name: str) -> bool:
        if isinstance(exc.cls, ClassInfo):
            for c in exc.cls.mro():
                if c.name == name or c.qualname == name:
                    return True
            for e in exc.cls.external_ancestors():
                if ext_is_subclass(e.split(".")[-1], name):
                    return True
            return False
        return ext_is_subclass(exc.cls.name, name)

    # ------------------------------------------------------------------ statements
    def exec_block(self, ctx: Ctx, stmts, env: Env):
        for st in stmts:
            self.exec_stmt(ctx, st, env)

    def exec_stmt(self, ctx: Ctx, st, env: Env):
        m = getattr(self, "st_" + type(st).__name__, None)
        if m is None:
            raise EngineLimit("statement %s" % type(st).__name__)
        return m(ctx, st, env)

    def st_Expr(self, ctx, st, env):
        if isinstance(st.value, ast.Constant):
            return  # docstring
        if self._is_logging_call(st.value):
            return
        self.eval(ctx, st.value, env)

    def _is_logging_call(self, e) -> bool:
        if isinstance(e, ast.Call) and isinstance(e.func, ast.Attribute) and isinstance(e.func.value, ast.Name):
            if e.func.value.id in ("_logger", "logging", "warnings"):
                return True
        return False

    def st_Pass(self, ctx, st, env):
        return

    def st_Return(self, ctx, st, env):
        raise ReturnSig(self.eval(ctx, st.value, env) if st.value is not None else None)

    def st_Break(self, ctx, st, env):
        raise BreakSig()

    def st_Continue(self, ctx, st, env):
        raise ContinueSig()

    def st_Import(self, ctx, st, env):
        for a in st.names:
            env.vars[a.asname or a.name.split(".")[0]] = V.ExtModule(a.name)

    def st_ImportFrom(self, ctx, st, env):
        modname = self.repo._abs_module(env.module, st.module, st.level)
        for a in st.names:
            r = None
            full = modname + "." + a.name
            if full in self.repo.modules:
                r = V.ModuleVal(self.repo.modules[full])
            elif modname in self.repo.modules:
                x = self.repo.resolve_name(self.repo.modules[modname], a.name)
                r = self.static_to_value(x)
            if r is None:
                r = self.lib.ext_name(modname + "." + a.name)
            env.vars[a.asname or a.name] = r

    def static_to_value(self, x):
        if isinstance(x, ClassInfo):
            return V.ClassVal(x)
        if isinstance(x, FuncInfo):
            return V.Closure(x, None)
        if isinstance(x, ModuleInfo):
            return V.ModuleVal(x)
        if isinstance(x, tuple) and x[0] == "ext":
            return self.lib.ext_name(x[1])
        return None

    def st_Assign(self, ctx, st, env):
        v = self.eval(ctx, st.value, env)
        for t in st.targets:
            self.assign(ctx, t, v, env)

    def st_AnnAssign(self, ctx, st, env):
        if st.value is None:
            return
        v = self.eval(ctx, st.value, env)
        self.assign(ctx, st.target, v, env)

    def st_AugAssign(self, ctx, st, env):
        cur = self.eval(ctx, _load(st.target), env)
        rhs = self.eval(ctx, st.value, env)
        if isinstance(st.op, ast.BitOr) and isinstance(cur, SymSet):
            if not cur.fresh:
                ctx.oblige("%s/frame#aliased-mutation" % short(ctx.func), False, kind="frame")
            other = self.to_symset(ctx, self.iter_to_set(ctx, rhs))
            if ctx.collector is not None and ctx.collector.owns(cur):
                ctx.collector.add_all(ctx, cur, other)
                return
            x = z3.FreshConst(cur.elem_sort, "x")
            new = z3.Lambda([x], z3.Or(z3.Select(cur.term, x), z3.Select(other.term, x)))
            cur.term = new
            return
        if isinstance(st.op, ast.Add) and isinstance(cur, PyList) and isinstance(rhs, SymSeq):
            # list += symbolic list: the (function-allocated) list becomes a symbolic sequence
            if not cur.fresh:
                ctx.oblige("%s/frame#aliased-mutation" % short(ctx.func), False, kind="frame")
            self.assign(ctx, st.target, self.lib.seq_concat(ctx, cur, rhs), env)
            return
        if isinstance(st.op, ast.Add) and isinstance(cur, PyList):
            if not cur.fresh:
                ctx.oblige("%s/frame#aliased-mutation" % short(ctx.func), False, kind="frame")
            cur.items.extend(self.iter_concrete(ctx, rhs))
            return
        v = self.binop(ctx, st.op, cur, rhs)
        self.assign(ctx, st.target, v, env)

    def st_Delete(self, ctx, st, env):
        for t in st.targets:
            if isinstance(t, ast.Name):
                env.vars.pop(t.id, None)
            else:
                raise EngineLimit("del of non-name")

    def st_Global(self, ctx, st, env):
        raise EngineLimit("global statement")

    def st_Nonlocal(self, ctx, st, env):
        raise EngineLimit("nonlocal statement")

    def st_FunctionDef(self, ctx, st, env):
        fi = FuncInfo((env.finfo.qualname if env.finfo else env.module.name) + "." + st.name, st, env.module, None)
        env.vars[st.name] = V.Closure(fi, env)

    def st_ClassDef(self, ctx, st, env):
        raise EngineLimit("nested class definition")

    def st_Assert(self, ctx, st, env):
        ctx.assert_counter += 1
        n = ctx.assert_counter
        if isinstance(st.test, ast.Call) and isinstance(st.test.func, ast.Name) and st.test.func.id == "callable":
            return
        if ctx.spec_mode:
            return  # an assert met while a specification reads a property: neither obligation nor assumption
        ctx.opaque_ok += 1
        try:
            tv = self.eval(ctx, st.test, env)
        finally:
            ctx.opaque_ok -= 1
        if isinstance(tv, V.Opaque):
            ctx.notes.append("unchecked assertion (depends on an unmodelled value): %s" % safe_unparse(st.test))
            self.unchecked_asserts.add("%s: %s" % (env.finfo.qualname if env.finfo else "?", safe_unparse(st.test)))
            return
        c = self.truth(ctx, tv)
        label = "L%d" % n
        ctx.oblige("%s/assert#%s" % (short(ctx.func), self._assert_label(st, env, n, ctx)), lift_bool(c), kind="assert",
                   info={"source": safe_unparse(st.test)})
        ctx.assume(lift_bool(c))

    def _assert_label(self, st, env, n, ctx=None):
        # ordinal of the assert statement inside its function (stable under edits elsewhere)
        fn = env.finfo.node if env.finfo is not None else None
        if fn is not None:
            k = 0
            for node in ast.walk(fn):
                if isinstance(node, ast.Assert):
                    k += 1
                    if node is st:
                        owner = env.finfo.qualname
                        if owner == ctx.func.split("[")[0].split("<")[0]:
                            return str(k)
                        return "%s:%d" % (short(owner), k)
        return "p%d" % n

    def st_Raise(self, ctx, st, env):
        if st.exc is None:
            if ctx.handling:
                raise PyRaise(ctx.handling[-1])
            raise EngineLimit("bare raise outside handler")
        ctx.opaque_ok += 1
        try:
            v = self.eval(ctx, st.exc, env)
        finally:
            ctx.opaque_ok -= 1
        if isinstance(v, V.ClassVal):
            v = ExcVal(v.cls)
        elif isinstance(v, V.ExtClass):
            v = ExcVal(v)
        if not isinstance(v, ExcVal):
            raise EngineLimit("raise of non-exception %r" % (v,))
        v.fields.setdefault("__origin__", "%s line %d" % (env.finfo.qualname if env.finfo else "?", st.lineno))
        raise PyRaise(v)

    def st_If(self, ctx, st, env):
        c = self.truth(ctx, self.eval(ctx, st.test, env))
        if ctx.decide(c):
            self.exec_block(ctx, st.body, env)
        else:
            self.exec_block(ctx, st.orelse, env)

    def st_Try(self, ctx, st, env):
        try:
            try:
                self.exec_block(ctx, st.body, env)
            except PyRaise as pr:
                handled = False
                for h in st.handlers:
                    if self.handler_matches(ctx, h, pr.exc, env):
                        handled = True
                        if h.name:
                            env.vars[h.name] = pr.exc
                        ctx.handling.append(pr.exc)
                        try:
                            self.exec_block(ctx, h.body, env)
                        finally:
                            ctx.handling.pop()
                        break
                if not handled:
                    raise
            else:
                self.exec_block(ctx, st.orelse, env)
        finally:
            if st.finalbody:
                self.exec_block(ctx, st.finalbody, env)

    def handler_matches(self, ctx, h, exc: ExcVal, env) -> bool:
        if h.type is None:
            return True
        t = self.eval(ctx, h.type, env)
        ts = list(t) if isinstance(t, tuple) else [t]
        for c in ts:
            if isinstance(c, V.ClassVal):
                if isinstance(exc.cls, ClassInfo) and exc.cls.is_subclass_of(c.cls):
                    return True
            elif isinstance(c, V.ExtClass):
                if self.exc_matches(exc, c.name.split(".")[-1]):
                    return True
            else:
                raise EngineLimit("except clause with %r" % (c,))
        return False

    def st_With(self, ctx, st, env):
        raise EngineLimit("with statement")

    def st_While(self, ctx, st, env):
        raise EngineLimit("while loop (needs invariant + decreases)")

    def st_For(self, ctx, st, env):
        from .loops import exec_for

        return exec_for(self, ctx, st, env)

    # ------------------------------------------------------------------ assignment
    def assign(self, ctx, target, v, env: Env):
        if isinstance(target, ast.Name):
            env.vars[target.id] = v
        elif isinstance(target, (ast.Tuple, ast.List)):
            if isinstance(v, SymSeq) and not any(isinstance(t, ast.Starred) for t in target.elts):
                # unpacking a symbolic-length sequence: ValueError unless the length is exactly the number of targets
                if not ctx.decide(v.length == len(target.elts)):
                    raise PyRaise(ExcVal(V.ExtClass("ValueError")))
                items = [v.at(ctx, z3.IntVal(k)) for k in range(len(target.elts))]
            else:
                items = self.iter_concrete(ctx, v)
            if len(items) != len(target.elts):
                raise PyRaise(ExcVal(V.ExtClass("ValueError")))
            for t, x in zip(target.elts, items):
                self.assign(ctx, t, x, env)
        elif isinstance(target, ast.Attribute):
            o = self.eval(ctx, target.value, env)
            if not isinstance(o, Obj) or o.fields is None:
                if isinstance(o, ExcVal):
                    o.fields[target.attr] = v
                    return
                raise EngineLimit("attribute store on %r" % (o,))
            o.fields[target.attr] = v
            ctx.stores.append((o, target.attr))
        elif isinstance(target, ast.Subscript):
            o = self.eval(ctx, target.value, env)
            k = self.eval(ctx, target.slice, env)
            self.lib.setitem(ctx, o, k, v)
        else:
            raise EngineLimit("assignment target %s" % type(target).__name__)

    # ------------------------------------------------------------------ expressions
    def eval(self, ctx: Ctx, e, env: Env):
        m = getattr(self, "ex_" + type(e).__name__, None)
        if m is None:
            raise EngineLimit("expression %s" % type(e).__name__)
        try:
            return m(ctx, e, env)
        except EngineLimit:
            if ctx.opaque_ok and not isinstance(e, (ast.Call,)):
                return V.Opaque(safe_unparse(e))
            raise

    def ex_Constant(self, ctx, e, env):
        if isinstance(e.value, bytes):
            from . import bytesmodel

            return bytesmodel.from_concrete(ctx, e.value)
        if isinstance(e.value, complex) or e.value is Ellipsis:
            return V.Opaque("const")
        if isinstance(e.value, float):
            return V.FloatV(e.value)
        return e.value

    def ex_Name(self, ctx, e, env):
        found, v = env.lookup(e.id)
        if found:
            return v
        return self.global_name(ctx, env.module, e.id)

    def global_name(self, ctx, module: ModuleInfo, name: str):
        r = self.repo.resolve_name(module, name)
        if r is not None:
            v = self.static_to_value(r)
            if v is not None:
                return v
        imp = module.imports.get(name)
        if imp is not None and imp[0] == "from" and imp[1] in self.repo.modules and name not in module.assigns:
            src = self.repo.modules[imp[1]]
            if imp[2] in src.assigns or (imp[2] in src.imports and src is not module):
                # a module-level value (not a class / function) imported from a repository module (possibly re-exported)
                return self.global_name(ctx, src, imp[2])
        if name in module.assigns:
            key = (module.name, name)
            if key in ctx.global_cache:
                return ctx.global_cache[key]
            genv = Env(module, None, None)
            ctx.opaque_ok += 1
            try:
                v = self.eval(ctx, module.assigns[name], genv)
            finally:
                ctx.opaque_ok -= 1
            ctx.global_cache[key] = v
            return v
        return self.lib.builtin_name(name)

    def ex_Attribute(self, ctx, e, env):
        o = self.eval(ctx, e.value, env)
        return self.getattr(ctx, o, e.attr)

    def getattr(self, ctx: Ctx, o, name: str, from_spec=False):
        if isinstance(o, Obj):
            if o.fields is not None and name in o.fields:
                return o.fields[name]
            m = o.cls.lookup(name)
            if m is not None:
                if m.is_property:
                    return self.call_function(ctx, m, [o], {}, dynamic=True)
                if m.is_static:
                    return V.Closure(m, None)
                if m.is_classmethod:
                    return V.BoundMethod(V.ClassVal(o.cls), m)
                return V.BoundMethod(o, m)
            ca = o.cls.lookup_attr(name)
            if ca is not None:
                return self.class_attr(ctx, ca[0], name)
            if name in o.ghost:
                return o.ghost[name]
            if not o.exact and self.field_kind(o.cls, name)[0] is None:
                # attribute defined only in subclasses of the static class: narrow on the dynamic class
                roots = self.subclass_roots_defining(o.cls, name)
                for rcls in roots:
                    narrowed = Obj(rcls, False, o.ref, None, ctx)
                    if from_spec:
                        if len(roots) == 1:
                            return self.getattr(ctx, narrowed, name, from_spec=True)
                        raise EngineLimit("spec reads %s defined in several subclasses" % name)
                    cond = z3.Or(*[self.tag_fn(o.ref) == self.class_id(c) for c in rcls.all_subclasses()])
                    if ctx.decide(cond):
                        return self.getattr(ctx, narrowed, name)
                if roots and not from_spec:
                    raise PyRaise(ExcVal(V.ExtClass("AttributeError")))
            if o.fields is None or from_spec:
                if o.fields is not None:
                    raise EngineLimit("spec reads unset field %s.%s" % (o.cls.name, name))
                return self.abstract_field(ctx, o, name)
            if o.ghost.get("$constructed-by-contract"):
                # an object whose constructor was applied through its contract: a field the class specification does not
                # declare is unknown here, not absent
                raise EngineLimit("field %s.%s is not declared in the class specification" % (o.cls.name, name))
            raise PyRaise(ExcVal(V.ExtClass("AttributeError")))
        if isinstance(o, V.ClassVal):
            if name in o.cls.nested:
                return V.ClassVal(o.cls.nested[name])
            for c in o.cls.mro():
                if name in c.nested:
                    return V.ClassVal(c.nested[name])
            m = o.cls.lookup(name)
            if m is not None:
                if m.is_static:
                    return V.Closure(m, None)
                if m.is_classmethod:
                    return V.BoundMethod(o, m)
                return V.Closure(m, None)
            ca = o.cls.lookup_attr(name)
            if ca is not None:
                return self.class_attr(ctx, ca[0], name)
            if name == "__name__":
                return o.cls.name
            raise EngineLimit("class attribute %s.%s" % (o.cls.name, name))
        if isinstance(o, V.ModuleVal):
            return self.global_name(ctx, o.mod, name)
        if isinstance(o, RecV):
            if name in o.comps:
                return o.comps[name]
            raise EngineLimit("record %s has no %s" % (o.name, name))
        if isinstance(o, ExcVal):
            return self.lib.exc_attr(ctx, o, name)
        return self.lib.getattr(ctx, o, name)

    def class_attr(self, ctx, cls: ClassInfo, name: str):
        key = (cls.qualname, name)
        if key in ctx.global_cache:
            return ctx.global_cache[key]
        if self.is_enum_class(cls):
            node = cls.class_attrs[name]
            v = V.EnumV(cls, name, z3.IntVal(self.enum_members(cls).index(name)))
            ctx.global_cache[key] = v
            return v
        env = Env(cls.module, None, None)
        env.vars.update({})
        # class-level names visible to the expression
        cenv = Env(cls.module, None, None)
        for n2 in cls.class_attrs:
            if n2 != name and (cls.qualname, n2) in ctx.global_cache:
                cenv.vars[n2] = ctx.global_cache[(cls.qualname, n2)]
        v = self.eval(ctx, cls.class_attrs[name], cenv)
        ctx.global_cache[key] = v
        return v

    def is_enum_class(self, cls: ClassInfo) -> bool:
        return any("Enum" in e for e in cls.external_ancestors())

    def enum_members(self, cls: ClassInfo) -> List[str]:
        return [n for n in cls.class_attrs if not n.startswith("_")]

    def ex_BoolOp(self, ctx, e, env):
        is_and = isinstance(e.op, ast.And)
        if all(_pure_simple(v) for v in e.values) or (ctx.bound and all(_pure_isinstance(v) for v in e.values)):
            vals = [self.truth(ctx, self.eval(ctx, v, env)) for v in e.values]
            if all(isinstance(v, (bool, z3.BoolRef)) for v in vals):
                return speclib_and(*vals) if is_and else speclib_or(*vals)
        if getattr(ctx, "pure_bool", 0):
            # predicate of a filter over a symbolic sequence: every operand is evaluated (no short-circuit fork); this is
            # accepted only if no operand takes a decision or raises (then the strict and the lazy reading coincide)
            n0 = len(ctx.taken)
            try:
                vals = [self.truth(ctx, self.eval(ctx, v, env)) for v in e.values]
            except PyRaise:
                raise EngineLimit("an operand of and/or inside a symbolic filter predicate may raise")
            if len(ctx.taken) != n0 or not all(isinstance(v, (bool, z3.BoolRef)) for v in vals):
                raise EngineLimit("an operand of and/or inside a symbolic filter predicate branches")
            return speclib_and(*vals) if is_and else speclib_or(*vals)
        last = None
        for i, sub in enumerate(e.values):
            last = self.eval(ctx, sub, env)
            if i == len(e.values) - 1:
                return last
            t = ctx.decide(self.truth(ctx, last))
            if is_and and not t:
                return last
            if (not is_and) and t:
                return last
        return last

    def ex_UnaryOp(self, ctx, e, env):
        v = self.eval(ctx, e.operand, env)
        if isinstance(e.op, ast.Not):
            return self.b_not(self.truth(ctx, v))
        if isinstance(e.op, ast.USub):
            if isinstance(v, V.FloatV):
                return V.FloatV(-v.value)
            if isinstance(v, V.FractionV):
                return V.FractionV(-v.term)
            return -v if not isinstance(v, bool) else -int(v)
        if isinstance(e.op, ast.UAdd):
            if isinstance(v, V.FractionV):
                return v
            return +v
        if isinstance(e.op, ast.Invert):
            if isinstance(v, int):
                return ~v
            r = -v - 1
            if getattr(ctx, "bitinfo", None):
                from . import bytesmodel

                bytesmodel.note_invert(ctx, v, r)
            return r
        raise EngineLimit("unary op")

    def ex_BinOp(self, ctx, e, env):
        a = self.eval(ctx, e.left, env)
        b = self.eval(ctx, e.right, env)
        return self.binop(ctx, e.op, a, b, node=e)

    def binop(self, ctx, op, a, b, node=None):
        return self.lib.binop(ctx, op, a, b)

    def ex_Compare(self, ctx, e, env):
        left = self.eval(ctx, e.left, env)
        results = []
        for op, rnode in zip(e.ops, e.comparators):
            right = self.eval(ctx, rnode, env)
            results.append(self.compare(ctx, op, left, right))
            left = right
        if len(results) == 1:
            return results[0]
        return speclib_and(*results)

    def compare(self, ctx, op, a, b):
        if isinstance(op, ast.Eq):
            return self.py_eq(ctx, a, b)
        if isinstance(op, ast.NotEq):
            return self.b_not(lift_truth(self, ctx, self.py_eq(ctx, a, b)))
        if isinstance(op, (ast.Is, ast.IsNot)):
            r = self.py_is(ctx, a, b)
            return r if isinstance(op, ast.Is) else self.b_not(r)
        if isinstance(op, (ast.In, ast.NotIn)):
            r = self.lib.contains(ctx, b, a)
            return r if isinstance(op, ast.In) else self.b_not(r)
        return self.lib.order(ctx, op, a, b)

    def py_is(self, ctx, a, b):
        if isinstance(a, V.SymClosure) or isinstance(b, V.SymClosure):
            c, other = (a, b) if isinstance(a, V.SymClosure) else (b, a)
            if other is None:
                return c.tag == 0
            raise EngineLimit("`is` between a symbolic closure and %r" % (other,))
        if isinstance(a, OptV) or isinstance(b, OptV):
            o, other = (a, b) if isinstance(a, OptV) else (b, a)
            if other is None:
                return o.is_none
            if isinstance(other, OptV):
                raise EngineLimit("is between two optionals")
            return speclib_and(self.b_not(o.is_none), self.py_is(ctx, o.val, other))
        if a is None or b is None:
            return a is None and b is None
        if isinstance(a, Obj) and isinstance(b, Obj):
            return a.ref == b.ref
        if isinstance(a, bool) and isinstance(b, bool):
            return a == b
        if isinstance(a, V.ClassVal) and isinstance(b, V.ClassVal):
            return a.cls is b.cls
        if isinstance(a, V.Sentinel) or isinstance(b, V.Sentinel):
            return a is b
        if isinstance(a, (V.ClassTagV, V.ClassVal)) and isinstance(b, (V.ClassTagV, V.ClassVal)):
            return self.class_tag_eq(ctx, a, b)
        if isinstance(a, V.EnumV) and isinstance(b, V.EnumV):
            return self.py_eq(ctx, a, b)
        if z3.is_expr(a) and z3.is_bool(a) and isinstance(b, bool):
            return a if b else z3.Not(a)
        raise EngineLimit("`is` on %r, %r" % (a, b))

    def ex_IfExp(self, ctx, e, env):
        c = self.truth(ctx, self.eval(ctx, e.test, env))
        if isinstance(c, bool):
            return self.eval(ctx, e.body if c else e.orelse, env)
        r = self._optional_ifexp(ctx, e, env, c)
        if r is not None:
            return r
        if _pure_simple(e.body) and _pure_simple(e.orelse):
            x = self.eval(ctx, e.body, env)
            y = self.eval(ctx, e.orelse, env)
            tx, ty = self.coerce_pair(x, y)
            if tx is not None:
                return z3.If(c, tx, ty)
        if ctx.decide(c):
            return self.eval(ctx, e.body, env)
        return self.eval(ctx, e.orelse, env)

    def _optional_ifexp(self, ctx, e, env, c):
        """`None if x is None else int(x)` (and the mirrored form) for an Optional x: the Optional of the converted
        value, without forking the path.  Only for the builtin conversions int / bool / str of a plain name."""
        def is_none_const(n):
            return isinstance(n, ast.Constant) and n.value is None

        def conv_of_name(n):
            return (isinstance(n, ast.Call) and isinstance(n.func, ast.Name) and n.func.id in ("int", "bool", "str")
                    and len(n.args) == 1 and not n.keywords and isinstance(n.args[0], ast.Name))

        if is_none_const(e.body) and conv_of_name(e.orelse):
            other, none_cond = e.orelse, c
        elif is_none_const(e.orelse) and conv_of_name(e.body):
            other, none_cond = e.body, z3.Not(c)
        else:
            return None
        found, x = env.lookup(other.args[0].id)
        if not found or not isinstance(x, OptV) or not isinstance(self.global_name(ctx, env.module, other.func.id), V.Builtin):
            return None
        if not (isinstance(x.is_none, z3.ExprRef) and z3.simplify(none_cond == x.is_none).eq(z3.BoolVal(True))):
            return None
        v = x.val
        if other.func.id == "int" and isinstance(v, z3.ExprRef) and z3.is_int(v):
            return OptV(x.is_none, v)
        if other.func.id == "str" and isinstance(v, z3.ExprRef) and z3.is_string(v):
            return OptV(x.is_none, v)
        return None

    def ex_Tuple(self, ctx, e, env):
        out = []
        for x in e.elts:
            if isinstance(x, ast.Starred):
                out.extend(self.iter_concrete(ctx, self.eval(ctx, x.value, env)))
            else:
                out.append(self.eval(ctx, x, env))
        return tuple(out)

    def ex_List(self, ctx, e, env):
        out = []
        for x in e.elts:
            if isinstance(x, ast.Starred):
                out.extend(self.iter_concrete(ctx, self.eval(ctx, x.value, env)))
            else:
                out.append(self.eval(ctx, x, env))
        return PyList(out)

    def ex_Set(self, ctx, e, env):
        return PySet([self.eval(ctx, x, env) for x in e.elts])

    def ex_Dict(self, ctx, e, env):
        d = PyDict()
        for k, v in zip(e.keys, e.values):
            if k is None:
                raise EngineLimit("dict unpacking")
            kv = self.eval(ctx, k, env)
            vv = self.eval(ctx, v, env)
            try:
                d.items[self.hashable(kv)] = vv
            except EngineLimit:
                d.opaque = True  # a key that is not a concrete hashable: the contents are not tracked
        return d

    def hashable(self, k):
        if isinstance(k, V.EnumV):
            return ("enum", k.cls.qualname, k.name)
        if isinstance(k, (int, str, bool, tuple)) or k is None:
            return k
        raise EngineLimit("dict key %r" % (k,))

    def ex_JoinedStr(self, ctx, e, env):
        return V.Opaque("f-string")

    def ex_FormattedValue(self, ctx, e, env):
        return V.Opaque("f-string")

    def ex_Lambda(self, ctx, e, env):
        fi = FuncInfo((env.finfo.qualname if env.finfo else env.module.name) + ".<lambda>", e, env.module, None)
        return V.Closure(fi, env)

    def ex_Subscript(self, ctx, e, env):
        o = self.eval(ctx, e.value, env)
        if isinstance(e.slice, ast.Slice):
            lo = self.eval(ctx, e.slice.lower, env) if e.slice.lower is not None else None
            hi = self.eval(ctx, e.slice.upper, env) if e.slice.upper is not None else None
            if e.slice.step is not None:
                raise EngineLimit("slice step")
            return self.lib.getslice(ctx, o, lo, hi)
        k = self.eval(ctx, e.slice, env)
        return self.lib.getitem(ctx, o, k)

    def ex_Starred(self, ctx, e, env):
        raise EngineLimit("starred expression")

    def ex_ListComp(self, ctx, e, env):
        from .loops import eval_comprehension

        return eval_comprehension(self, ctx, e, env, "list")

    def ex_SetComp(self, ctx, e, env):
        from .loops import eval_comprehension

        return eval_comprehension(self, ctx, e, env, "set")

    def ex_GeneratorExp(self, ctx, e, env):
        from .loops import eval_comprehension

        return eval_comprehension(self, ctx, e, env, "gen")

    def ex_DictComp(self, ctx, e, env):
        from .loops import eval_comprehension

        return eval_comprehension(self, ctx, e, env, "dict")

    def ex_Yield(self, ctx, e, env):
        v = self.eval(ctx, e.value, env) if e.value is not None else None
        if getattr(ctx, "ysym", None) is not None:
            ctx.ysym.push(v)
        else:
            ctx.yielded.append(v)
        return None

    def ex_Call(self, ctx, e, env):
        # super().__init__(...)
        f = e.func
        if isinstance(f, ast.Attribute) and isinstance(f.value, ast.Call) and isinstance(f.value.func, ast.Name) \
                and f.value.func.id == "super" and not f.value.args:
            return self.call_super(ctx, e, env, f.attr)
        if self._is_logging_call(e):
            return None
        callee = self.eval(ctx, f, env)
        args = []
        for a in e.args:
            if isinstance(a, ast.Starred):
                sv = self.eval(ctx, a.value, env)
                if isinstance(sv, V.MappedIter):
                    from .loops import list_of_mapped

                    sv = list_of_mapped(self, ctx, sv)
                if isinstance(sv, (SymSeq,)):
                    args.append(V.StarArgs(sv))
                else:
                    args.extend(self.iter_concrete(ctx, sv))
            else:
                args.append(self.eval(ctx, a, env))
        kwargs = {}
        for k in e.keywords:
            if k.arg is None:
                raise EngineLimit("**kwargs at call site")
            kwargs[k.arg] = self.eval(ctx, k.value, env)
        return self.call(ctx, callee, args, kwargs)

    def call_super(self, ctx, e, env, method: str):
        finfo = env.finfo
        while finfo is not None and finfo.cls is None:
            finfo = finfo.outer
        if finfo is None:
            e2 = env
            while e2 is not None and (e2.finfo is None or e2.finfo.cls is None):
                e2 = e2.parent
            finfo = e2.finfo if e2 else None
        if finfo is None or finfo.cls is None:
            raise EngineLimit("super() outside a method")
        found, selfv = env.lookup(finfo.params[0])
        mro = selfv.cls.mro() if isinstance(selfv, Obj) else finfo.cls.mro()
        idx = mro.index(finfo.cls)
        target = None
        for c in mro[idx + 1:]:
            if method in c.methods:
                target = c.methods[method]
                break
        args = [self.eval(ctx, a, env) for a in e.args]
        kwargs = {k.arg: self.eval(ctx, k.value, env) for k in e.keywords}
        if target is None:
            ext = [b for c in mro[idx + 1:] for b in c.external_bases]
            return self.lib.ext_super_call(ctx, selfv, method, args, kwargs, ext)
        return self.call_function(ctx, target, [selfv] + args, kwargs)

    # ------------------------------------------------------------------ calls
    def call(self, ctx: Ctx, callee, args: List[Any], kwargs: Dict[str, Any]):
        if isinstance(callee, V.BoundMethod):
            return self.call_function(ctx, callee.finfo, [callee.obj] + args, kwargs, dynamic=True)
        if isinstance(callee, V.Closure):
            return self.call_function(ctx, callee.finfo, args, kwargs, closure=callee)
        if isinstance(callee, V.ClassVal):
            return self.instantiate(ctx, callee.cls, args, kwargs)
        if isinstance(callee, V.Builtin):
            return self.lib.call_builtin(ctx, callee, args, kwargs)
        if isinstance(callee, V.ExtClass):
            return self.lib.call_ext_class(ctx, callee, args, kwargs)
        if isinstance(callee, V.RecClass):
            vals = dict(zip(callee.fields, args))
            vals.update(kwargs)
            if set(vals) != set(callee.fields):
                raise PyRaise(ExcVal(V.ExtClass("TypeError")))
            return RecV(callee.name, {f: vals[f] for f in callee.fields})
        if isinstance(callee, V.Recorder):
            if kwargs:
                raise EngineLimit("keyword arguments to a recorded callable")
            callee.calls.items.append(tuple(args))
            return None
        if isinstance(callee, V.SymClosure):
            from . import mutstate

            return mutstate.call_symclosure(self, ctx, callee, args, kwargs)
        if isinstance(callee, V.Partial):
            kw = dict(callee.kwargs)
            kw.update(kwargs)
            return self.call(ctx, callee.fn, list(callee.args) + args, kw)
        raise EngineLimit("call of %r" % (callee,))

    def bind_args(self, ctx, finfo: FuncInfo, args, kwargs, env_for_defaults: Env):
        a = finfo.node.args
        params = a.posonlyargs + a.args
        bound: Dict[str, Any] = {}
        if len(args) > len(params) and not a.vararg:
            raise self.lib.raise_ext("TypeError", "too many positional arguments for %s" % finfo.qualname)
        for p, v in zip(params, args):
            bound[p.arg] = v
        if a.vararg:
            bound[a.vararg.arg] = tuple(args[len(params):])
        for k, v in kwargs.items():
            if k in bound:
                raise PyRaise(ExcVal(V.ExtClass("TypeError")))
            bound[k] = v
        defaults = a.defaults
        n_no_default = len(params) - len(defaults)
        for i, p in enumerate(params):
            if p.arg not in bound:
                if i >= n_no_default:
                    bound[p.arg] = self.eval(ctx, defaults[i - n_no_default], env_for_defaults)
                else:
                    raise self.lib.raise_ext("TypeError", "missing argument %s of %s" % (p.arg, finfo.qualname))
        for p, d in zip(a.kwonlyargs, a.kw_defaults):
            if p.arg not in bound:
                if d is None:
                    raise PyRaise(ExcVal(V.ExtClass("TypeError")))
                bound[p.arg] = self.eval(ctx, d, env_for_defaults)
        return bound

    def resolve_dynamic(self, ctx, finfo: FuncInfo, selfv) -> FuncInfo:
        """Dynamic dispatch on the receiver."""
        if not isinstance(selfv, Obj) or finfo.cls is None:
            return finfo
        if selfv.exact:
            m = selfv.cls.lookup(finfo.name)
            return m or finfo
        return finfo

    def overriders(self, finfo: FuncInfo, cls: ClassInfo) -> List[FuncInfo]:
        out = []
        for c in cls.all_subclasses():
            if c is cls:
                continue
            if finfo.name in c.methods and c.methods[finfo.name] is not finfo:
                out.append(c.methods[finfo.name])
        return out

    def find_contract(self, finfo: FuncInfo, selfv, dynamic: bool = False) -> Optional[Contract]:
        if dynamic and isinstance(selfv, Obj) and not selfv.exact:
            # interface contract of a dynamically dispatched method whose base class also has a body of its own
            # (registered as "<qualname>@dynamic"; the body contract under the plain name serves super() calls)
            for base in ([finfo.cls] + finfo.cls.mro()[1:] if finfo.cls is not None else []):
                c = self.reg.contracts.get("%s.%s@dynamic" % (base.qualname, finfo.name))
                if c is not None:
                    return c
        c = self.reg.contracts.get(finfo.qualname)
        if c is not None:
            return c
        # inherited interface contract: a contract on the same method name in a base class
        if finfo.cls is not None:
            for base in finfo.cls.mro()[1:]:
                q = base.qualname + "." + finfo.name
                if q in self.reg.contracts:
                    return self.reg.contracts[q]
        return None

    def call_function(self, ctx: Ctx, finfo: FuncInfo, args, kwargs, closure=None, dynamic=False):
        selfv = args[0] if (finfo.cls is not None and args and not finfo.is_static) else None
        if dynamic:
            finfo = self.resolve_dynamic(ctx, finfo, selfv)
        raw = getattr(closure, "raw", False)  # the undecorated body of a decorated def (pyvc.ext_expr)
        if raw:
            contract = None
        elif closure is None or closure.env is None:
            contract = self.find_contract(finfo, selfv, dynamic)
        else:
            contract = self.reg.contracts.get(finfo.qualname)  # a contract stated on a nested function
        inline_ok = finfo.qualname in self.reg.inline
        verifying_self = finfo.qualname == ctx.func.split("[")[0].split("<")[0]
        if contract is not None and not inline_ok:
            if dynamic and getattr(contract.impl, "dispatch", False) and isinstance(selfv, Obj) and not selfv.exact \
                    and finfo.cls is not None:
                # opt-in dynamic dispatch by case split on the receiver's class: every override has its own contract
                for m in self.overriders(finfo, selfv.cls):
                    classes = [c for c in m.cls.all_subclasses()
                               if c.lookup(finfo.name) is m and c.is_subclass_of(selfv.cls)]
                    if not classes:
                        continue
                    if m.qualname not in self.reg.contracts:
                        raise EngineLimit("dynamic dispatch to %s which has no contract of its own" % m.qualname)
                    cond = z3.Or(*[self.tag_fn(selfv.ref) == self.class_id(c) for c in classes])
                    if ctx.decide(cond):
                        narrowed = Obj(m.cls, False, selfv.ref, None, ctx)
                        return self.call_function(ctx, m, [narrowed] + list(args[1:]), kwargs)
            return self.apply_contract(ctx, finfo, contract, args, kwargs)
        # no contract: inline (nested defs, lambdas, private helpers, declared-inlinable accessors)
        if finfo.cls is not None and isinstance(selfv, Obj) and not selfv.exact and dynamic:
            ov = [o for o in self.overriders(finfo, selfv.cls)]
            if ov:
                return self.dispatch_inline(ctx, finfo, ov, selfv, args, kwargs)
        nested = closure is not None and closure.env is not None
        private_helper = finfo.cls is not None and finfo.name.startswith("_") and not finfo.name.startswith("__")
        if not raw and not nested and getattr(self, "semantic_decorators", None) is not None \
                and self.semantic_decorators(finfo):
            return self.call_decorated(ctx, finfo, args, kwargs)
        if not (nested or inline_ok or private_helper or finfo.is_property or isinstance(finfo.node, ast.Lambda)
                or finfo.qualname in self.reg.inline or raw):
            # a function of the same module (or a method of the receiver's class) that nobody wrote a contract for - on
            # the pinned tree there is none on any verified path, so this is code that appeared after the contracts were
            # written (e.g. a helper factored out): its body is its own strongest contract, inline it (bounded depth,
            # no recursion) instead of giving up
            top = ctx.func.split("[")[0].split("<")[0]
            top_f = self.repo.functions.get(top)
            same_module = top_f is not None and finfo.module is top_f.module
            active = getattr(ctx, "inline_stack", [])
            if not (same_module and finfo.qualname not in active and finfo.qualname != top and ctx.inline_depth < 3
                    and not finfo.is_generator):
                raise EngineLimit("call of %s: no contract and not declared inlinable" % finfo.qualname)
            ctx.__dict__.setdefault("inline_stack", []).append(finfo.qualname)
            try:
                return self.inline_call(ctx, finfo, args, kwargs, closure)
            except PyRaise as pr:
                # a `raise` statement of a helper that is executed as part of the function under contract IS a raise of
                # that function (its `raises_here` clauses apply): a check moved into an extracted helper stays checked
                ov = pr.exc
                og = ov.fields.get("__origin__") if isinstance(ov, ExcVal) else None
                if isinstance(og, str) and og.startswith(finfo.qualname + " line"):
                    ov.fields["__origin__"] = "%s line 0 (in the inlined helper %s)" % (top, og)
                raise
            finally:
                ctx.inline_stack.pop()
        return self.inline_call(ctx, finfo, args, kwargs, closure)

    def dispatch_inline(self, ctx, finfo, overriders, selfv, args, kwargs):
        """Dynamic dispatch over a non-exact receiver when subclasses override an inlinable method."""
        cands = [finfo] + overriders
        for m in cands:
            if m.qualname not in self.reg.inline and not m.is_property:
                raise EngineLimit("dynamic dispatch to %s which is not inlinable" % m.qualname)
        # decide the dynamic class group by group
        for m in overriders:
            classes = [c for c in m.cls.all_subclasses() if c.lookup(finfo.name) is m and c.is_subclass_of(selfv.cls)]
            if not classes:
                continue
            cond = z3.Or(*[self.tag_fn(selfv.ref) == self.class_id(c) for c in classes])
            if ctx.decide(cond):
                narrowed = Obj(m.cls, False, selfv.ref, None, ctx)
                return self.inline_call(ctx, m, [narrowed] + list(args[1:]), kwargs, None)
        return self.inline_call(ctx, finfo, args, kwargs, None)

    def inline_call(self, ctx: Ctx, finfo: FuncInfo, args, kwargs, closure):
        if ctx.inline_depth > 12:
            raise EngineLimit("inline depth exceeded at %s" % finfo.qualname)
        parent_env = closure.env if closure is not None else None
        env = Env(finfo.module, parent_env, finfo)
        denv = parent_env or Env(finfo.module, None, None)
        env.vars.update(self.bind_args(ctx, finfo, args, kwargs, denv))
        ctx.inline_depth += 1
        saved_yield = getattr(ctx, "yielded", None)
        if finfo.is_generator:
            ctx.yielded = []
        try:
            if isinstance(finfo.node, ast.Lambda):
                return self.eval(ctx, finfo.node.body, env)
            try:
                self.exec_block(ctx, finfo.node.body, env)
                result = None
            except ReturnSig as r:
                result = r.value
            if finfo.is_generator:
                result = V.GeneratorV(ctx.yielded)
            return result
        finally:
            ctx.inline_depth -= 1
            if finfo.is_generator:
                ctx.yielded = saved_yield

    def apply_contract(self, ctx: Ctx, finfo: FuncInfo, contract: Contract, args, kwargs):
        denv = Env(finfo.module, None, None)
        bound = self.bind_args(ctx, finfo, args, kwargs, denv)
        for pname, pkind in contract.params.items():
            if isinstance(pkind, V.SeqOf) and isinstance(bound.get(pname), V.MappedIter):
                from .loops import list_of_mapped

                bound[pname] = list_of_mapped(self, ctx, bound[pname])
        params = finfo.params
        nsd = {}
        for k, v in bound.items():
            nsd["self" if (finfo.cls is not None and not finfo.is_static and params and k == params[0]) else k] = v
        ns = NS(**nsd)
        ns.__dict__["ctx"] = ctx
        if isinstance(nsd.get("self"), Obj) and nsd["self"].fields is not None and finfo.name != "__init__":
            from . import mutstate

            ns.__dict__["old"] = mutstate.snapshot(nsd["self"])  # pre-state of a materialised (mutable) receiver
            if self._owns_state(nsd["self"].cls):
                for av in bound.values():
                    if isinstance(av, Obj) and av.fields is not None and av is not nsd["self"] and not self._owns_state(av.cls):
                        mutstate.publish(self, ctx, av)
        for pname, pval in list(nsd.items()):
            if pname != "self" and isinstance(pval, Obj) and pval.fields is not None:
                from . import mutstate

                if self._owns_state(pval.cls):
                    ns.__dict__["old_" + pname] = mutstate.snapshot(pval)  # pre-state of a materialised (mutable) argument
                elif getattr(contract.impl, "publishes_args", False):
                    mutstate.publish(self, ctx, pval)  # a fresh immutable object handed to a constructor that keeps it
        for pname in getattr(contract.impl, "mutates", None) or []:
            from . import ext_reader

            if pname in contract.params:
                ext_reader.coerce_collection(ctx, nsd[pname], contract.params[pname])
            ns.__dict__["old_" + pname] = ext_reader.snapshot_collection(nsd[pname])
        if getattr(contract.impl, "publishes_args", False):
            for pname, pval in list(nsd.items()):
                if pname != "self" and isinstance(pval, PyList):  # a literal list of fresh immutable objects that is kept
                    from . import mutstate

                    for it in pval.items:
                        if isinstance(it, Obj) and it.fields is not None and not self._owns_state(it.cls):
                            mutstate.publish(self, ctx, it)
        ns.__dict__["old"] = make_old_view(ns, ns.__dict__.get("old"))
        callee = short(contract.qualname)
        for label, c in self.run_spec(ctx, lambda: contract.clauses("pre", ns)):
            ctx.oblige("%s/pre#%s#%s" % (short(ctx.func), callee, label), lift_bool(c), kind="pre")
            ctx.assume(lift_bool(c))
        if not finfo.name == "__init__" and isinstance(nsd.get("self"), Obj) and nsd["self"].fields is not None \
                and self._invariant_at_calls(nsd["self"].cls) and finfo.cls is not None:
            # the callee assumes the class invariant of its (mutable) receiver: it must hold at the call
            # (opt-in per class spec: `invariant_at_calls = True`)
            for label, inv in self.class_invariants(ctx, nsd["self"]):
                ctx.oblige("%s/pre#%s#inv.%s" % (short(ctx.func), callee, label), lift_bool(inv), kind="pre")
        # optional cut (`cut(s) -> {label: clause}`): lemmas about the arguments that the *caller* proves at the call (own
        # obligations `cut#callee#label`) and may use afterwards; they are not preconditions - the callee is verified
        # without them - but split a hard derivation into two easy ones
        cut = getattr(contract.impl, "cut", None)
        if cut is not None and not ctx.spec_mode:
            r_ = self.run_spec(ctx, cut, ns)
            for label, c in (r_.items() if isinstance(r_, dict) else enumerate(r_ or [])):
                ctx.oblige("%s/cut#%s#%s" % (short(ctx.func), callee, label), lift_bool(c), kind="pre")
                ctx.assume(lift_bool(c))
        # caller-side cuts at a call site (`at_call = {callee suffix: fn(s, c) -> {label: clause}}` on the contract of the
        # function under verification; s = its own namespace incl. s.old, c = the namespace of this call): lemmas about the
        # intermediate state, proved here (`cut@callee#label`) and usable afterwards
        top = getattr(ctx, "top_contract", None)
        hooks = getattr(top.impl, "at_call", None) if top is not None else None
        if hooks and not ctx.spec_mode:
            for suffix, fn in hooks.items():
                if contract.qualname.endswith(suffix):
                    r_ = self.run_spec(ctx, lambda: fn(ctx.top_ns, ns))
                    for label, c in (r_.items() if isinstance(r_, dict) else enumerate(r_ or [])):
                        ctx.oblige("%s/cut@%s#%s" % (short(ctx.func), callee, label), lift_bool(c), kind="pre")
                        ctx.assume(lift_bool(c))
        # optional case split requested by the contract (`case_split(s) -> [conditions]`): the caller's path is forked on
        # each condition (pure path splitting: helps the solver where each case is easy but the disjunction is not)
        cs = getattr(contract.impl, "case_split", None)
        if cs is not None and not ctx.spec_mode:
            for c in self.run_spec(ctx, cs, ns):
                ctx.decide(lift_bool(c))
        # parameters declared `MutInvObjOf`: the callee assumes their class invariant, so it must hold at the call
        for pname, pkind in contract.params.items():
            po = nsd.get(pname)
            if isinstance(pkind, V.MutInvObjOf) and isinstance(po, Obj) and po.fields is not None and pname != "self":
                for label, inv in self.class_invariants(ctx, po):
                    ctx.oblige("%s/pre#%s#inv.%s.%s" % (short(ctx.func), callee, pname, label), lift_bool(inv), kind="pre")
        if contract.decreases is not None and getattr(ctx, "entry_measure", None) is not None and not ctx.spec_mode:
            # recursion group: the callee's termination measure must be lexicographically below the measure that the
            # function under verification had at entry, and bounded below (a scalar measure is a 1-tuple)
            cm = as_measure(self.run_spec(ctx, contract.decreases, ns))
            ctx.oblige("%s/decreases#%s" % (short(ctx.func), callee), lex_less(cm, ctx.entry_measure), kind="decreases")
        log_entry = None
        if not ctx.spec_mode:
            log_entry = {"callee": contract.qualname, "ns": ns, "index": len(ctx.call_log), "result": None,
                         "returned": False}
            ctx.call_log.append(log_entry)
        # exceptional outcomes: the callee may raise any X whose condition holds, and returns normally only if none does
        pending_raise = False
        names = list(contract.raises.items())
        for idx, (xname, cond) in enumerate(names):
            if cond is None:
                if ctx.choose(2) == 1:
                    raise PyRaise(self._new_exc(ctx, contract, ns, xname))
                continue
            c = lift_bool(self.run_spec(ctx, cond, ns))
            if ctx.decide(c):
                later = any(cn is not None for _, cn in names[idx + 1:])
                if not later or ctx.choose(2) == 0:
                    raise PyRaise(self._new_exc(ctx, contract, ns, xname))
                pending_raise = True
        if pending_raise:
            raise PathEnd()  # some condition held: a normal return is excluded by the contract
        for xname, cond in getattr(contract, "raises_implies", {}).items():
            c = lift_bool(self.run_spec(ctx, cond, ns))
            if self.feasible(ctx, c) and ctx.choose(2) == 1:
                ctx.assume(c)
                raise PyRaise(self._new_exc(ctx, contract, ns, xname))
        for xname, cond in contract.raises_if.items():
            if ctx.choose(2) == 1:
                exc = ExcVal(self.exc_class(xname))
                ns.__dict__["exc"] = exc
                ctx.assume(lift_bool(self.run_spec(ctx, cond, ns)))
                raise PyRaise(exc)
        for xname, cond in contract.raises_only_if.items():
            c = lift_bool(self.run_spec(ctx, cond, ns))
            if ctx.decide(c):
                if ctx.choose(2) == 1:
                    raise PyRaise(ExcVal(self.exc_class(xname)))
        for xname in contract.may_raise:
            if ctx.choose(2) == 1:
                raise PyRaise(self._new_exc(ctx, contract, ns, xname))
        is_init = finfo.name == "__init__"
        result = None
        if is_init:
            selfv = ns.self
            self.havoc_init_fields(ctx, selfv, finfo.cls)
            if isinstance(selfv, Obj) and selfv.fields is not None:
                V.bind_owner(selfv)
            if isinstance(selfv, Obj) and selfv.cls is finfo.cls:
                selfv.ghost["$constructed-by-contract"] = True
        else:
            if contract.value is not None:
                result = self.run_spec(ctx, contract.value, ns)
            elif contract.returns is not None:
                result = ctx.fresh_kind("ret!" + finfo.name, contract.returns)
                self.assume_wellformed(ctx, result)
            if contract.modifies and isinstance(nsd.get("self"), Obj) and nsd["self"].fields is not None:
                for fname in contract.modifies:
                    k, _ = self.field_kind(nsd["self"].cls, fname)
                    if k is not None:
                        nsd["self"].fields[fname] = ctx.fresh_kind("havoc." + fname, k)
                V.bind_owner(nsd["self"])
            if getattr(contract.impl, "havoc_heap", False):
                from . import ext_reader

                ext_reader.heap_havoc(ctx)  # the callee may fill caches of the ghost heap (never clears them)
            hv = getattr(contract.impl, "havoc", None)
            if hv is not None:
                # fields of materialised objects reachable from the arguments that the callee may assign
                for hentry in self.run_spec(ctx, hv, ns):
                    if isinstance(hentry[0], (SymSet, SymMap)):
                        from . import ext_reader

                        ext_reader.havoc_in_place(ctx, hentry[0], "havoc.%s" % (hentry[1] if len(hentry) > 1 else "collection"))
                        continue
                    hobj, fname = hentry[0], hentry[1]
                    if not isinstance(hobj, Obj) or hobj.fields is None:
                        raise EngineLimit("havoc of a field of a non-materialised object")
                    k, _ = self.field_kind(hobj.cls, fname)
                    if len(hentry) > 2:
                        k = hentry[2]  # the kind of the new value is given by the contract (e.g. a list that grew)
                    if k is None:
                        raise EngineLimit("no field kind declared for %s.%s" % (hobj.cls.qualname, fname))
                    hobj.fields[fname] = ctx.fresh_kind("havoc." + fname, k)
                    self.assume_wellformed(ctx, hobj.fields[fname])
                    V.bind_owner(hobj)
            # parameters that are materialised objects: `modifies_params = {"reader": ["_bit_offset"]}`
            for pname, fnames in (getattr(contract.impl, "modifies_params", None) or {}).items():
                po = nsd.get(pname)
                if isinstance(po, Obj) and po.fields is not None:
                    for fname in fnames:
                        k, _ = self.field_kind(po.cls, fname)
                        if k is not None:
                            po.fields[fname] = ctx.fresh_kind("havoc.%s.%s" % (pname, fname), k)
                elif po is not None:
                    raise EngineLimit("callee modifies parameter %s which is not a materialised object here" % pname)
        ns.__dict__["result"] = result
        if log_entry is not None:
            log_entry["result"] = result
            log_entry["returned"] = True
        for label, c in self.run_spec(ctx, lambda: contract.clauses("post", ns)):
            ctx.assume(lift_bool(c))
        if is_init:
            partial = isinstance(ns.self, Obj) and ns.self.cls is not finfo.cls
            for label, inv in self.class_invariants(ctx, ns.self, finfo.cls, partial=partial, exempt=contract.inv_exempt):
                if label in contract.inv_exempt:
                    continue
                ctx.assume(lift_bool(inv))
        else:
            # a method of a mutable class re-establishes the class invariant of the objects it modified (proved as
            # inv# obligations of that method)
            touched = []
            if contract.modifies and isinstance(nsd.get("self"), Obj) and nsd["self"].fields is not None:
                touched.append(nsd["self"])
            for pname in (getattr(contract.impl, "modifies_params", None) or {}):
                if isinstance(nsd.get(pname), Obj) and nsd[pname].fields is not None:
                    touched.append(nsd[pname])
            for o in touched:
                if self._invariant_at_calls(o.cls):
                    for label, inv in self.class_invariants(ctx, o):
                        ctx.assume(lift_bool(inv))
        return result

    def havoc_init_fields(self, ctx, selfv: Obj, cls: ClassInfo):
        if selfv.fields is None:
            return
        for c in reversed(cls.mro()):
            cs = self.reg.classes.get(c.qualname)
            if cs:
                for n, k in cs.fields.items():
                    selfv.fields[n] = ctx.fresh_kind("init." + n, k)

    def exc_class(self, name: str):
        try:
            return self.class_by_name(name)
        except KeyError:
            return V.ExtClass(name)

    def instantiate(self, ctx: Ctx, cls: ClassInfo, args, kwargs):
        if self.is_exception_class(cls):
            return ExcVal(cls, args, kwargs)
        special = self.lib.instantiate_special(ctx, cls, args, kwargs)
        if special is not NotImplemented:
            return special
        init = cls.lookup("__init__")
        ref = ctx.fresh("new!" + cls.name, V.RefSort)
        ctx.assume(self.tag_fn(ref) == self.class_id(cls))
        obj = Obj(cls, True, ref, {}, ctx)
        if init is not None:
            self.call_function(ctx, init, [obj] + list(args), kwargs)
        elif args or kwargs:
            raise PyRaise(ExcVal(V.ExtClass("TypeError")))
        return obj

    def is_exception_class(self, cls: ClassInfo) -> bool:
        return any(e.split(".")[-1] in EXT_EXC_BASES for e in cls.external_ancestors())

    # ------------------------------------------------------------------ iteration helpers
    def iter_concrete(self, ctx, v) -> List[Any]:
        if isinstance(v, PyList):
            return list(v.items)
        if isinstance(v, (tuple, list)):
            return list(v)
        if isinstance(v, PySet):
            return list(v.items)
        if isinstance(v, RecV):
            return list(v.comps.values())
        if isinstance(v, V.GeneratorV):
            return list(v.items)
        if isinstance(v, V.RangeV):
            if all(isinstance(x, int) for x in (v.lo, v.hi, v.step)):
                return list(range(v.lo, v.hi, v.step))
        if isinstance(v, PyDict):
            return list(v.items.keys())
        if isinstance(v, str):
            return list(v)
        raise EngineLimit("iteration over %r requires a concrete sequence" % (v,))

    def iter_to_set(self, ctx, v):
        if isinstance(v, (SymSet, PySet)):
            return v
        if isinstance(v, Obj):
            m = v.cls.lookup("__iter__")
            if m is not None:
                return self.call_function(ctx, m, [v], {}, dynamic=True)
        return v


SET_THEORY_SYMBOLS = {"modset", "padset", "sumset", "kfold", "rangefold", "nsum", "unions"}
_SYM_CACHE: Dict[int, Any] = {}
_SYM_KEEP: List[Any] = []


def symbols_of(t) -> frozenset:
    """Names of the uninterpreted function symbols (arity >= 1) occurring in a term."""
    key = t.get_id()
    if key in _SYM_CACHE:
        return _SYM_CACHE[key]
    out = set()
    seen = set()
    stack = [t]
    while stack:
        x = stack.pop()
        i = x.get_id()
        if i in seen:
            continue
        seen.add(i)
        if z3.is_quantifier(x):
            stack.append(x.body())
            continue
        if z3.is_app(x):
            d = x.decl()
            if d.kind() == z3.Z3_OP_UNINTERPRETED and x.num_args() > 0:
                out.add(d.name())
            stack.extend(x.children())
    r = frozenset(out)
    _SYM_CACHE[key] = r
    _SYM_KEEP.append(t)  # keep the term alive so that its id is not reused
    return r


_split_counter = [0]


def split_goal(name, goal):
    """Top-level conjunctions are split; an equality between sets becomes two inclusion goals over a fresh element
       (the solver proves each inclusion far more reliably than the extensional equality)."""
    if z3.is_and(goal) and goal.num_args() > 1:
        out = []
        for k, c in enumerate(goal.children()):
            out.extend(split_goal("%s.%d" % (name, k) if goal.num_args() > 1 else name, c))
        return out
    if z3.is_not(goal) and z3.is_or(goal.arg(0)) and goal.arg(0).num_args() > 1:
        # not (a or b ...): one goal per disjunct (e.g. "normal return implies none of the rejection reasons")
        out = []
        for k, c in enumerate(goal.arg(0).children()):
            out.extend(split_goal("%s.%d" % (name, k), z3.Not(c)))
        return out
    if z3.is_eq(goal) and z3.is_array(goal.arg(0)) and goal.arg(0).sort().range() == z3.BoolSort():
        a, b = goal.arg(0), goal.arg(1)
        if a.eq(b):
            return [(name, z3.BoolVal(True))]
        _split_counter[0] += 1
        y = z3.Const("elem!%d" % _split_counter[0], a.sort().domain())
        return [(name + "/subset", z3.Implies(z3.Select(a, y), z3.Select(b, y))),
                (name + "/superset", z3.Implies(z3.Select(b, y), z3.Select(a, y)))]
    if z3.is_eq(goal) and z3.is_int(goal.arg(0)) and (has_uf(goal.arg(0)) and has_uf(goal.arg(1))):
        a, b = goal.arg(0), goal.arg(1)
        if a.eq(b):
            return [(name, z3.BoolVal(True))]
        return [(name + "/le", a <= b), (name + "/ge", a >= b)]
    return [(name, goal)]


def has_uf(t) -> bool:
    return bool(symbols_of(t))


_Q_CACHE: Dict[int, bool] = {}


def has_quantifier(t) -> bool:
    key = t.get_id()
    if key in _Q_CACHE:
        return _Q_CACHE[key]
    r = False
    stack = [t]
    seen = set()
    while stack:
        x = stack.pop()
        if x.get_id() in seen:
            continue
        seen.add(x.get_id())
        if z3.is_quantifier(x):
            r = True
            break
        stack.extend(x.children())
    _Q_CACHE[key] = r
    _SYM_KEEP.append(t)
    return r


def trigger_symbol_sets(ax) -> List[frozenset]:
    """For a quantified axiom: one symbol set per alternative pattern (the axiom can only be instantiated when all
    symbols of one alternative occur).  Axioms without patterns: one alternative per occurring symbol."""
    if z3.is_quantifier(ax) and ax.num_patterns() > 0:
        out = []
        for k in range(ax.num_patterns()):
            out.append(frozenset(x for x in symbols_of(ax.pattern(k)) if x != "pattern"))
        return [o for o in out if o] or [frozenset()]
    syms = symbols_of(ax)
    syms = syms - WITNESS_PREFIXES(syms)
    return [frozenset([x]) for x in syms] or [frozenset()]


def WITNESS_PREFIXES(syms):
    return {s for s in syms if s.startswith("w_") or s.startswith("sk_")}


def _uf_apps_on(body, r):
    """Applications f(r) of uninterpreted unary functions to the bound object inside `body` (used as triggers)."""
    seen, out = set(), []

    def walk(t):
        if t.get_id() in seen:
            return
        seen.add(t.get_id())
        if z3.is_app(t) and t.num_args() == 1 and t.decl().kind() == z3.Z3_OP_UNINTERPRETED and t.arg(0).eq(r):
            out.append(t)
        if z3.is_quantifier(t):
            return
        for c in t.children():
            walk(c)

    walk(body)
    return out


def _accepts_skip(fn) -> bool:
    import inspect

    try:
        return "skip" in inspect.signature(fn).parameters
    except (TypeError, ValueError):
        return False


def contract_cls(engine, contract, cls):
    return cls


def make_old_view(ns, self_snap):
    """The pre-state `s.old` of a contract.  For a method of a materialised receiver it is the snapshot of the receiver
       (attributes = its fields, `s.old._pending`), which additionally answers `.self` (itself) and `.<param>` (snapshots
       of the parameters, materialised objects copied); for plain functions it is a namespace of parameter snapshots."""
    from . import mutstate

    params = {}
    for k, v in ns.__dict__.items():
        if k in ("ctx", "old", "result", "self", "exc") or k.startswith("old_"):
            continue
        params[k] = mutstate.snapshot(v)
    if isinstance(self_snap, Obj):
        self_snap.ghost["self"] = self_snap
        for k, v in params.items():
            self_snap.ghost.setdefault(k, v)
        return self_snap
    if isinstance(ns.__dict__.get("self"), Obj) and ns.self.fields is not None:
        params["self"] = mutstate.snapshot(ns.self)
    elif "self" in ns.__dict__:
        params["self"] = ns.self
    return NS(**params)


def as_measure(m):
    """A termination measure: a tuple / list (lexicographic) or a scalar (1-tuple)."""
    if isinstance(m, (tuple, list)):
        return tuple(m)
    return (m,)


def lex_less(a, b):
    """(a1, a2, ...) < (b1, b2, ...) lexicographically over the naturals (every component of `a` is also >= 0)."""
    def t(x):
        return z3.IntVal(x) if isinstance(x, int) else x

    a, b = [t(x) for x in a], [t(x) for x in b]
    n = min(len(a), len(b))
    alts = []
    for k in range(n):
        alts.append(z3.And(*([a[j] == b[j] for j in range(k)] + [a[k] < b[k]])))
    return z3.And(z3.And(*[x >= 0 for x in a]), z3.Or(*alts))


def speclib_and(*xs):
    flat = []
    for x in xs:
        if isinstance(x, bool):
            if not x:
                return False
            continue
        flat.append(x)
    if not flat:
        return True
    if len(flat) == 1:
        return flat[0]
    return z3.And(*flat)


def speclib_or(*xs):
    flat = []
    for x in xs:
        if isinstance(x, bool):
            if x:
                return True
            continue
        flat.append(x)
    if not flat:
        return False
    if len(flat) == 1:
        return flat[0]
    return z3.Or(*flat)


def lift_bool(c):
    if isinstance(c, bool):
        return z3.BoolVal(c)
    if isinstance(c, z3.ExprRef) and z3.is_bool(c):
        return c
    raise EngineLimit("clause is not boolean: %r" % (c,))


def lift_truth(engine, ctx, v):
    if isinstance(v, (bool, z3.BoolRef)):
        return v
    return engine.truth(ctx, v)


def short(qualname: str) -> str:
    q = qualname
    if q.startswith("pydsdl."):
        q = q[len("pydsdl."):]
    parts = q.split(".")
    # drop the package path, keep module.Class.func
    keep = []
    for p in parts:
        keep.append(p)
    # remove leading packages that start with '_' and are followed by a module that starts with '_'
    while len(keep) > 2 and keep[0].startswith("_") and keep[1].startswith("_") and keep[1][1:2].islower() and \
            keep[0] in ("_bit_length_set", "_serializable", "_expression"):
        keep.pop(0)
    return ".".join(keep)


def safe_unparse(n) -> str:
    try:
        return ast.unparse(n)
    except Exception:  # pragma: no cover
        return "?"


def _load(target):
    import copy

    t = copy.copy(target)
    t.ctx = ast.Load()
    return t


def _pure_isinstance(e) -> bool:
    """isinstance(<name>, <class name(s)>) / its negation / a pure simple expression: side-effect free and non-raising
       (used under a comprehension binding, where forking on the short-circuit is impossible)"""
    if isinstance(e, ast.UnaryOp) and isinstance(e.op, ast.Not):
        return _pure_isinstance(e.operand)
    if isinstance(e, ast.Call) and isinstance(e.func, ast.Name) and e.func.id == "isinstance" and len(e.args) == 2 \
            and not e.keywords and isinstance(e.args[0], ast.Name):
        c = e.args[1]
        return isinstance(c, ast.Name) or (isinstance(c, ast.Tuple) and all(isinstance(x, ast.Name) for x in c.elts))
    return _pure_simple(e)


def _pure_simple(e) -> bool:
    """Syntactically side-effect free and non-raising (names, constants, comparisons/boolean ops of those)."""
    if isinstance(e, (ast.Name, ast.Constant)):
        return True
    if isinstance(e, ast.Compare):
        return _pure_simple(e.left) and all(_pure_simple(c) for c in e.comparators) and all(
            isinstance(o, (ast.Eq, ast.NotEq, ast.Lt, ast.LtE, ast.Gt, ast.GtE)) for o in e.ops)
    if isinstance(e, ast.BoolOp):
        return all(_pure_simple(v) for v in e.values)
    if isinstance(e, ast.UnaryOp) and isinstance(e.op, (ast.Not, ast.USub)):
        return _pure_simple(e.operand)
    if isinstance(e, ast.BinOp) and isinstance(e.op, (ast.Add, ast.Sub, ast.Mult)):
        return _pure_simple(e.left) and _pure_simple(e.right)
    return False
