"""
Dynamically typed Python values (the `value` / `obj` arguments of the serializer): an uninterpreted sort with observers.

    tag(v)            which builtin type (None, bool, int, float, str, bytes, bytearray, list, tuple, dict, other)
    ival(v)           int(v) for bool / int
    length(v)         len(v) for str / bytes / bytearray / list / tuple / dict          (>= 0)
    item(v, i)        the i-th element in iteration order (list / tuple: the element; bytes / bytearray: the byte as int)
    keys(v)           dict: the keys in insertion order (strings) ; has(v, k) ; get(v, k)

ASSUMED library contracts (listed in libmodel.ASSUMED): isinstance follows the tag; len / iteration / list() / dict
lookups agree with the observers; str.encode / bytes.decode may raise UnicodeError (a ValueError).
Only what the serializer observes is modelled; anything else is an EngineLimit.
"""
from __future__ import annotations
import z3
from . import values as V
from .values import EngineLimit
from . import libmodel

libmodel.ASSUMED.update({
    "dynamic values": "a Python value of unknown type is one of None/bool/int/float/str/bytes/bytearray/list/tuple/dict/other; "
                      "isinstance, len, iteration order, list(), dict keys()/get()/[]/len agree with the observers "
                      "tag/length/item/keys/has/get; len() of an unsized value and iteration over a non-iterable raise "
                      "TypeError; str.encode('utf-8') / bytes.decode('utf-8') return bytes / str or raise "
                      "UnicodeEncodeError / UnicodeDecodeError",
})

I = z3.IntSort()
DynSort = z3.DeclareSort("DynVal")
T_NONE, T_BOOL, T_INT, T_FLOAT, T_STR, T_BYTES, T_BYTEARRAY, T_LIST, T_TUPLE, T_DICT, T_OTHER = range(11)
tag_f = z3.Function("dyn!tag", DynSort, I)
ival_f = z3.Function("dyn!int", DynSort, I)
len_f = z3.Function("dyn!len", DynSort, I)
items_f = z3.Function("dyn!items", DynSort, z3.ArraySort(I, DynSort))


def item_f(t, i):
    return z3.Select(items_f(t), i)


keys_f = z3.Function("dyn!keys", DynSort, z3.ArraySort(I, z3.StringSort()))
has_f = z3.Function("dyn!has", DynSort, z3.StringSort(), z3.BoolSort())
get_f = z3.Function("dyn!get", DynSort, z3.StringSort(), DynSort)
truth_f = z3.Function("dyn!truth", DynSort, z3.BoolSort())
float_reject_f = z3.Function("dyn!nonfinite", DynSort, z3.BoolSort())

SIZED = (T_STR, T_BYTES, T_BYTEARRAY, T_LIST, T_TUPLE, T_DICT)
ITERABLE = (T_STR, T_BYTES, T_BYTEARRAY, T_LIST, T_TUPLE, T_DICT)
NAMES = {"NoneType": (T_NONE,), "bool": (T_BOOL,), "int": (T_BOOL, T_INT), "float": (T_FLOAT,), "str": (T_STR,),
         "bytes": (T_BYTES,), "bytearray": (T_BYTEARRAY,), "list": (T_LIST,), "tuple": (T_TUPLE,), "dict": (T_DICT,),
         "memoryview": (), "set": (), "frozenset": (), "Fraction": ()}


class DynV:
    def __init__(self, term):
        self.term = term

    def __repr__(self):
        return "<Dyn %s>" % self.term


def wf_facts(ctx, t):
    ctx.pc.append(z3.And(tag_f(t) >= 0, tag_f(t) <= T_OTHER, len_f(t) >= 0))
    ctx.pc.append(z3.Implies(z3.Or(tag_f(t) == T_BOOL, tag_f(t) == T_INT), truth_f(t) == (ival_f(t) != 0)))
    ctx.pc.append(z3.Implies(z3.Or(*[tag_f(t) == k for k in SIZED]), truth_f(t) == (len_f(t) > 0)))
    ctx.pc.append(z3.Implies(tag_f(t) == T_NONE, z3.Not(truth_f(t))))
    ctx.pc.append(z3.Implies(tag_f(t) == T_BOOL, z3.And(ival_f(t) >= 0, ival_f(t) <= 1)))


def mk(ctx, t):
    wf_facts(ctx, t)
    return DynV(t)


class _Dyn(V.Kind):
    def sort(self):
        return DynSort

    def wrap(self, ctx, term):
        return mk(ctx, term)

    def unwrap(self, v):
        return v.term

    def __repr__(self):
        return "Dyn"


Dyn = _Dyn()


def tag_in(t, tags):
    if not tags:
        return z3.BoolVal(False)
    return z3.Or(*[tag_f(t) == k for k in tags])


def isinstance_dyn(v: DynV, name: str):
    name = name.split(".")[-1]
    if name == "object":
        return True
    if name not in NAMES:
        raise EngineLimit("isinstance of a dynamic value against %s" % name)
    return tag_in(v.term, NAMES[name])


def truth(v: DynV):
    return truth_f(v.term)


def length(lib, ctx, v: DynV):
    if ctx.decide(z3.Not(tag_in(v.term, SIZED))):
        raise lib.raise_ext("TypeError", "object has no len()")
    return len_f(v.term)


def element(ctx, v: DynV, i):
    """the i-th element in iteration order"""
    e = item_f(v.term, i)
    d = mk(ctx, e)
    ctx.pc.append(z3.Implies(z3.Or(tag_f(v.term) == T_BYTES, tag_f(v.term) == T_BYTEARRAY),
                             z3.And(tag_f(e) == T_INT, ival_f(e) >= 0, ival_f(e) <= 255)))
    return d


def iter_seq(lib, ctx, v: DynV):
    """the sequence iterated by `for x in v` (TypeError for a non-iterable; dict: its keys)"""
    if ctx.decide(z3.Not(tag_in(v.term, ITERABLE))):
        raise lib.raise_ext("TypeError", "object is not iterable")
    if ctx.decide(tag_f(v.term) == T_DICT):
        return keys_seq(ctx, v)
    if ctx.decide(tag_f(v.term) == T_STR):
        raise EngineLimit("iteration over a str dynamic value")
    i = z3.FreshConst(I, "bi")
    e = item_f(v.term, i)
    ctx.add_axiom(z3.ForAll([i], z3.Implies(z3.Or(tag_f(v.term) == T_BYTES, tag_f(v.term) == T_BYTEARRAY),
                                            z3.And(tag_f(e) == T_INT, ival_f(e) >= 0, ival_f(e) <= 255)), patterns=[e]))
    return V.SymSeq(items_f(v.term), len_f(v.term), Dyn)


def keys_seq(ctx, v: DynV):
    s = V.SymSeq(keys_f(v.term), len_f(v.term), V.Str)
    i = z3.FreshConst(I, "ki")
    ctx.add_axiom(z3.ForAll([i], z3.Implies(z3.And(0 <= i, i < len_f(v.term)), has_f(v.term, z3.Select(keys_f(v.term), i))),
                            patterns=[z3.Select(keys_f(v.term), i)]))
    return s


def to_list(lib, ctx, v: DynV):
    if ctx.decide(z3.Not(tag_in(v.term, ITERABLE))):
        raise lib.raise_ext("TypeError", "object is not iterable")
    if ctx.decide(tag_f(v.term) == T_DICT) or ctx.decide(tag_f(v.term) == T_STR):
        raise EngineLimit("list() of a dict / str dynamic value")
    r = ctx.fresh("aslist", DynSort)
    d = mk(ctx, r)
    ctx.pc.append(z3.And(tag_f(r) == T_LIST, len_f(r) == len_f(v.term)))
    i = z3.FreshConst(I, "li")
    ctx.add_axiom(z3.ForAll([i], item_f(r, i) == item_f(v.term, i), patterns=[item_f(r, i)]))
    isb = z3.Or(tag_f(v.term) == T_BYTES, tag_f(v.term) == T_BYTEARRAY)
    ctx.add_axiom(z3.ForAll([i], z3.Implies(isb, z3.And(tag_f(item_f(r, i)) == T_INT, ival_f(item_f(r, i)) >= 0,
                                                        ival_f(item_f(r, i)) <= 255)), patterns=[item_f(r, i)]))
    return d


def m_dyn_encode(lib, ctx, v: DynV, enc="utf-8", *a):
    if ctx.decide(tag_f(v.term) != T_STR):
        raise lib.raise_ext("AttributeError", "encode on a non-str")
    if ctx.choose(2) == 1:
        raise lib.raise_ext("UnicodeEncodeError")
    r = ctx.fresh("encoded", DynSort)
    d = mk(ctx, r)
    ctx.pc.append(z3.And(tag_f(r) == T_BYTES, len_f(r) >= len_f(v.term)))
    return d


def m_dyn_decode(lib, ctx, v: DynV, enc="utf-8", *a):
    if ctx.decide(z3.Not(tag_in(v.term, (T_BYTES, T_BYTEARRAY)))):
        raise lib.raise_ext("AttributeError", "decode on a non-bytes")
    if ctx.choose(2) == 1:
        raise lib.raise_ext("UnicodeDecodeError")
    r = ctx.fresh("decoded", DynSort)
    d = mk(ctx, r)
    ctx.pc.append(tag_f(r) == T_STR)
    return d


def m_dyn_keys(lib, ctx, v: DynV):
    if ctx.decide(tag_f(v.term) != T_DICT):
        raise lib.raise_ext("AttributeError", "keys on a non-dict")
    return keys_seq(ctx, v)


def m_dyn_get(lib, ctx, v: DynV, k, default=None):
    if ctx.decide(tag_f(v.term) != T_DICT):
        raise lib.raise_ext("AttributeError", "get on a non-dict")
    kt = V.Str.unwrap(k)
    if ctx.decide(has_f(v.term, kt)):
        return mk(ctx, get_f(v.term, kt))
    return default


def getitem(lib, ctx, v: DynV, k):
    if ctx.decide(tag_f(v.term) == T_DICT):
        if not (isinstance(k, str) or (isinstance(k, z3.ExprRef) and z3.is_string(k))):
            raise EngineLimit("dict lookup of a dynamic value with a non-string key")
        kt = V.Str.unwrap(k)
        if ctx.decide(z3.Not(has_f(v.term, kt))):
            raise lib.raise_ext("KeyError")
        return mk(ctx, get_f(v.term, kt))
    raise EngineLimit("subscript of a non-dict dynamic value")


def contains(lib, ctx, v: DynV, item):
    if ctx.decide(tag_f(v.term) == T_DICT):
        if isinstance(item, str) or (isinstance(item, z3.ExprRef) and z3.is_string(item)):
            return has_f(v.term, V.Str.unwrap(item))
    raise EngineLimit("`in` on a dynamic value")


def bi_object(lib, ctx, *a):
    """object(): a fresh sentinel (only compared by identity)"""
    return V.Sentinel("object()")
