"""
Set / sequence theory used by the contracts: SMT declarations with prelude axioms, and native (brute force) versions.

Every axiom that is not definitional names the Lean theorem (lean/Pydsdl/*.lean) that proves the same statement for
finite sets of naturals; `lean` re-checks those files on every run.  Definitional axioms describe membership in a
set-valued function exactly like the corresponding Lean definition (image / product image / union).
"""
from __future__ import annotations
import itertools
import z3
from typing import Any, List, Tuple

from . import values as V
from . import speclib
from .speclib import smt

I = z3.IntSort()
B = z3.BoolSort()
S = V.IntSetSort
SS = z3.ArraySort(I, S)  # sequence of sets
IS = z3.ArraySort(I, I)  # sequence of ints

modset_f = z3.Function("modset", S, I, S)
padset_f = z3.Function("padset", S, I, S)
sumset_f = z3.Function("sumset", S, S, S)
kfold = z3.Function("kfold", S, I, S)
rangefold_f = z3.Function("rangefold", S, I, S)
nsum = z3.Function("nsum", SS, I, S)
unions_f = z3.Function("unions", SS, I, S)
smin = z3.Function("smin", S, I)
smax = z3.Function("smax", S, I)
pad_f = z3.Function("pad", I, I, I)
lcm_f = z3.Function("lcm", I, I, I)
sumseq = z3.Function("sumseq", IS, I, I)
minseq = z3.Function("minseq", IS, I, I)
maxseq = z3.Function("maxseq", IS, I, I)
singleton_f = z3.Function("singleton", I, S)
shift_f = z3.Function("shiftset", S, I, S)  # { x + c }
mults_f = z3.Function("multiples", I, I, S)  # multiples(a, n) = {0, a, 2a, ..., n*a}
wf = z3.Function("wfset", S, B)  # non-empty and all elements >= 0
aligned = z3.Function("aligned", S, I, B)  # every element is a multiple of a
pmod = z3.Function("pmod", I, I, I)
finite = z3.Function("finite", S, B)  # every Python set is finite
D_uf = z3.Function("D!op", V.RefSort, S)  # ghost: the mathematical set denoted by an Operator object
dmap_f = z3.Function("Dmap", z3.ArraySort(I, V.RefSort), SS)
minmap = z3.Function("minmap", SS, IS)
maxmap = z3.Function("maxmap", SS, IS)

opsmap_f = z3.Function("opsmap", z3.ArraySort(I, V.RefSort), z3.ArraySort(I, V.RefSort))  # opsmap C i = (C i)._op
bls_op_f = z3.Function("fld!BitLengthSet!_op", V.RefSort, V.RefSort)
lmap_f = z3.Function("Lmap", z3.ArraySort(I, V.RefSort), SS)   # Lmap C i = L (C i): sets of a list of types
amap_f = z3.Function("Amap", z3.ArraySort(I, V.RefSort), IS)   # Amap C i = A (C i): alignments of a list of types
L_uf = z3.Function("L!type", V.RefSort, S)                      # ghost: the Specification's bit length set of a type
A_uf = z3.Function("A!type", V.RefSort, I)                      # ghost: the Specification's alignment of a type
sfold_f = z3.Function("sfold", SS, IS, I, S)                    # struct layout fold over the first n fields
kfold_hint = z3.Function("unfold!kfold", S, I, B)                   # trigger marker: "unfold kfold at k"
sfold_hint = z3.Function("unfold!sfold", SS, IS, I, B)          # trigger marker: "unfold sfold at n" (no meaning of its own)

# witness (skolem) functions
w_mod = z3.Function("w_mod", S, I, I, I)
w_pad = z3.Function("w_pad", S, I, I, I)
w_sum1 = z3.Function("w_sum1", S, S, I, I)
w_sum2 = z3.Function("w_sum2", S, S, I, I)
w_un = z3.Function("w_un", SS, I, I, I)
w_rf = z3.Function("w_rf", S, I, I, I)
w_wf = z3.Function("w_wf", S, I)
w_al = z3.Function("w_al", S, I, I)
sk_nsum = z3.Function("sk_nsum", SS, SS, I, I, I)
sk_seq = z3.Function("sk_seq", IS, IS, I, I)
sk_ext = z3.Function("sk_ext", SS, SS, I, I)
sk_wf = z3.Function("sk_wf", SS, I, I)
w_neg = z3.Function("w_neg", S, I)
w_mul = z3.Function("w_mul", I, I, I, I)
w_id = z3.Function("idx!hint", I, I)
w_minseq = z3.Function("w_minseq", IS, I, I)
w_maxseq = z3.Function("w_maxseq", IS, I, I)


def _vars():
    A, Bs = z3.Consts("A B", S)
    F, G = z3.Consts("F G", SS)
    M, N = z3.Consts("M N", IS)
    a, b, c, d, k, k2, n, r, x, y, i = z3.Ints("a b c d k k2 n r x y i")
    return A, Bs, F, G, M, N, a, b, c, d, k, k2, n, r, x, y, i


def _reweigh(a, w):
    vs = [z3.Const(a.var_name(i), a.var_sort(i)) for i in range(a.num_vars())]
    body = z3.substitute_vars(a.body(), *reversed(vs))
    pats = []
    for i in range(a.num_patterns()):
        ps = [z3.substitute_vars(c, *reversed(vs)) for c in a.pattern(i).children()]
        pats.append(z3.MultiPattern(*ps) if len(ps) > 1 else ps[0])
    return z3.ForAll(vs, body, weight=w, patterns=pats)


def prelude() -> List[Tuple[str, str, Any]]:
    """(name, justification, axiom)"""
    A, Bs, F, G, M, N, a, b, c, d, k, k2, n, r, x, y, i = _vars()
    C = z3.Const("C", z3.ArraySort(I, V.RefSort))
    sel = z3.Select
    FA = z3.ForAll
    Imp = z3.Implies
    And, Or, Not = z3.And, z3.Or, z3.Not
    MP = z3.MultiPattern
    ax = []

    LAZY = ("modset-in", "modset-out", "padset-in", "padset-out", "sumset-in", "sumset-out", "unions-in", "unions-out",
            "rangefold-in", "rangefold-out", "wf-elim", "multiples-in", "multiples-out", "kfold-mem-mul")

    def add(name, why, f):
        if name in LAZY and z3.is_quantifier(f):
            # membership / witness axioms generate new elements that re-trigger each other: a higher weight makes the
            # solver prefer every other instantiation first (same axiom, only the instantiation order changes)
            f = _reweigh(f, 3)
        ax.append((name, why, f))

    # ---- integer helpers
    pow2 = z3.Function("pow2", I, I)
    add("pow2-table", "definitional: pow2(k) = 2**k, evaluated for k = 0..130",
        And(*[pow2(z3.IntVal(kk)) == z3.IntVal(2 ** kk) for kk in range(0, 131)]))
    add("pow2-pos", "Nat.pos_pow_of_pos", FA([k], Imp(k >= 0, pow2(k) >= 1), patterns=[pow2(k)]))
    add("pmod-def", "definitional: pmod(x,d) is x mod d for d > 0 (Nat.mod_lt, Nat.mod_le)",
        FA([x, d], Imp(d > 0, And(pmod(x, d) >= 0, pmod(x, d) < d,
                                  Imp(x >= 0, pmod(x, d) <= x))), patterns=[pmod(x, d)]))
    # the link to the solver's built-in (non-linear for a symbolic divisor) mod is only added to queries that do not
    # involve the set theory (see Engine.relevant_prelude): it is needed for plain arithmetic goals only
    add("pmod-builtin", "definitional: pmod(x,d) = x mod d",
        FA([x, d], Imp(d > 0, pmod(x, d) == x % d), patterns=[pmod(x, d)]))
    add("pmod-const", "definitional instances of pmod for the constant divisors 1 and 8 (linear arithmetic)",
        And(FA([x], pmod(x, 1) == 0, patterns=[pmod(x, 1)]), FA([x], pmod(x, 8) == x % 8, patterns=[pmod(x, 8)])))
    add("pmod-idem", "Nat.mod_mod", FA([x, d], Imp(d > 0, pmod(pmod(x, d), d) == pmod(x, d)),
                                       patterns=[pmod(pmod(x, d), d)]))
    add("pad-def", "definitional (Lean Pydsdl.pad): pad r x = (x + r - 1) / r * r; with Basic.pad_dvd, le_pad, pad_lt",
        FA([r, x], Imp(r >= 1, And(pad_f(r, x) == ((x + r - 1) / r) * r,
                                   pad_f(r, x) >= x, pad_f(r, x) < x + r, pmod(pad_f(r, x), r) == 0)),
           patterns=[pad_f(r, x)]))
    add("pad-mono", "Lean Basic.pad_mono",
        FA([r, x, y], Imp(And(r >= 1, x <= y), pad_f(r, x) <= pad_f(r, y)), patterns=[MP(pad_f(r, x), pad_f(r, y))]))
    add("pad-of-dvd", "Lean Basic.pad_of_dvd",
        FA([r, x], Imp(And(r >= 1, x >= 0, pmod(x, r) == 0), pad_f(r, x) == x), patterns=[pad_f(r, x)]))
    add("pad-mod", "Lean Pad.pad_mod with L = lcm r d (r | L and d | L: assumed contract of math.lcm)",
        FA([r, d, x], Imp(And(r >= 1, d >= 1, x >= 0),
                          pmod(pad_f(r, pmod(x, lcm_f(r, d))), d) == pmod(pad_f(r, x), d)),
           patterns=[pad_f(r, pmod(x, lcm_f(r, d)))]))
    add("lcm-pos", "assumed contract of math.lcm: positive for positive arguments",
        FA([a, b], Imp(And(a >= 1, b >= 1), And(lcm_f(a, b) >= 1, lcm_f(a, b) >= a, lcm_f(a, b) >= b)),
           patterns=[lcm_f(a, b)]))

    # ---- membership definitions (image axioms, skolemised)
    add("modset-in", "definitional: modset X d = X.image (. % d)",
        FA([A, d, x], Imp(And(sel(A, x), d >= 1), sel(modset_f(A, d), pmod(x, d))), patterns=[MP(sel(A, x), modset_f(A, d))]))
    add("modset-out", "definitional",
        FA([A, d, y], Imp(And(sel(modset_f(A, d), y), d >= 1),
                          And(sel(A, w_mod(A, d, y)), y == pmod(w_mod(A, d, y), d))), patterns=[sel(modset_f(A, d), y)]))
    add("modset-idem", "Lean Bounds.modset_idem (Finset.image_image, Nat.mod_mod)",
        FA([A, d], Imp(d >= 1, modset_f(modset_f(A, d), d) == modset_f(A, d)), patterns=[modset_f(modset_f(A, d), d)]))
    add("padset-in", "definitional: padset A r = A.image (pad r)",
        FA([A, r, x], Imp(sel(A, x), sel(padset_f(A, r), pad_f(r, x))), patterns=[MP(sel(A, x), padset_f(A, r))]))
    add("padset-out", "definitional",
        FA([A, r, y], Imp(sel(padset_f(A, r), y), And(sel(A, w_pad(A, r, y)), y == pad_f(r, w_pad(A, r, y)))),
           patterns=[sel(padset_f(A, r), y)]))
    add("sumset-in", "definitional: sumset A B = (A x B).image (+)   (Lean Basic.mem_sumset)",
        FA([A, Bs, x, y], Imp(And(sel(A, x), sel(Bs, y)), sel(sumset_f(A, Bs), x + y)),
           patterns=[MP(sel(A, x), sel(Bs, y), sumset_f(A, Bs))]))
    add("sumset-out", "definitional",
        FA([A, Bs, y], Imp(sel(sumset_f(A, Bs), y),
                           And(sel(A, w_sum1(A, Bs, y)), sel(Bs, w_sum2(A, Bs, y)),
                               y == w_sum1(A, Bs, y) + w_sum2(A, Bs, y))), patterns=[sel(sumset_f(A, Bs), y)]))
    add("unions-in", "definitional: unions F n = U_{i<n} F i",
        FA([F, n, i, x], Imp(And(0 <= i, i < n, sel(sel(F, i), x)), sel(unions_f(F, n), x)),
           patterns=[MP(sel(sel(F, i), x), unions_f(F, n))]))
    add("unions-out", "definitional",
        FA([F, n, y], Imp(sel(unions_f(F, n), y),
                          And(0 <= w_un(F, n, y), w_un(F, n, y) < n, sel(sel(F, w_un(F, n, y)), y))),
           patterns=[sel(unions_f(F, n), y)]))
    add("rangefold-in", "definitional (Lean Sumset.rangefold): rangefold A K = U_{k<=K} kfold A k",
        FA([A, k, k2, x], Imp(And(0 <= k2, k2 <= k, sel(kfold(A, k2), x)), sel(rangefold_f(A, k), x)),
           patterns=[MP(sel(kfold(A, k2), x), rangefold_f(A, k))]))
    add("rangefold-out", "definitional",
        FA([A, k, y], Imp(sel(rangefold_f(A, k), y),
                          And(0 <= w_rf(A, k, y), w_rf(A, k, y) <= k, sel(kfold(A, w_rf(A, k, y)), y))),
           patterns=[sel(rangefold_f(A, k), y)]))
    add("singleton", "definitional", FA([a, x], sel(singleton_f(a), x) == (x == a), patterns=[sel(singleton_f(a), x)]))
    add("singleton-mem", "definitional", FA([a], sel(singleton_f(a), a), patterns=[singleton_f(a)]))
    add("kfold-zero", "definitional (Lean kfold A 0 = {0})",
        FA([A], kfold(A, 0) == singleton_f(0), patterns=[kfold(A, 0)]))
    add("kfold-one", "Lean: kfold A 1 = sumset {0} A = A   (kfold unfolded once; zero_add)",
        FA([A], kfold(A, 1) == A, patterns=[kfold(A, 1)]))
    add("kfold-succ", "definitional (Lean Basic.kfold): kfold A (k+1) = sumset (kfold A k) A; instantiated only where a "
                      "specification asks for it (trigger marker unfold!kfold)",
        FA([A, k], Imp(k >= 0, kfold(A, k + 1) == sumset_f(kfold(A, k), A)), patterns=[kfold_hint(A, k)]))
    add("nsum-zero", "definitional (Lean nsum [] = {0})", FA([F], nsum(F, 0) == singleton_f(0), patterns=[nsum(F, 0)]))
    add("dmap", "definitional: Dmap C i = D (C i)  (the list of the children's sets)",
        FA([C, i], sel(dmap_f(C), i) == D_uf(sel(C, i)),
           patterns=[sel(dmap_f(C), i), MP(D_uf(sel(C, i)), dmap_f(C))]))
    add("opsmap", "definitional: opsmap C i = (C i)._op  (the operators of a list of BitLengthSet objects)",
        FA([C, i], sel(opsmap_f(C), i) == bls_op_f(sel(C, i)), patterns=[sel(opsmap_f(C), i)]))
    add("nsum-one", "Lean Bounds.nsum_single", FA([F], nsum(F, 1) == sel(F, 0), patterns=[nsum(F, 1)]))
    add("nsum-two", "Lean Bounds.nsum_pair", FA([F], nsum(F, 2) == sumset_f(sel(F, 0), sel(F, 1)), patterns=[nsum(F, 2)]))
    add("lmap", "definitional: Lmap C i = L (C i)",
        FA([C, i], sel(lmap_f(C), i) == L_uf(sel(C, i)), patterns=[sel(lmap_f(C), i), MP(L_uf(sel(C, i)), lmap_f(C))]))
    add("amap", "definitional: Amap C i = A (C i)",
        FA([C, i], sel(amap_f(C), i) == A_uf(sel(C, i)), patterns=[sel(amap_f(C), i), MP(A_uf(sel(C, i)), amap_f(C))]))
    add("sfold-zero", "definitional: SFold [] = {0}", FA([F, M], sfold_f(F, M, 0) == singleton_f(0),
                                                        patterns=[sfold_f(F, M, 0)]))
    add("sfold-succ", "definitional: SFold(fs ++ [f]) = sumset(padset(SFold(fs), A f), L f); instantiated only where a "
                      "specification asks for it (trigger marker unfold!sfold, an uninterpreted predicate without axioms)",
        FA([F, M, n], Imp(n >= 0, sfold_f(F, M, n + 1) == sumset_f(padset_f(sfold_f(F, M, n), sel(M, n)), sel(F, n))),
           patterns=[sfold_hint(F, M, n)]))
    sk_sf = z3.Function("sk_sfold", SS, IS, SS, IS, I, I)
    add("sfold-ext", "Lean Layout.sfold_congr: the structure layout depends only on the sets and alignments of the first n fields",
        FA([F, M, G, N, n], Or(And(0 <= sk_sf(F, M, G, N, n), sk_sf(F, M, G, N, n) < n,
                                   Or(sel(F, sk_sf(F, M, G, N, n)) != sel(G, sk_sf(F, M, G, N, n)),
                                      sel(M, sk_sf(F, M, G, N, n)) != sel(N, sk_sf(F, M, G, N, n)))),
                               sfold_f(F, M, n) == sfold_f(G, N, n)),
           patterns=[MP(sfold_f(F, M, n), sfold_f(G, N, n))]))
    add("sfold-one", "Lean Layout.sfold_one: the first field of a structure is never padded, SFold [f] = L f",
        FA([F, M], Imp(sel(M, 0) >= 1, sfold_f(F, M, 1) == sel(F, 0)), patterns=[sfold_f(F, M, 1)]))
    add("minmap", "definitional", FA([F, i], sel(minmap(F), i) == smin(sel(F, i)), patterns=[sel(minmap(F), i)]))
    add("maxmap", "definitional", FA([F, i], sel(maxmap(F), i) == smax(sel(F, i)), patterns=[sel(maxmap(F), i)]))

    # ---- extensionality of the sequence-indexed functions on the first n entries (pure logic)
    add("nsum-ext", "congruence: nsum depends on the first n entries only (Lean Bounds.nsum_congr)",
        FA([F, G, n], Or(And(0 <= sk_ext(F, G, n), sk_ext(F, G, n) < n, sel(F, sk_ext(F, G, n)) != sel(G, sk_ext(F, G, n))),
                         nsum(F, n) == nsum(G, n)), patterns=[MP(nsum(F, n), nsum(G, n))]))
    add("unions-ext", "congruence",
        FA([F, G, n], Or(And(0 <= sk_ext(F, G, n), sk_ext(F, G, n) < n, sel(F, sk_ext(F, G, n)) != sel(G, sk_ext(F, G, n))),
                         unions_f(F, n) == unions_f(G, n)), patterns=[MP(unions_f(F, n), unions_f(G, n))]))
    for fn_, nm in ((sumseq, "sumseq"), (minseq, "minseq"), (maxseq, "maxseq")):
        add(nm + "-ext", "congruence (List.sum / fold over pointwise equal lists)",
            FA([M, N, n], Or(And(0 <= sk_seq(M, N, n), sk_seq(M, N, n) < n, sel(M, sk_seq(M, N, n)) != sel(N, sk_seq(M, N, n))),
                             fn_(M, n) == fn_(N, n)), patterns=[MP(fn_(M, n), fn_(N, n))]))
    add("minseq-def", "definitional: minimum of a non-empty list",
        FA([M, n], Imp(n >= 1, And(0 <= w_minseq(M, n), w_minseq(M, n) < n, minseq(M, n) == sel(M, w_minseq(M, n)))),
           patterns=[minseq(M, n)]))
    add("minseq-le", "definitional",
        FA([M, n, i], Imp(And(0 <= i, i < n), minseq(M, n) <= sel(M, i)), patterns=[MP(minseq(M, n), sel(M, i))]))
    add("minmaxseq-first", "definitional instances (i = 0) of minseq-le / maxseq-ge",
        FA([M, n], Imp(n >= 1, And(minseq(M, n) <= sel(M, 0), maxseq(M, n) >= sel(M, 0))),
           patterns=[minseq(M, n), maxseq(M, n)]))
    add("maxseq-def", "definitional: maximum of a non-empty list",
        FA([M, n], Imp(n >= 1, And(0 <= w_maxseq(M, n), w_maxseq(M, n) < n, maxseq(M, n) == sel(M, w_maxseq(M, n)))),
           patterns=[maxseq(M, n)]))
    add("maxseq-ge", "definitional",
        FA([M, n, i], Imp(And(0 <= i, i < n), maxseq(M, n) >= sel(M, i)), patterns=[MP(maxseq(M, n), sel(M, i))]))

    # ---- well-formedness: non-empty finite set of naturals (Finset N, Nonempty in Lean)
    add("wf-elim", "definitional: wfset A := A is a non-empty finite set of naturals; smin/smax are its least/greatest element",
        FA([A], Imp(wf(A), And(sel(A, w_wf(A)), sel(A, smin(A)), sel(A, smax(A)), smin(A) >= 0, smin(A) <= smax(A))),
           patterns=[wf(A)]))
    add("wf-bounds", "definitional (Finset.min'_le, Finset.le_max')",
        FA([A, x], Imp(And(wf(A), sel(A, x)), And(x >= 0, smin(A) <= x, x <= smax(A))), patterns=[MP(wf(A), sel(A, x))]))
    add("wf-intro", "definitional: a finite (Python) set that is non-empty and has no negative element is well formed",
        FA([A, x], Imp(And(finite(A), sel(A, x), Not(And(sel(A, w_neg(A)), w_neg(A) < 0))), wf(A)),
           patterns=[MP(finite(A), sel(A, x))]))
    add("wf-finite", "definitional", FA([A], Imp(wf(A), finite(A)), patterns=[wf(A)]))
    add("wf-modset", "closure: image of a non-empty finite set of naturals under (. % d)  (Finset.Nonempty.image)",
        FA([A, d], Imp(And(wf(A), d >= 1), wf(modset_f(A, d))), patterns=[modset_f(A, d)]))
    add("wf-padset", "closure (Finset.Nonempty.image, Basic.le_pad)",
        FA([A, r], Imp(And(wf(A), r >= 1), wf(padset_f(A, r))), patterns=[padset_f(A, r)]))
    add("wf-sumset", "closure (Lean Bounds.sumset_nonempty)",
        FA([A, Bs], Imp(And(wf(A), wf(Bs)), wf(sumset_f(A, Bs))), patterns=[sumset_f(A, Bs)]))
    add("wf-kfold", "closure (Lean Bounds.kfold_nonempty)",
        FA([A, k], Imp(And(wf(A), k >= 0), wf(kfold(A, k))), patterns=[kfold(A, k)]))
    add("wf-rangefold", "closure (Lean Bounds.rangefold_nonempty)",
        FA([A, k], Imp(And(wf(A), k >= 0), wf(rangefold_f(A, k))), patterns=[rangefold_f(A, k)]))
    add("wf-singleton", "closure", FA([a], Imp(a >= 0, wf(singleton_f(a))), patterns=[singleton_f(a)]))
    add("wf-nsum", "closure (Lean Bounds.nsum_nonempty)",
        FA([F, n], Imp(n >= 0, Or(And(0 <= sk_wf(F, n), sk_wf(F, n) < n, Not(wf(sel(F, sk_wf(F, n))))), wf(nsum(F, n)))),
           patterns=[nsum(F, n)]))
    add("wf-unions", "closure (a non-empty union of non-empty finite sets)",
        FA([F, n], Imp(n >= 1, Or(And(0 <= sk_wf(F, n), sk_wf(F, n) < n, Not(wf(sel(F, sk_wf(F, n))))), wf(unions_f(F, n)))),
           patterns=[unions_f(F, n)]))
    add("wf-D", "interface invariant of Operator: D(op) is a non-empty finite set of naturals "
                "(established by every constructor: obligations inv#wf)",
        FA([z3.Const("o", V.RefSort)], wf(D_uf(z3.Const("o", V.RefSort))), patterns=[D_uf(z3.Const("o", V.RefSort))]))

    # ---- lemmas proved in Lean
    add("modset-nsum", "Lean Basic.modset_nsum (applied to both lists): residues of an n-ary sum depend only on the "
                       "residues of the operands",
        FA([F, G, n, d], Imp(And(d >= 1, n >= 0),
                             Or(And(0 <= sk_nsum(F, G, n, d), sk_nsum(F, G, n, d) < n,
                                    modset_f(sel(F, sk_nsum(F, G, n, d)), d) != modset_f(sel(G, sk_nsum(F, G, n, d)), d)),
                                modset_f(nsum(F, n), d) == modset_f(nsum(G, n), d))),
           patterns=[MP(modset_f(nsum(F, n), d), nsum(G, n))]))
    add("rep-mod", "Lean Sumset.repetition_modulo_correct",
        FA([A, d, k, k2], Imp(And(d >= 1, wf(A), k >= 0, k2 >= 0,
                                  Or(k2 == k, And(d - 1 <= k2, d - 1 <= k, pmod(k2, d) == pmod(k, d)))),
                              modset_f(kfold(modset_f(A, d), k2), d) == modset_f(kfold(A, k), d)),
           patterns=[MP(kfold(modset_f(A, d), k2), kfold(A, k))]))
    add("range-rep-mod", "Lean Sumset.range_repetition_modulo_correct",
        FA([A, d, k, k2], Imp(And(d >= 1, k >= 0, k2 >= 0, Or(k2 == k, And(d - 1 <= k2, d - 1 <= k))),
                              modset_f(rangefold_f(modset_f(A, d), k2), d) == modset_f(rangefold_f(A, k), d)),
           patterns=[MP(rangefold_f(modset_f(A, d), k2), rangefold_f(A, k))]))
    add("kfold-bounds", "Lean Basic.kfold_bounds with lo = smin A, hi = smax A",
        FA([A, k, x], Imp(And(wf(A), k >= 0, sel(kfold(A, k), x)), And(k * smin(A) <= x, x <= k * smax(A))),
           patterns=[sel(kfold(A, k), x)]))
    add("kfold-mem-mul", "Lean Basic.kfold_mem_mul",
        FA([A, k, x], Imp(And(sel(A, x), k >= 0), sel(kfold(A, k), k * x)), patterns=[MP(sel(A, x), kfold(A, k))]))
    add("rangefold-bounds", "Lean Basic.zero_mem_rangefold, rangefold_le, max_mem_rangefold",
        FA([A, k], Imp(And(wf(A), k >= 0), And(sel(rangefold_f(A, k), 0), sel(rangefold_f(A, k), k * smax(A)))),
           patterns=[rangefold_f(A, k)]))
    add("rangefold-le", "Lean Basic.rangefold_le with hi = smax A",
        FA([A, k, x], Imp(And(wf(A), k >= 0, sel(rangefold_f(A, k), x)), x <= k * smax(A)),
           patterns=[sel(rangefold_f(A, k), x)]))
    add("nsum-bounds", "Lean Bounds.nsum_bounds with f = smin, g = smax",
        FA([F, n, x], Imp(And(n >= 0, sel(nsum(F, n), x)),
                          Or(And(0 <= sk_wf(F, n), sk_wf(F, n) < n, Not(wf(sel(F, sk_wf(F, n))))),
                             And(sumseq(minmap(F), n) <= x, x <= sumseq(maxmap(F), n)))),
           patterns=[sel(nsum(F, n), x)]))
    add("nsum-mem", "Lean Bounds.nsum_mem_sum with c = smin and c = smax",
        FA([F, n], Imp(n >= 0, Or(And(0 <= sk_wf(F, n), sk_wf(F, n) < n, Not(wf(sel(F, sk_wf(F, n))))),
                                  And(sel(nsum(F, n), sumseq(minmap(F), n)), sel(nsum(F, n), sumseq(maxmap(F), n))))),
           patterns=[nsum(F, n)]))

    # ---- singletons, multiples, identities
    add("multiples-in", "definitional: multiples a n = {0, a, 2a, ..., n*a}",
        FA([a, n, i], Imp(And(0 <= i, i <= n), sel(mults_f(a, n), i * a)), patterns=[MP(mults_f(a, n), w_id(i))]))
    add("multiples-out", "definitional",
        FA([a, n, y], Imp(sel(mults_f(a, n), y), And(0 <= w_mul(a, n, y), w_mul(a, n, y) <= n, y == w_mul(a, n, y) * a)),
           patterns=[sel(mults_f(a, n), y)]))
    add("multiples-ends", "definitional instances (j = 0 and j = n)",
        FA([a, n], Imp(n >= 0, And(sel(mults_f(a, n), 0), sel(mults_f(a, n), n * a))), patterns=[mults_f(a, n)]))
    add("rangefold-singleton", "Lean Bounds.mem_rangefold_singleton",
        FA([a, n], Imp(n >= 0, rangefold_f(singleton_f(a), n) == mults_f(a, n)), patterns=[rangefold_f(singleton_f(a), n)]))
    add("kfold-singleton", "Lean Bounds.kfold_singleton",
        FA([a, k], Imp(k >= 0, kfold(singleton_f(a), k) == singleton_f(k * a)), patterns=[kfold(singleton_f(a), k)]))
    add("sumset-zero-left", "Lean Bounds.sumset_zero_left", FA([A], sumset_f(singleton_f(0), A) == A,
                                                              patterns=[sumset_f(singleton_f(0), A)]))
    add("sumset-zero-right", "Lean Bounds.sumset_zero_right", FA([A], sumset_f(A, singleton_f(0)) == A,
                                                                patterns=[sumset_f(A, singleton_f(0))]))
    add("padset-singleton", "image of a singleton (Finset.image_singleton)",
        FA([a, r], padset_f(singleton_f(a), r) == singleton_f(pad_f(r, a)), patterns=[padset_f(singleton_f(a), r)]))
    add("padset-of-aligned", "Lean Basic.padset_of_aligned",
        FA([A, r], Imp(And(r >= 1, wf(A), aligned(A, r)), padset_f(A, r) == A), patterns=[padset_f(A, r)]))
    add("smin-singleton", "min/max of a singleton", FA([a], And(smin(singleton_f(a)) == a, smax(singleton_f(a)) == a),
                                                       patterns=[singleton_f(a)]))
    add("multiples-minmax", "least / greatest multiple (a >= 0)",
        FA([a, n], Imp(And(a >= 0, n >= 0), And(smin(mults_f(a, n)) == 0, smax(mults_f(a, n)) == n * a)),
           patterns=[mults_f(a, n)]))
    add("sumset-minmax", "Lean Bounds.nsum_bounds / nsum_mem_sum for the two-element list (Bounds.nsum_pair)",
        FA([A, Bs], Imp(And(wf(A), wf(Bs)), And(smin(sumset_f(A, Bs)) == smin(A) + smin(Bs),
                                                 smax(sumset_f(A, Bs)) == smax(A) + smax(Bs))),
           patterns=[sumset_f(A, Bs)]))
    add("wf-multiples", "closure", FA([a, n], Imp(And(a >= 0, n >= 0), wf(mults_f(a, n))), patterns=[mults_f(a, n)]))

    # ---- alignment (every element is a multiple of a)
    add("aligned-sumset", "Lean Basic.aligned_sumset",
        FA([A, Bs, a], Imp(And(aligned(A, a), aligned(Bs, a)), aligned(sumset_f(A, Bs), a)),
           patterns=[aligned(sumset_f(A, Bs), a)]))
    add("aligned-kfold", "Lean Basic.aligned_kfold",
        FA([A, k, a], Imp(And(aligned(A, a), k >= 0), aligned(kfold(A, k), a)), patterns=[aligned(kfold(A, k), a)]))
    add("aligned-rangefold", "Lean Basic.aligned_rangefold",
        FA([A, k, a], Imp(And(aligned(A, a), k >= 0), aligned(rangefold_f(A, k), a)),
           patterns=[aligned(rangefold_f(A, k), a)]))
    add("aligned-padset", "Lean Basic.aligned_padset",
        FA([A, r], Imp(r >= 1, aligned(padset_f(A, r), r)), patterns=[padset_f(A, r)]))
    add("aligned-singleton", "Lean Bounds.aligned_singleton",
        FA([x, a], Imp(And(a >= 1, pmod(x, a) == 0), aligned(singleton_f(x), a)), patterns=[aligned(singleton_f(x), a)]))
    add("aligned-one", "Lean Bounds.aligned_of_dvd with 1 | a", FA([A], aligned(A, 1), patterns=[aligned(A, 1)]))
    add("aligned-elim", "definitional: aligned A a := every element of A is a multiple of a",
        FA([A, a, x], Imp(And(aligned(A, a), sel(A, x), a >= 1), pmod(x, a) == 0), patterns=[MP(aligned(A, a), sel(A, x))]))
    add("aligned-intro", "definitional (skolemised converse)",
        FA([A, a], Imp(And(a >= 1, Or(Not(sel(A, w_al(A, a))), pmod(w_al(A, a), a) == 0)), aligned(A, a)),
           patterns=[aligned(A, a)]))
    return ax


# --------------------------------------------------------------------------------------------------------------
def lcm_term(ctx, a, b):
    return lcm_f(a, b)


def bit_length_term(ctx, lib, n):
    """n.bit_length() for symbolic n >= 0: the least w with n < 2**w, for w in 0..64 (wider: engine limit)."""
    w = ctx.fresh("bitlen", I)
    cases = [z3.And(n == 0, w == 0)]
    for k in range(1, 130):
        cases.append(z3.And(n >= 2 ** (k - 1), n < 2 ** k, w == k))
    ctx.assume(z3.Implies(z3.And(n >= 0, n < 2 ** 129), z3.Or(*cases)))
    ctx.assume(z3.Implies(n >= 2 ** 129, w >= 130))
    ctx.assume(z3.Implies(n < 0, w == z3.IntVal(-1)))  # not used for negative values (obligation elsewhere)
    return w


def seq_of_sets(ctx, sets):
    arr = z3.K(I, z3.K(I, z3.BoolVal(False)))
    for idx, s in enumerate(sets):
        arr = z3.Store(arr, idx, s.term)
    return V.SymSeq(arr, z3.IntVal(len(sets)), V.IntSet, fresh=True)


# --------------------------------------------------------------------------------------------------------------
# polymorphic spec functions (SMT term builders / native brute force)
def _t(x):
    if isinstance(x, V.SymSet):
        return x.term
    if isinstance(x, V.PySet):
        t = z3.K(I, z3.BoolVal(False))
        for it in x.items:
            t = z3.Store(t, it, z3.BoolVal(True))
        return t
    if isinstance(x, (set, frozenset)):
        t = z3.K(I, z3.BoolVal(False))
        for it in sorted(x):
            t = z3.Store(t, it, z3.BoolVal(True))
        return t
    return x


def _i(x):
    if isinstance(x, bool):
        return z3.IntVal(int(x))
    if isinstance(x, int):
        return z3.IntVal(x)
    return x


def native_pad(r, x):
    return ((x + r - 1) // r) * r


def pad(r, x):
    if smt():
        return pad_f(_i(r), _i(x))
    return native_pad(r, x)


def _lazy(A):
    return hasattr(A, "residues") and hasattr(A, "kind")


def modset(A, d):
    if smt():
        return V.SymSet(modset_f(_t(A), _i(d)))
    if _lazy(A):
        return A.residues(d)
    return frozenset(x % d for x in A)


def padset(A, r):
    if smt():
        return V.SymSet(padset_f(_t(A), _i(r)))
    if _lazy(A):
        return type(A)("pad", A, r)
    return frozenset(native_pad(r, x) for x in A)


def sumset(A, Bv):
    if smt():
        return V.SymSet(sumset_f(_t(A), _t(Bv)))
    if _lazy(A) or _lazy(Bv):
        cls = type(A) if _lazy(A) else type(Bv)
        wrap = lambda X: X if _lazy(X) else cls("set", frozenset(X))
        return cls("cat", [wrap(A), wrap(Bv)])
    return frozenset(x + y for x in A for y in Bv)


def native_kfold(A, k):
    out = frozenset([0])
    for _ in range(k):
        out = frozenset(x + y for x in out for y in A)
    return out


def kfold_s(A, k):
    if smt():
        return V.SymSet(kfold(_t(A), _i(k)))
    if _lazy(A):
        return type(A)("rep", A, k)
    if k < 0:
        return frozenset()
    return native_kfold(A, k)


def rangefold(A, K):
    if smt():
        return V.SymSet(rangefold_f(_t(A), _i(K)))
    if _lazy(A):
        return type(A)("rng", A, K)
    out = set()
    cur = frozenset([0])
    out |= cur
    for _ in range(K):
        cur = frozenset(x + y for x in cur for y in A)
        out |= cur
    return frozenset(out)


def singleton(a):
    if smt():
        return V.SymSet(singleton_f(_i(a)))
    return frozenset([a])


def SETEQ(A, Bv):
    if smt():
        return _t(A) == _t(Bv)
    la, lb = _lazy(A), _lazy(Bv)
    if la and lb:
        try:
            return A.elements() == Bv.elements()
        except OverflowError:
            # too large to enumerate: compare the exact analytic answers instead (min, max, residues for many divisors)
            return A.min() == Bv.min() and A.max() == Bv.max() and all(
                A.residues(d) == Bv.residues(d) for d in (1, 2, 3, 4, 5, 7, 8, 9, 16, 32, 33, 64, 65, 100))
    if la:
        A = A.elements()
    if lb:
        Bv = Bv.elements()
    return frozenset(A) == frozenset(Bv)


def MEM(x, A):
    if smt():
        return z3.Select(_t(A), _i(x))
    return x in A


def SMIN(A):
    if smt():
        return smin(_t(A))
    if _lazy(A):
        return A.min()
    return min(A)


def SMAX(A):
    if smt():
        return smax(_t(A))
    if _lazy(A):
        return A.max()
    return max(A)


def WFSET(A):
    if smt():
        return wf(_t(A))
    if _lazy(A):
        return True
    return len(A) > 0 and all(isinstance(x, int) and x >= 0 for x in A)


def ALIGNED(A, a):
    if smt():
        return aligned(_t(A), _i(a))
    if _lazy(A):
        return A.residues(a) == frozenset([0])
    return all(x % a == 0 for x in A)


def LCM(a, b):
    if smt():
        return lcm_f(_i(a), _i(b))
    import math

    return math.lcm(a, b)


def kfold_unfold(A, k):
    """trigger marker for the prelude axiom kfold-succ at k"""
    return kfold_hint(A.term if isinstance(A, V.SymSet) else A, _i(k))


def sfold_unfold(F, M, n):
    """Trigger atom asking the solver to unfold the definition of SFold at index n (axiom sfold-succ)."""
    return sfold_hint(F, M, _i(n))
