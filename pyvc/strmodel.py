"""
String model for character-level code (C05 check_name, C15 file names): `str.lower`, iteration over the characters of a
symbolic string, membership of a character in a concrete alphabet, `re.compile(<literal>).match`, `int(<str>)`.

Everything is reduced to *regular-expression membership of the whole string* (quantifier-free; z3's derivative based
solver decides these in milliseconds, whereas position-wise encodings come back `unknown`).

Facts about CPython's `str.lower` are not assumed but **computed from the running interpreter** over all 0x110000 code
points (a complete enumeration of a finite domain), once per process:

  * MULTI   : the code points whose lower-case form is longer than one character            (3.11: {U+0130})
  * INV[x]  : for every character x, the code points whose lower-case form is exactly x      (e.g. INV['k'] has U+212A)
  * SIGMA   : U+03A3, whose lower-case form depends on the context (final sigma); both forms are recorded
  * TAIL    : no code point above U+2FFFF (the last code point of SMT-LIB strings) is cased or a decimal digit

ASSUMED (CPython `unicodeobject.c`, documented): `s.lower()` is the concatenation of the lower-case forms of the
characters of `s`, where only U+03A3 depends on its context.

The model is switched on by a specification module (`strmodel.ENABLED = True`); with the flag off the engine behaves as
before (lower() is an uninterpreted function and strings are iterated only when concrete).
"""
from __future__ import annotations
import bisect
import z3
from typing import Any, Dict, List, Optional, Tuple

from . import values as V
from .values import EngineLimit

ENABLED = False
MAXC = 0x2FFFF  # last code point of SMT-LIB strings
PYMAX = 0x10FFFF

ASSUMED = {
    "str.lower (strmodel)": "s.lower() is the concatenation of the lower-case forms of the characters of s; only U+03A3 "
                            "depends on its context. The per-character table (incl. the multi-character forms and the "
                            "non-ASCII characters that fold into ASCII) is computed from the running CPython over all "
                            "0x110000 code points at check time, not assumed",
    "re (strmodel)": "re.compile(p).match(s) is not None iff a prefix of s is in L(p); `$` matches at the end or before a "
                     "final newline; \\d / . are the running interpreter's classes (enumerated over all code points); "
                     "the pattern is parsed by the running CPython's own regex parser",
    "str iteration (strmodel)": "iterating a str yields its characters in order; `c in <concrete str>` for a "
                                "one-character c is membership in the set of its characters",
    "SMT-LIB alphabet": "strings are modelled over code points 0..0x2FFFF; code points above (planes 3-16) are checked "
                        "at run time to be uncased non-digits, i.e. to behave like U+2FFFF in every class used",
}


# ----------------------------------------------------------------------------------------------------- range lists
class CharClass:
    """A set of code points as a sorted list of disjoint inclusive ranges."""

    __slots__ = ("ranges",)

    def __init__(self, ranges):
        self.ranges = _norm(ranges)

    @staticmethod
    def of_chars(chars) -> "CharClass":
        return CharClass([(ord(c) if isinstance(c, str) else c,) * 2 for c in chars])

    @staticmethod
    def all() -> "CharClass":
        return CharClass([(0, PYMAX)])

    def __contains__(self, c: int) -> bool:
        i = bisect.bisect_right(self.ranges, (c, PYMAX + 1)) - 1
        return i >= 0 and self.ranges[i][0] <= c <= self.ranges[i][1]

    def union(self, o: "CharClass") -> "CharClass":
        return CharClass(self.ranges + o.ranges)

    def complement(self) -> "CharClass":
        out, prev = [], 0
        for a, b in self.ranges:
            if a > prev:
                out.append((prev, a - 1))
            prev = b + 1
        if prev <= PYMAX:
            out.append((prev, PYMAX))
        return CharClass(out)

    def intersect(self, o: "CharClass") -> "CharClass":
        return self.complement().union(o.complement()).complement()

    def minus(self, o: "CharClass") -> "CharClass":
        return self.intersect(o.complement())

    def size(self) -> int:
        return sum(b - a + 1 for a, b in self.ranges)

    def codes(self):
        for a, b in self.ranges:
            yield from range(a, b + 1)

    def key(self):
        return tuple(self.ranges)

    def to_z3(self):
        """z3 regex of the one-character strings of this class (truncated to the SMT-LIB alphabet)."""
        parts = []
        for a, b in self.ranges:
            if a > MAXC:
                continue
            b = min(b, MAXC)
            parts.append(z3.Range(_sv(a), _sv(b)) if a != b else z3.Re(_sv(a)))
        if not parts:
            return z3.Empty(z3.ReSort(z3.StringSort()))
        if len(parts) == 1:
            return parts[0]
        return z3.Union(*parts)


def _sv(code: int):
    return z3.StringVal(chr(code))


def _norm(ranges):
    rs = sorted((a, b) for a, b in ranges if a <= b)
    out = []
    for a, b in rs:
        if out and a <= out[-1][1] + 1:
            if b > out[-1][1]:
                out[-1] = (out[-1][0], b)
        else:
            out.append((a, b))
    return out


def from_predicate(pred) -> CharClass:
    out, start = [], None
    for c in range(PYMAX + 1):
        if pred(c):
            if start is None:
                start = c
        elif start is not None:
            out.append((start, c - 1))
            start = None
    if start is not None:
        out.append((start, PYMAX))
    return CharClass(out)


# ----------------------------------------------------------------------------------------------------- the table
_TABLE = None
SIGMA = 0x03A3


class Table:
    def __init__(self):
        self.multi: Dict[int, str] = {}
        self.inv: Dict[int, List[int]] = {}
        for c in range(PYMAX + 1):
            low = chr(c).lower()
            if len(low) != 1:
                self.multi[c] = low
            elif ord(low) != c:
                self.inv.setdefault(ord(low), []).append(c)
        # context dependent: final sigma
        self.sigma_forms = sorted({ord(x) for ctxs in ("Σ", "aΣ", "aΣa", "Σa") for x in ctxs.lower()
                                   if x != "a"})
        self.tail_uniform = all(chr(c).lower() == chr(c) and not chr(c).isdecimal() for c in range(MAXC + 1, PYMAX + 1))
        self.simple = CharClass.all().minus(CharClass.of_chars(list(self.multi) + [SIGMA]))
        self._hinv_cache: Dict[Any, CharClass] = {}
        self._cased_targets = CharClass.of_chars(list(self.inv.keys()))
        self._cased_sources = CharClass.of_chars([c for v in self.inv.values() for c in v])

    def lower1_preimage(self, cls: CharClass) -> CharClass:
        """{ c simple (single-character, context-free lower-case form) | lower(c) in cls }."""
        k = cls.key()
        if k in self._hinv_cache:
            return self._hinv_cache[k]
        # characters that are their own lower-case form: cls minus the characters that change under lower()
        changed = self._cased_sources
        own = cls.minus(changed).intersect(self.simple)
        extra = []
        for tgt in self._cased_targets.intersect(cls).codes():
            extra.extend(self.inv[tgt])
        r = own.union(CharClass.of_chars(extra)).intersect(self.simple)
        self._hinv_cache[k] = r
        return r

    def sigma_in(self, cls: CharClass) -> Optional[bool]:
        """Is the lower-case form of U+03A3 in cls?  None when its two context forms disagree."""
        vals = {f in cls for f in self.sigma_forms}
        return vals.pop() if len(vals) == 1 else None


def table() -> Table:
    global _TABLE
    if _TABLE is None:
        _TABLE = Table()
        if not _TABLE.tail_uniform:
            raise EngineLimit("a code point above U+2FFFF is cased or a digit: the SMT-LIB alphabet abstraction is not faithful")
    return _TABLE


# ----------------------------------------------------------------------------------------------------- term shapes
LOWER_FN = "str.lower"
LOWFIRST_FN = "str.lower.first"      # first character of lower(s)           (s non-empty)
LOW1_FN = "str.lower.char"           # lower-case form of a simple character (one character)


def lower_arg(t):
    """s if t is the application str.lower(s)."""
    if isinstance(t, z3.ExprRef) and z3.is_app(t) and t.num_args() == 1 and t.decl().kind() == z3.Z3_OP_UNINTERPRETED \
            and t.decl().name() == LOWER_FN:
        return t.arg(0)
    return None


def uf_arg(t, name):
    if isinstance(t, z3.ExprRef) and z3.is_app(t) and t.num_args() == 1 and t.decl().kind() == z3.Z3_OP_UNINTERPRETED \
            and t.decl().name() == name:
        return t.arg(0)
    return None


def char_at_arg(t):
    """(s, i) if t is the one-character substring s[i] (str.at / str.substr(s, i, 1))."""
    if not isinstance(t, z3.ExprRef) or not z3.is_app(t):
        return None
    k = t.decl().kind()
    if k == z3.Z3_OP_SEQ_AT:
        return t.arg(0), t.arg(1)
    if k == z3.Z3_OP_SEQ_EXTRACT and z3.is_int_value(z3.simplify(t.arg(2))) and z3.simplify(t.arg(2)).as_long() == 1:
        return t.arg(0), t.arg(1)
    return None


CHAR_PREFIX = "ch!"


def is_char_const(t) -> bool:
    """A constant introduced by exec_for_string for one character of a string (length 1 by construction)."""
    return isinstance(t, z3.ExprRef) and z3.is_const(t) and t.decl().kind() == z3.Z3_OP_UNINTERPRETED \
        and z3.is_string(t) and t.decl().name().startswith(CHAR_PREFIX)


def ANYSTAR():
    return z3.Star(z3.AllChar(z3.ReSort(z3.StringSort())))


def ANYCHAR():
    return z3.AllChar(z3.ReSort(z3.StringSort()))


# ----------------------------------------------------------------------------------------------------- operations
def truth_of_lower(s):
    """bool(s.lower()): no character has an empty lower-case form (checked by the table: every form has length >= 1)."""
    return z3.Length(s) > 0


def first_char(engine, ctx, o, idx):
    """o[idx] for a symbolic string o and a concrete index; None when not handled here."""
    s = lower_arg(o)
    if s is None or not (isinstance(idx, int) and idx == 0):
        return None
    if ctx.decide(z3.Length(s) <= 0):
        raise engine.lib.raise_ext("IndexError")
    return engine.uf(LOWFIRST_FN, z3.StringSort(), z3.StringSort())(s)


def first_preimage(cls: CharClass) -> CharClass:
    """{ c | the first character of the lower-case form of c (in any context) is in cls }."""
    t = table()
    r = t.lower1_preimage(cls)
    extra = [c for c, low in t.multi.items() if ord(low[0]) in cls]
    sg = [f in cls for f in t.sigma_forms]
    if any(sg) and not all(sg):
        raise EngineLimit("first character class separates the two lower-case forms of U+03A3")
    if sg and all(sg):
        extra.append(SIGMA)
    return r.union(CharClass.of_chars(extra))


def all_preimage(cls: CharClass) -> CharClass:
    """{ c | every character of the lower-case form of c (in any context) is in cls }."""
    t = table()
    r = t.lower1_preimage(cls)
    extra = [c for c, low in t.multi.items() if all(ord(x) in cls for x in low)]
    sg = [f in cls for f in t.sigma_forms]
    if any(sg) and not all(sg):
        raise EngineLimit("class separates the two lower-case forms of U+03A3")
    if sg and all(sg):
        extra.append(SIGMA)
    return r.union(CharClass.of_chars(extra))


def char_in_concrete(engine, ctx, container: str, item):
    """`item in container` for a concrete container and a one-character symbolic item; None when not handled."""
    cls = CharClass.of_chars(container)
    s = uf_arg(item, LOWFIRST_FN)
    if s is not None:
        # first character of lower(s), s non-empty on this path
        return z3.InRe(s, z3.Concat(first_preimage(cls).to_z3(), ANYSTAR()))
    c = uf_arg(item, LOW1_FN)
    if c is not None:
        pre = table().lower1_preimage(cls)
        sg = table().sigma_in(cls)
        if sg is None:
            raise EngineLimit("class separates the two lower-case forms of U+03A3")
        if sg:
            pre = pre.union(CharClass.of_chars([SIGMA]))
        return z3.InRe(c, pre.to_z3())
    if is_char_const(item):
        return z3.InRe(item, cls.to_z3())
    ca = char_at_arg(item)
    if ca is not None:
        s, i = ca
        i_s = z3.simplify(i)
        if z3.is_int_value(i_s) and i_s.as_long() == 0:
            # "" in container is True (an index beyond the end gives the empty string)
            return z3.Or(z3.Length(s) == 0, z3.InRe(s, z3.Concat(cls.to_z3(), ANYSTAR())))
        return z3.Or(item == z3.StringVal(""), z3.InRe(item, cls.to_z3()))
    return None


def eq_literal(engine, ctx, lit: str, term):
    """lit == term where term = lower(s); None when not handled."""
    s = lower_arg(term)
    if s is None:
        return None
    t = table()
    if any(all(x in lit for x in low) for low in t.multi.values()):
        raise EngineLimit("literal %r can be produced by a multi-character lower-case form" % lit)
    parts = []
    for ch in lit:
        cls = CharClass.of_chars(ch)
        pre = t.lower1_preimage(cls)
        sg = [f in cls for f in t.sigma_forms]
        if any(sg):
            if len(lit) > 1 and not all(sg):
                raise EngineLimit("literal contains a lower-case sigma (context dependent)")
            pre = pre.union(CharClass.of_chars([SIGMA]))
        parts.append(pre.to_z3())
    if not parts:
        return z3.Length(s) == 0
    return z3.InRe(s, z3.Concat(*parts) if len(parts) > 1 else parts[0])


# ----------------------------------------------------------------------------------------------------- regexes
class RegexV:
    """re.compile(<concrete pattern>): `node` is a small regex AST over CharClass leaves; `dollar`: pattern ends with $."""

    def __init__(self, pattern: str, node, dollar: bool):
        self.pattern = pattern
        self.node = node
        self.dollar = dollar

    def __repr__(self):
        return "<Regex %r>" % self.pattern


_DIGITS = None
_NOT_NL = None


def digits() -> CharClass:
    global _DIGITS
    if _DIGITS is None:
        import re

        d = re.compile(r"\d")
        _DIGITS = from_predicate(lambda c: d.fullmatch(chr(c)) is not None)
    return _DIGITS


def compile_pattern(pattern: str, flags: int = 0) -> RegexV:
    try:
        import re._parser as sre_parse  # py >= 3.11
        import re._constants as sre_c
    except ImportError:  # pragma: no cover
        import sre_parse
        import sre_constants as sre_c
    if flags:
        raise EngineLimit("re.compile with flags")
    tree = sre_parse.parse(pattern)
    items = list(tree)
    dollar = False
    if items and items[-1][0] == sre_c.AT and items[-1][1] == sre_c.AT_END:
        dollar = True
        items = items[:-1]

    def cls_of_in(av):
        neg = False
        acc = CharClass([])
        for op, a in av:
            if op == sre_c.NEGATE:
                neg = True
            elif op == sre_c.LITERAL:
                acc = acc.union(CharClass([(a, a)]))
            elif op == sre_c.RANGE:
                acc = acc.union(CharClass([a]))
            elif op == sre_c.CATEGORY and a == sre_c.CATEGORY_DIGIT:
                acc = acc.union(digits())
            else:
                raise EngineLimit("regex class item %s" % (op,))
        return acc.complement() if neg else acc

    def conv(seq):
        out = []
        for op, av in seq:
            if op == sre_c.LITERAL:
                out.append(("cls", CharClass([(av, av)])))
            elif op == sre_c.ANY:
                out.append(("cls", CharClass.of_chars("\n").complement()))
            elif op == sre_c.IN:
                out.append(("cls", cls_of_in(av)))
            elif op in (sre_c.MAX_REPEAT, sre_c.MIN_REPEAT):
                lo, hi, sub = av
                inner = conv(list(sub))
                if hi == sre_c.MAXREPEAT and lo == 0:
                    out.append(("star", inner))
                elif hi == sre_c.MAXREPEAT and lo == 1:
                    out.append(("cat", [inner, ("star", inner)]))
                elif lo == 0 and hi == 1:
                    out.append(("opt", inner))
                elif hi != sre_c.MAXREPEAT and hi <= 16:
                    out.append(("cat", [inner] * lo + [("opt", inner)] * (hi - lo)))
                else:
                    raise EngineLimit("regex repetition {%s,%s}" % (lo, hi))
            elif op == sre_c.SUBPATTERN:
                out.append(conv(list(av[3])))
            elif op == sre_c.BRANCH:
                out.append(("alt", [conv(list(b)) for b in av[1]]))
            else:
                raise EngineLimit("regex construct %s" % (op,))
        return ("cat", out)

    return RegexV(pattern, conv(items), dollar)


def regex_to_z3(node, cls_map=None):
    kind = node[0]
    if kind == "cls":
        c = node[1]
        return (cls_map(c) if cls_map else c).to_z3()
    if kind == "cat":
        parts = [regex_to_z3(x, cls_map) for x in node[1]]
        if not parts:
            return z3.Re(z3.StringVal(""))
        return z3.Concat(*parts) if len(parts) > 1 else parts[0]
    if kind == "star":
        return z3.Star(regex_to_z3(node[1], cls_map))
    if kind == "opt":
        return z3.Option(regex_to_z3(node[1], cls_map))
    if kind == "alt":
        parts = [regex_to_z3(x, cls_map) for x in node[1]]
        return z3.Union(*parts) if len(parts) > 1 else parts[0]
    raise EngineLimit("regex node %s" % kind)


def _classes(node, acc):
    if node[0] == "cls":
        acc.append(node[1])
    elif node[0] in ("cat", "alt"):
        for x in node[1]:
            _classes(x, acc)
    else:
        _classes(node[1], acc)


def match_term(engine, ctx, rx: RegexV, subject):
    """Truth of rx.match(subject) as a z3 Bool (prefix match; `$` = end or before a final newline)."""
    if isinstance(subject, str):
        import re

        return re.compile(rx.pattern).match(subject) is not None
    if not (isinstance(subject, z3.ExprRef) and z3.is_string(subject)):
        raise EngineLimit("regex match against %r" % (subject,))
    s = lower_arg(subject)
    tail = z3.Option(z3.Re(z3.StringVal("\n"))) if rx.dollar else ANYSTAR()
    if s is None:
        return z3.InRe(subject, z3.Concat(regex_to_z3(rx.node), tail))
    # subject = lower(s): character-wise preimage.  Exact when s has no character with a multi-character lower-case
    # form; otherwise the result is left unconstrained (a fresh Boolean).
    t = table()
    cl: List[CharClass] = []
    _classes(rx.node, cl)
    for c in cl:
        if t.sigma_in(c) is None:
            raise EngineLimit("regex class separates the two lower-case forms of U+03A3")

    def pre(c):
        r = t.lower1_preimage(c)
        return r.union(CharClass.of_chars([SIGMA])) if t.sigma_in(c) else r

    nl_pre = pre(CharClass.of_chars("\n"))
    tail2 = z3.Option(nl_pre.to_z3()) if rx.dollar else ANYSTAR()
    exact = z3.InRe(s, z3.Concat(regex_to_z3(rx.node, pre), tail2))
    no_multi = z3.InRe(s, z3.Star(CharClass.of_chars(list(t.multi)).complement().to_z3()))
    if not engine.feasible(ctx, z3.Not(no_multi)):
        return exact
    b = ctx.fresh("re.match", z3.BoolSort())
    ctx.assume(z3.Implies(no_multi, b == exact))
    return b


# ----------------------------------------------------------------------------------------------------- iteration
def is_symbolic_string(v) -> bool:
    return isinstance(v, z3.ExprRef) and z3.is_string(v)


def pred_to_class(cond, c):
    """Translate a Boolean term over the one-character string constant `c` into a z3 regex of one-character strings;
       None if the term has an atom that is not a membership / (dis)equality of c."""
    one = ANYCHAR()

    def go(t):
        if z3.is_true(t):
            return one
        if z3.is_false(t):
            return z3.Empty(z3.ReSort(z3.StringSort()))
        if z3.is_and(t):
            parts = [go(x) for x in t.children()]
            if any(p is None for p in parts):
                return None
            return z3.Intersect(*parts) if len(parts) > 1 else parts[0]
        if z3.is_or(t):
            parts = [go(x) for x in t.children()]
            if any(p is None for p in parts):
                return None
            return z3.Union(*parts) if len(parts) > 1 else parts[0]
        if z3.is_not(t):
            p = go(t.arg(0))
            if p is None:
                return None
            return z3.Intersect(z3.Complement(p), one)
        if z3.is_app(t) and t.decl().kind() == z3.Z3_OP_SEQ_IN_RE and t.arg(0).eq(c):
            return z3.Intersect(t.arg(1), one)
        if z3.is_eq(t):
            a, b = t.arg(0), t.arg(1)
            if b.eq(c):
                a, b = b, a
            if a.eq(c) and z3.is_string_value(b):
                sv = b.as_string()
                if b.eq(z3.StringVal("")):
                    return z3.Empty(z3.ReSort(z3.StringSort()))
                return z3.Intersect(z3.Re(b), one)
        return None

    return go(cond)


def exec_for_string(engine, ctx, st, env, it):
    """`for ch in <symbolic string>: body` where the body has no effect other than possibly raising.

       Elements: for a plain string s the characters s[i]; for lower(s) the lower-case form of each simple character
       s[i] (one character, `str.lower.char(s[i])`) and - concretely - every character of every multi-character form.
       Either the body raises for some element (witness paths), or it completes normally for all elements; in the
       latter case, if the condition for completing normally is a predicate P of the source character alone, the
       summary is the regular-expression fact  s in { c | P(c) }*  (equivalent to forall i. P(s[i]))."""
    from .loops import (summarise_block, mutates_outer_collections, Binding, mk_forall, ContinueSig, BreakSig, ReturnSig,
                        PathEnd)

    if st.orelse:
        raise EngineLimit("for/else over a symbolic string")
    if mutates_outer_collections(st.body, env):
        raise EngineLimit("loop over the characters of a symbolic string that builds a collection")
    s = lower_arg(it)
    lowered = s is not None
    if not lowered:
        s = it
    t = table() if lowered else None
    before = set(env.vars.keys())
    snapshot = dict(env.vars)

    def run_body(value):
        engine.assign(ctx, st.target, value, env)
        try:
            engine.exec_block(ctx, st.body, env)
        except ContinueSig:
            pass
        except BreakSig:
            raise EngineLimit("break in a loop over a symbolic string")
        except ReturnSig:
            raise EngineLimit("return inside a loop over a symbolic string")

    def cleanup():
        for n in list(env.vars.keys()):
            if n not in before:
                del env.vars[n]
            elif env.vars[n] is not snapshot[n]:
                raise EngineLimit("variable %r rebound in a loop over a symbolic string" % n)

    # element kinds: (guard on the source character term, value)
    def kinds(src_char):
        if not lowered:
            return [(None, src_char)]
        low1 = engine.uf(LOW1_FN, z3.StringSort(), z3.StringSort())
        out = [(z3.InRe(src_char, t.simple.union(CharClass.of_chars([SIGMA])).to_z3()), low1(src_char))]
        for m, low in sorted(t.multi.items()):
            for ch in low:
                out.append((src_char == _sv(m), ch))
        return out

    n_kinds = len(kinds(z3.StringVal("a")))
    which = ctx.choose(1 + n_kinds)
    if which > 0:
        # witness path: `src` is some character of s
        from .symexec import PyRaise

        src = ctx.fresh(CHAR_PREFIX + "w", z3.StringSort())
        ctx.assume(z3.And(z3.Length(src) == 1, z3.Contains(s, src)))
        guard, value = kinds(src)[which - 1]
        mark = len(ctx.pc)
        if guard is not None:
            ctx.assume(guard)
        try:
            run_body(value)
        except PyRaise:
            # whole-string consequence of what this path knows about the character: s in ANY* W ANY*
            parts = []
            for f in ctx.pc[mark:]:
                if z3.is_quantifier(f):
                    continue
                cls = pred_to_class(z3.simplify(f), src)
                if cls is not None:
                    parts.append(cls)
            if parts:
                w = z3.Intersect(*parts) if len(parts) > 1 else parts[0]
                ctx.assume(z3.InRe(s, z3.Concat(ANYSTAR(), w, ANYSTAR())))
            raise
        raise PathEnd()
    # all elements complete normally: the body is summarised for an arbitrary character `src` of s
    ctx.counter += 1
    src = z3.Const("%sa!%d" % (CHAR_PREFIX, ctx.counter), z3.StringSort())
    classes = []
    generic = []
    for guard, value in kinds(src):
        b = Binding(value, [z3.Length(src) == 1] + ([guard] if guard is not None else []), [src], [], ordered=True)
        normal = summarise_block(engine, ctx, b, lambda value=value: run_body(value), cleanup)
        cond = z3.simplify(z3.Or(*normal)) if normal else z3.BoolVal(False)
        # a source character is fine iff every kind of element it produces completes normally
        full = z3.Or(z3.Not(guard), cond) if guard is not None else cond
        generic.append(full)
        classes.append(pred_to_class(z3.simplify(full), src))
    if all(c is not None for c in classes):
        ctx.assume(z3.InRe(s, z3.Star(z3.Intersect(*classes) if len(classes) > 1 else classes[0])))
    else:
        for full in generic:
            v = z3.FreshConst(z3.IntSort(), "e")
            body = z3.substitute(full, (src, z3.SubString(s, v, 1)))
            ctx.assume(mk_forall([v], z3.Implies(z3.And(v >= 0, v < z3.Length(s)), body)))
    cleanup()


_SPACES = None


def spaces() -> CharClass:
    global _SPACES
    if _SPACES is None:
        _SPACES = from_predicate(lambda c: chr(c).isspace())
    return _SPACES


_ISDIGIT = None


def isdigit_class() -> CharClass:
    global _ISDIGIT
    if _ISDIGIT is None:
        _ISDIGIT = from_predicate(lambda c: chr(c).isdigit())
    return _ISDIGIT


def str_isascii(s):
    """s.isascii(): every character is below U+0080 (true for the empty string)"""
    return z3.InRe(s, z3.Star(CharClass([(0, 0x7F)]).to_z3()))


def str_isdigit(s):
    """s.isdigit(): non-empty and every character is a digit (the running interpreter's str.isdigit, enumerated over all
    code points)"""
    return z3.InRe(s, z3.Plus(isdigit_class().to_z3()))


ASSUMED["str.isascii / str.isdigit (strmodel)"] = ("s.isascii(): all characters < U+0080; s.isdigit(): non-empty and every "
                                                   "character satisfies the interpreter's per-character isdigit "
                                                   "(enumerated over all code points at check time)")


def py_int_literal_re():
    """The strings int(str) accepts (base 10): optional white space, optional sign, digits with single underscores between
    them, optional white space - with the running interpreter's notion of white space and of decimal digits
    (both enumerated over all code points)."""
    d = digits().to_z3()
    sp = z3.Star(spaces().to_z3())
    sign = z3.Option(z3.Union(z3.Re(z3.StringVal("+")), z3.Re(z3.StringVal("-"))))
    body = z3.Concat(d, z3.Star(z3.Concat(z3.Option(z3.Re(z3.StringVal("_"))), d)))
    return z3.Concat(sp, sign, body, sp)


def py_int_of_str(engine, ctx, s):
    """(accepted, value) of int(s) for a symbolic string: accepted iff s is an integer literal (ASSUMED from the CPython
    documentation of int(); the limit of 4300 digits is outside the model: callers bound the length of s); the value is
    the decimal value for plain ASCII digit strings and an unconstrained integer for the other accepted spellings."""
    ok = z3.InRe(s, py_int_literal_re())
    plain = z3.InRe(s, z3.Plus(z3.Range(z3.StringVal("0"), z3.StringVal("9"))))
    other = engine.uf("int!of-str", z3.StringSort(), z3.IntSort())(s)
    return ok, z3.If(plain, z3.StrToInt(s), other)


ASSUMED["int(str) (strmodel)"] = ("int(s) succeeds iff s is white space, an optional sign, decimal digits (Unicode Nd) with "
                                  "single underscores between them, white space; otherwise ValueError; the value of a "
                                  "plain ASCII digit string is its decimal value (strings shorter than 4300 characters)")


def enable():
    """Called by a specification module: switch the string model on and list its assumed contracts in the evidence."""
    global ENABLED
    from . import libmodel

    ENABLED = True
    libmodel.ASSUMED.update(ASSUMED)
