"""pyvc - verification-condition generator for a subset of Python (see /verif/DESIGN.md)."""
