"""
Engine extension for the namespace reader (pydsdl._namespace_reader), loaded by specs/c10_reader.py only.  Additive:
every hook falls through to the original behaviour unless one of the new value classes / contract attributes is met.

 * nested class definitions inside a function (`class _Callback(DefinitionVisitor): ...`): a LocalClass value that
   captures the defining environment; instances are LocalObj; methods are closures over that environment, inlined
 * sets of objects and dicts received as PARAMETERS that the contract allows the function to mutate (`mutates = [...]`):
   SymSet over Ref / SymMap, mutated in place (add / remove / clear / setdefault); pre-state snapshots `s.old_<param>`;
   at call sites they are havocked in place (`havoc` entries that are the collection objects themselves)
 * loop invariants over such collections: `inv.in_place = True` havocs the carried collections in place (aliases -
   the parameters in the contract namespace - stay the same objects), `inv.havoc_ghost_heap = True` havocs the ghost heap
 * ghost heap: the one mutable attribute of abstract definition objects that the reader observes
   (`composite_type`, filled by `read`), as a pair of arrays Ref -> (is None, value) threaded through the path
 * behavioural models (`REG.models`): an abstract interface method is replaced, at the call sites inside the functions
   named by the registration, by a specification-side model function (ASSUMED contract written as code) that is inlined
 * `pyvc.ghost.*` builtins used by those model functions
 * @dataclass construction (fields from the annotated class attributes)
"""
from __future__ import annotations
import ast
import z3
from typing import Any, Dict, List

from . import values as V
from . import loops as L
from .values import EngineLimit, Obj, SymSet, SymSeq, SymMap, OptV, PyList, PySet, ExcVal
from .frontend import FuncInfo, ClassInfo
from .symexec import Engine, PyRaise, PathEnd, Env, short, lift_bool
from .libmodel import Lib
from . import ext_expr as _X  # exception location fields (_path / _line), RefSet kind

RefSetSort = z3.ArraySort(V.RefSort, z3.BoolSort())


# ------------------------------------------------------------------------------------------------ kinds
class ObjSetOf(V.Kind):
    """A Python set of objects of (subclasses of) a repository class, compared by identity: array Ref -> Bool."""

    def __init__(self, clsname):
        self.clsname = clsname

    def sort(self):
        return RefSetSort

    def wrap(self, ctx, term):
        s = ObjSymSet(term, self.clsname)
        ctx.__dict__.setdefault("objsets", []).append(s)  # the object sets alive on this path (freshness of new objects)
        eng = ctx.engine
        cls = eng.repo.cls(self.clsname)
        x = z3.FreshConst(V.RefSort, "x")
        rng = z3.Or(*[eng.tag_fn(x) == eng.class_id(c) for c in cls.all_subclasses()])
        ctx.add_axiom(z3.ForAll([x], z3.Implies(z3.Select(term, x), rng), patterns=[z3.Select(term, x)]))
        return s

    def unwrap(self, v):
        if isinstance(v, SymSet):
            return v.term
        raise EngineLimit("expected a set of objects, got %r" % (v,))

    def __repr__(self):
        return "ObjSetOf(%s)" % self.clsname.split(".")[-1]


class ObjSymSet(SymSet):
    def __init__(self, term, clsname, fresh=False):
        SymSet.__init__(self, term, V.RefSort, fresh)
        self.clsname = clsname


class LocalClass:
    def __init__(self, node: ast.ClassDef, env: Env, bases):
        self.node, self.env, self.bases = node, env, bases
        self.name = node.name
        self.methods = {st.name: st for st in node.body if isinstance(st, ast.FunctionDef)}
        for st in node.body:
            if not isinstance(st, (ast.FunctionDef, ast.Pass)) and not (isinstance(st, ast.Expr) and isinstance(st.value, ast.Constant)):
                raise EngineLimit("nested class %s: only method definitions are supported" % node.name)

    def __repr__(self):
        return "<LocalClass %s>" % self.name


class LocalObj:
    def __init__(self, cls: LocalClass):
        self.cls = cls

    def __repr__(self):
        return "<LocalObj %s>" % self.cls.name


# ------------------------------------------------------------------------------------------------ nested classes
def st_ClassDef(self, ctx, st, env):
    bases = [self.eval(ctx, b, env) for b in st.bases]
    env.vars[st.name] = LocalClass(st, env, bases)


Engine.st_ClassDef = st_ClassDef

_orig_call = Engine.call


def call(self, ctx, callee, args, kwargs):
    if isinstance(callee, LocalClass):
        if "__init__" in callee.methods or args or kwargs:
            raise EngineLimit("nested class with a constructor")
        return LocalObj(callee)
    return _orig_call(self, ctx, callee, args, kwargs)


Engine.call = call

_orig_getattr = Engine.getattr


def getattr_(self, ctx, o, name, from_spec=False):
    if isinstance(o, LocalObj):
        m = o.cls.methods.get(name)
        if m is None:
            raise EngineLimit("attribute %s of an instance of the nested class %s" % (name, o.cls.name))
        owner = o.cls.env.finfo.qualname if o.cls.env.finfo is not None else o.cls.env.module.name
        fi = FuncInfo("%s.%s.%s" % (owner, o.cls.name, name), m, o.cls.env.module, None)
        return V.Partial(V.Closure(fi, o.cls.env), (o,), {})
    return _orig_getattr(self, ctx, o, name, from_spec)


Engine.getattr = getattr_

_orig_isinstance_of = Engine.isinstance_of


def isinstance_of(self, ctx, v, cls):
    if isinstance(v, LocalObj):
        target = cls.cls if isinstance(cls, V.ClassVal) else cls
        for b in v.cls.bases:
            if isinstance(b, V.ClassVal) and isinstance(target, ClassInfo) and b.cls.is_subclass_of(target):
                return True
        return False
    return _orig_isinstance_of(self, ctx, v, cls)


Engine.isinstance_of = isinstance_of

_orig_truth = Engine.truth


def truth(self, ctx, v):
    if isinstance(v, (LocalObj, LocalClass)):
        return True
    return _orig_truth(self, ctx, v)


Engine.truth = truth


# ------------------------------------------------------------------------------------------------ ghost heap
HEAP_NAMES = ("none", "val")


def heap(ctx):
    h = getattr(ctx, "gheap", None)
    if h is None:
        h = (ctx.fresh("heap!ct!none", z3.ArraySort(V.RefSort, z3.BoolSort())),
             ctx.fresh("heap!ct!val", z3.ArraySort(V.RefSort, V.RefSort)))
        ctx.gheap = h
    return h


def heap_grows(old, new):
    """Caches are only ever filled: what was cached stays cached, with the same value."""
    d = z3.FreshConst(V.RefSort, "d")
    return z3.ForAll([d], z3.Implies(z3.Not(z3.Select(old[0], d)),
                                     z3.And(z3.Not(z3.Select(new[0], d)), z3.Select(new[1], d) == z3.Select(old[1], d))),
                     patterns=[z3.Select(new[0], d), z3.Select(old[0], d)])


def heap_havoc(ctx, grows=True):
    old = heap(ctx)
    new = (ctx.fresh("heap!ct!none", old[0].sort()), ctx.fresh("heap!ct!val", old[1].sort()))
    ctx.gheap = new
    if grows:
        ctx.assume(heap_grows(old, new))
    return old, new


def cached_type_in(ctx, h, d: Obj):
    eng = ctx.engine
    val = Obj(eng.repo.cls("pydsdl._serializable._composite.CompositeType"), False, z3.Select(h[1], d.ref), None, ctx)
    return OptV(z3.Select(h[0], d.ref), val)


# ------------------------------------------------------------------------------------------------ pyvc.ghost builtins
def bi_pyvc_ghost_cached_type(self, ctx, d):
    """ASSUMED: `composite_type` of a definition is what its `read` cached (None before)."""
    v = cached_type_in(ctx, heap(ctx), d)
    if not ctx.bound:
        self.e.assume_class_range(ctx, v.val)
    return v


def bi_pyvc_ghost_file_path_of(self, ctx, d):
    """ASSUMED: the file path of a definition is a fixed attribute of the definition object (a Path, modelled as a text)."""
    return self.e.uf("ghost!file_path", V.RefSort, z3.StringSort())(d.ref)


def bi_pyvc_ghost_notify_visitors(self, ctx, d, lookup_definitions, visitors):
    """ASSUMED: during `d.read(...)` the visitors' on_definition(referrer, dependency) is called for every definition that
    resolve_versioned_data_type resolves (in this read or in the reads it triggers): a finite set of definitions taken
    from the lookup list, marked with the ghost provenance predicate `resolved`."""
    eng = self.e
    rdf = "pydsdl._dsdl.ReadableDSDLFile"
    deps = ObjSetOf(rdf).wrap(ctx, ctx.fresh("resolved_during_read", RefSetSort))
    x = z3.FreshConst(V.RefSort, "x")
    resolved = eng.uf("ghost!resolved", V.RefSort, z3.BoolSort())
    ctx.add_axiom(z3.ForAll([x], z3.Implies(z3.Select(deps.term, x), resolved(x)), patterns=[z3.Select(deps.term, x)]))
    if isinstance(lookup_definitions, SymSeq):
        idx = z3.Function("w!lookup_index!%d" % ctx.counter, V.RefSort, z3.IntSort())
        ctx.counter += 1
        ctx.add_axiom(z3.ForAll([x], z3.Implies(z3.Select(deps.term, x), z3.And(
            0 <= idx(x), idx(x) < lookup_definitions.length, z3.Select(lookup_definitions.arr, idx(x)) == x)),
            patterns=[z3.Select(deps.term, x)]))
    vis = eng.iter_concrete(ctx, visitors)
    referrer = Obj(eng.repo.cls("pydsdl._dsdl.DSDLFile"), False, ctx.fresh("referrer", V.RefSort), None, ctx)
    eng.assume_class_range(ctx, referrer)
    b = L.bind_domain(eng, ctx, deps)

    def body():
        ctx.guard_if = getattr(ctx, "guard_if", 0) + 1
        try:
            for v in vis:
                eng.call(ctx, eng.getattr(ctx, v, "on_definition"), [referrer, b.value], {})
        finally:
            ctx.guard_if -= 1

    L.run_under_binding(eng, ctx, b, body)
    return None


def bi_pyvc_ghost_handler_reports_under(self, ctx, handler, path):
    """Obligation (C17): the (line, text) handler handed to `read` delivers to the user's handler under `path`."""
    from . import mutstate

    eng = self.e
    recs = [r for r in getattr(ctx, "recorders", [])]
    before = [len(r.calls.items) for r in recs]
    line, text = ctx.fresh("print_line", z3.IntSort()), ctx.fresh("print_text", z3.StringSort())
    eng.call(ctx, handler, [line, text], {})
    for r, n in zip(recs, before):
        new = r.calls.items[n:]
        del r.calls.items[n:]
        ok = (len(new) == 1 and len(new[0]) == 3)
        goal = z3.BoolVal(False)
        if ok:
            goal = z3.And(lift_bool(mutstate.identical(eng, ctx, new[0][0], path)),
                          lift_bool(mutstate.identical(eng, ctx, new[0][1], line)),
                          lift_bool(mutstate.identical(eng, ctx, new[0][2], text)))
        ctx.oblige("%s/print#delivered-once-under-the-path-of-the-definition-being-read" % short(ctx.func), goal, kind="post")
    return None


def bi_pyvc_ghost_read_outcome(self, ctx, d):
    """ASSUMED: `d.read(...)` either raises (any exception: a pydsdl Error whose path may or may not be known already, or
    anything else) or returns the composite of `d`, which is then its cached `composite_type`; caches of other definitions
    may have been filled as well (dependencies), none is ever cleared."""
    eng = self.e
    old, new = heap_havoc(ctx)
    k = ctx.choose(4)
    if k in (1, 2):
        exc = ExcVal(eng.exc_class("InvalidDefinitionError" if k == 1 else "InternalError"))
        p = self.exc_attr(ctx, exc, "_path")
        exc.fields["__path_when_raised__"] = p
        exc.fields["__read_target__"] = d
        raise PyRaise(exc)
    if k == 3:
        exc = ExcVal(V.ExtClass("Exception"))
        exc.fields["__origin__"] = "assumed model of ReadableDSDLFile.read: any exception may escape"
        exc.fields["__read_target__"] = d
        raise PyRaise(exc)
    r = cached_type_in(ctx, new, d)
    ctx.assume(z3.Not(r.is_none))
    eng.assume_class_range(ctx, r.val)
    # freshness: a composite that was not cached before this call was constructed by it, hence is not a member of any
    # set of composites that existed before (the call does not touch those sets)
    for st in getattr(ctx, "objsets", []):
        if st.clsname.endswith(".CompositeType"):
            ctx.assume(z3.Implies(z3.Select(old[0], d.ref), z3.Not(z3.Select(st.term, r.val.ref))))
    return r.val


def bi_pyvc_ghost_sorted_enumeration(self, ctx, s):
    """ASSUMED (library model of list(set) + the C10 contract of file_sort, proved there for lists): file_sort of a set
    returns every member exactly once (the order is the C10 order)."""
    eng = self.e
    if isinstance(s, PySet) and not s.items:
        return PyList([])
    if isinstance(s, SymSet) and s.elem_sort == z3.IntSort() and L._is_empty_set(s.term):
        return PyList([])
    if not (isinstance(s, SymSet) and s.elem_sort == V.RefSort):
        raise EngineLimit("sorted enumeration of %r" % (s,))
    clsname = getattr(s, "clsname", None)
    if clsname is None:
        raise EngineLimit("sorted enumeration of an untyped object set")
    out = V.SeqOf(V.ObjOf(clsname)).build(ctx, lambda suffix, sort: ctx.fresh("sorted" + suffix, sort))
    eng.assume_wellformed(ctx, out)
    i = z3.FreshConst(z3.IntSort(), "i")
    x = z3.FreshConst(V.RefSort, "x")
    idx = z3.Function("w!index_of!%d" % ctx.counter, V.RefSort, z3.IntSort())
    ctx.counter += 1
    sel = z3.Select(out.arr, i)
    ctx.add_axiom(z3.ForAll([i], z3.Implies(z3.And(0 <= i, i < out.length), z3.And(z3.Select(s.term, sel), idx(sel) == i)),
                            patterns=[sel]))
    ctx.add_axiom(z3.ForAll([x], z3.Implies(z3.Select(s.term, x), z3.And(0 <= idx(x), idx(x) < out.length,
                                                                      z3.Select(out.arr, idx(x)) == x)),
                            patterns=[z3.Select(s.term, x)]))
    out.enumerates = s.term  # ghost link used by specifications (the set this list enumerates)
    return out


for _n in ("file_path_of", "cached_type", "notify_visitors", "handler_reports_under", "read_outcome", "sorted_enumeration"):
    setattr(Lib, "bi_pyvc_ghost_" + _n, globals()["bi_pyvc_ghost_" + _n])

from . import libmodel as _lm

_lm.ASSUMED["pyvc.ghost (reader models)"] = (
    "specs/drivers/reader_model.py: assumed behaviour of ReadableDSDLFile.read / composite_type / file_sort on a set as seen "
    "by _read_definitions (visitor notification for resolved dependencies taken from the lookup list, any exception may "
    "escape, caches only filled, result cached; sorted enumeration of a set without repetition)")


# ------------------------------------------------------------------------------------------------ guarded `if` under a binding
_orig_st_If = Engine.st_If


def st_If(self, ctx, st, env):
    if getattr(ctx, "guard_if", 0) and ctx.bound and not st.orelse:
        c = self.truth(ctx, self.eval(ctx, st.test, env))
        if isinstance(c, bool):
            if c:
                self.exec_block(ctx, st.body, env)
            return
        saved_guards, npc, nfacts = ctx.bound_guards, len(ctx.pc), len(ctx.gen_facts)
        ctx.bound_guards = ctx.bound_guards + [c]
        ctx.pc.append(c)
        try:
            self.exec_block(ctx, st.body, env)
        finally:
            ctx.bound_guards = saved_guards
            del ctx.pc[npc:]
        if len(ctx.gen_facts) != nfacts:
            raise EngineLimit("facts learnt inside a guarded statement of a set-building callback")
        return
    return _orig_st_If(self, ctx, st, env)


Engine.st_If = st_If

_orig_bind_domain = L.bind_domain


def bind_domain(engine, ctx, it):
    if isinstance(it, ObjSymSet):
        x = ctx.fresh("x", V.RefSort)
        cls = engine.repo.cls(it.clsname)
        rng = z3.Or(*[engine.tag_fn(x) == engine.class_id(c) for c in cls.all_subclasses()])
        return L.Binding(Obj(cls, False, x, None, ctx), [z3.Select(it.term, x)], [x], [z3.Select(it.term, x)], facts=[rng])
    return _orig_bind_domain(engine, ctx, it)


L.bind_domain = bind_domain


# ------------------------------------------------------------------------------------------------ set / dict methods
def _ref_of(ctx, engine, x):
    """Reference of a set element; an Optional that the path condition allows to be None is a TypeError-free `None`
    element in Python - not modelled: the caller must have excluded None."""
    if isinstance(x, OptV):
        if not isinstance(x.is_none, bool) and engine.feasible(ctx, x.is_none):
            raise EngineLimit("a possibly-None value used as an element of a set of objects")
        x = x.val
    if isinstance(x, Obj):
        return x.ref
    raise EngineLimit("element %r of a set of objects" % (x,))


def _retype_empty(o, x):
    if isinstance(o, SymSet) and o.elem_sort == z3.IntSort() and isinstance(x, (Obj, OptV)) and L._is_empty_set(o.term):
        o.term = z3.K(V.RefSort, z3.BoolVal(False))  # `set()` literal: element type fixed by the first add
        o.elem_sort = V.RefSort


_orig_m_set_add = Lib.m_set_add


def m_set_add(self, ctx, o, x):
    _retype_empty(o, x)
    if isinstance(o, SymSet) and o.elem_sort == V.RefSort:
        self._mutating(ctx, o)
        r = _ref_of(ctx, self.e, x)
        if ctx.collector is not None and ctx.bound:
            ctx.collector.add(ctx, o, r)
            return
        o.term = z3.Store(o.term, r, z3.BoolVal(True))
        return
    return _orig_m_set_add(self, ctx, o, x)


def m_set_remove(self, ctx, o, x):
    if not (isinstance(o, SymSet) and o.elem_sort == V.RefSort):
        raise EngineLimit("set.remove on %r" % (o,))
    self._mutating(ctx, o)
    r = _ref_of(ctx, self.e, x)
    if ctx.decide(z3.Not(z3.Select(o.term, r))):
        raise self.raise_ext("KeyError")
    o.term = z3.Store(o.term, r, z3.BoolVal(False))


def m_set_discard(self, ctx, o, x):
    if not (isinstance(o, SymSet) and o.elem_sort == V.RefSort):
        raise EngineLimit("set.discard on %r" % (o,))
    self._mutating(ctx, o)
    o.term = z3.Store(o.term, _ref_of(ctx, self.e, x), z3.BoolVal(False))


def m_set_clear(self, ctx, o):
    if not isinstance(o, SymSet):
        raise EngineLimit("set.clear on %r" % (o,))
    self._mutating(ctx, o)
    o.term = z3.K(o.elem_sort, z3.BoolVal(False))


def m_dict_setdefault(self, ctx, o, k, default=None):
    if not isinstance(o, SymMap):
        raise EngineLimit("dict.setdefault on %r" % (o,))
    kt = o.kkind.unwrap(k)
    if ctx.decide(z3.Select(o.has, kt)):
        return o.vkind.wrap(ctx, z3.Select(o.val, kt))
    o.has = z3.Store(o.has, kt, z3.BoolVal(True))
    o.val = z3.Store(o.val, kt, o.vkind.unwrap(default))
    return default


Lib.m_set_add = m_set_add
Lib.m_set_remove = m_set_remove
Lib.m_set_discard = m_set_discard
Lib.m_set_clear = m_set_clear
Lib.m_dict_setdefault = m_dict_setdefault

_orig_contains = Lib.contains


def contains(self, ctx, container, item):
    if isinstance(container, SymSet) and container.elem_sort == V.RefSort:
        if isinstance(item, OptV):
            inner = item.val.ref if isinstance(item.val, Obj) else None
            if inner is None:
                return False
            nn = z3.Not(item.is_none) if not isinstance(item.is_none, bool) else z3.BoolVal(not item.is_none)
            return z3.And(nn, z3.Select(container.term, inner))
        if item is None:
            return False
        if isinstance(item, Obj):
            return z3.Select(container.term, item.ref)
    return _orig_contains(self, ctx, container, item)


Lib.contains = contains

_orig_bi_len = Lib.bi_len


def bi_len(self, ctx, x):
    if isinstance(x, SymSet) and x.elem_sort == V.RefSort:
        n = _X.REFCARD(x.term)
        w = ctx.fresh("member", V.RefSort)
        y = z3.FreshConst(V.RefSort, "y")
        ctx.assume(n >= 0)
        # a finite set is empty iff its cardinality is 0 (witness formulation)
        ctx.add_axiom(z3.ForAll([y], z3.Implies(z3.Select(x.term, y), z3.Select(x.term, w)), patterns=[z3.Select(x.term, y)]))
        ctx.assume((n > 0) == z3.Select(x.term, w))
        return n
    return _orig_bi_len(self, ctx, x)


Lib.bi_len = bi_len


# ------------------------------------------------------------------------------------------------ dataclasses
_orig_instantiate_special = Lib.instantiate_special


def instantiate_special(self, ctx, cls, args, kwargs):
    decos = [ast.unparse(d) for d in cls.node.decorator_list]
    if any(d.split("(")[0].split(".")[-1] == "dataclass" for d in decos):
        names = [st.target.id for st in cls.node.body if isinstance(st, ast.AnnAssign) and isinstance(st.target, ast.Name)]
        vals = dict(zip(names, args))
        vals.update(kwargs)
        if set(vals) != set(names) or len(args) > len(names):
            raise PyRaise(ExcVal(V.ExtClass("TypeError")))
        ref = ctx.fresh("new!" + cls.name, V.RefSort)
        ctx.assume(self.e.tag_fn(ref) == self.e.class_id(cls))
        return Obj(cls, True, ref, {n: vals[n] for n in names}, ctx)
    return _orig_instantiate_special(self, ctx, cls, args, kwargs)


Lib.instantiate_special = instantiate_special


# ------------------------------------------------------------------------------------------------ models of interface methods
_orig_call_function = Engine.call_function


def call_function(self, ctx, finfo, args, kwargs, closure=None, dynamic=False):
    models = getattr(self.reg, "models", None)
    if models and (closure is None or closure.env is None):
        m = models.get(finfo.qualname)
        if m is not None and ctx.func.split("[")[0].split("<")[0] in m["only_in"] and not ctx.spec_mode:
            target = self.repo.functions[m["model"]]
            return self.inline_call(ctx, target, args, kwargs, None)
        if m is not None and ctx.spec_mode and ctx.func.split("[")[0].split("<")[0] in m["only_in"] and m.get("spec_ok"):
            target = self.repo.functions[m["model"]]
            return self.inline_call(ctx, target, args, kwargs, None)
    return _orig_call_function(self, ctx, finfo, args, kwargs, closure=closure, dynamic=dynamic)


Engine.call_function = call_function


def register_model(reg, qualname, model, only_in, spec_ok=False):
    if not hasattr(reg, "models"):
        reg.models = {}
    reg.models[qualname] = {"model": model, "only_in": set(only_in), "spec_ok": spec_ok}


# ------------------------------------------------------------------------------------------------ in-place havoc helpers
def havoc_in_place(ctx, v, name="havoc"):
    if isinstance(v, SymSet):
        v.term = ctx.fresh(name, v.term.sort())
        if isinstance(v, ObjSymSet):
            ObjSetOf(v.clsname).wrap(ctx, v.term)  # class range of the members
        return
    if isinstance(v, SymMap):
        v.has = ctx.fresh(name + "!has", v.has.sort())
        v.val = ctx.fresh(name + "!val", v.val.sort())
        return
    raise EngineLimit("cannot havoc %r in place" % (v,))


def snapshot_collection(v):
    if isinstance(v, ObjSymSet):
        return ObjSymSet(v.term, v.clsname, v.fresh)
    if isinstance(v, SymSet):
        return SymSet(v.term, v.elem_sort, v.fresh)
    if isinstance(v, SymMap):
        return SymMap(v.has, v.val, v.kkind, v.vkind)
    return v


def coerce_collection(ctx, v, kind):
    """An empty `set()` / `{}` literal handed to a callee whose contract declares a typed mutable collection parameter:
    the literal takes that type (the object keeps its identity)."""
    if isinstance(kind, ObjSetOf) and isinstance(v, SymSet) and not isinstance(v, ObjSymSet) and L._is_empty_set(v.term):
        v.__class__ = ObjSymSet
        v.clsname = kind.clsname
        v.elem_sort = V.RefSort
        v.term = z3.K(V.RefSort, z3.BoolVal(False))
        ctx.__dict__.setdefault("objsets", []).append(v)
        return v
    if isinstance(kind, V.MapOf) and isinstance(v, V.PyDict) and not v.items:
        v.__class__ = SymMap
        v.has = z3.K(kind.k.sort(), z3.BoolVal(False))
        v.val = ctx.fresh("emptydict!val", z3.ArraySort(kind.k.sort(), kind.v.sort()))
        v.kkind, v.vkind = kind.k, kind.v
        return v
    return v
