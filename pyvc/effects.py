"""
Modular effect / provenance checker (declared vs inferred, function by function) over the front end's ASTs.

Effect EVAL(x): a definition object x is *evaluated* - `x.read(...)`, `x.text`, `x.composite_type` (or the private fields
behind them) read as a value, `open(<path of x>)`, `<path of x>.read_text()/read_bytes()/open()`.

Provenance.  Every value that is (or contains, or is a path of) a definition carries a set of provenance tags; all other
values carry none.  Tags are introduced by the *declared* effect contract of the function under analysis (parameters,
`self`, declared fields of `self`), by declared results of callees, and by `filter` in functions that declare
`filter_selects` (a *selection by a predicate that constrains both the full name and the version of the element*, in any of
its spellings: filter + lambda, comprehension / generator with `if`, `if` inside a loop).  Tags are propagated flow-insensitively (a variable carries the union of everything ever assigned to it,
containers the union of everything ever stored in them) through attribute reads, subscripts, iteration, comprehensions,
container methods and the transparent builtins (list, sorted, filter, map, ...).

Per function the checker infers and compares with the declaration:
  eval-provenance   every EVAL site acts on provenances that the function's contract allows (`evals`); EVAL effects of a
                    callee are taken from the *callee's declared contract* (its `eval_params` instantiated with the
                    provenance of the actual arguments, and its `internal` provenances)
  callee-args       provenance of each actual argument is accepted by the callee's declared parameter provenance
  known-callees     no tagged value is handed to a callee / member whose effect is not declared or known
  stores            tagged values are stored only into declared fields / containers whose declaration accepts them
  returns           provenance of returned values is accepted by the declared result
plus function specific `custom` obligations.

Assumptions about Python dynamism (the analysis is a sound over-approximation of the flows of definition objects only
under these; they are listed in the evidence):
  A1 no reflection, monkey patching or `global` state in the analysed modules (reflection builtins are *checked* to be absent);
  A2 a method call `x.m(...)` may dispatch to every analysed method named `m` (name based resolution; all are applied);
  A3 callables received as parameters (print_output_handler) and exception objects are sinks that do not evaluate definitions;
  A4 functions outside the analysed modules (parser, serializable types, stdlib) do not evaluate definition objects other
     than through the declared contracts given for them (`_parser.parse`);
  A5 attribute names identify members: `read`, `text`, `composite_type`, `_text`, `_cached_type` and the path members are
     treated as the DSDLFile members on any receiver that is not known to be a plain file object.
"""
from __future__ import annotations
import ast
from typing import Any, Dict, List, Optional, Set, Tuple

SELF, OWN, TARGET, RESOLVED, ANY, RESULT, ARG, FILE, UNTRACKED = (
    "SELF", "OWN", "TARGET", "RESOLVED", "ANY", "RESULT", "ARG", "FILE", "UNTRACKED")

# what a declared provenance accepts (argument passing, stores, returns)
ACCEPT = {
    SELF: {SELF},
    OWN: {OWN, SELF},
    TARGET: {TARGET, RESOLVED},
    RESOLVED: {RESOLVED},
    ANY: {SELF, OWN, TARGET, RESOLVED, ANY, ARG},
    RESULT: {RESULT},
    ARG: {ARG},
}

EVAL_ATTRS = {"text", "composite_type", "_text", "_cached_type"}
EVAL_PATH_METHODS = {"read_text", "read_bytes", "open"}
PATH_ATTRS = {"file_path", "_file_path", "root_namespace_path", "_root_namespace_path"}
# members whose value is plain data (strings, numbers, booleans): no provenance
INFO_SCALAR = {
    "full_name", "version", "name_components", "short_name", "full_namespace", "root_namespace", "fixed_port_id",
    "has_fixed_port_id", "_name", "_version", "_fixed_port_id", "major", "minor", "extent",
    "name", "parts", "suffix", "exists", "is_absolute", "samefile", "as_posix",
    "lower", "split", "join", "startswith", "endswith", "index", "count", "remove", "discard", "clear",
}
# members that navigate to related values of the same provenance (paths, elements of containers, result records)
INFO_NAV = {"parent", "resolve", "relative_to", "rglob", "joinpath", "direct", "transitive", "source_file_path",
            "request_type", "response_type", "get", "pop", "values", "keys", "items", "copy"}
INFO_ATTRS = INFO_SCALAR | INFO_NAV
STORE_METHODS = {"add", "append", "extend", "update", "setdefault", "insert"}
TRANSPARENT = {
    "list", "set", "sorted", "filter", "map", "tuple", "frozenset", "iter", "next", "reversed", "enumerate", "zip", "dict",
    "chain", "partial", "repeat", "product", "cast", "Path", "min", "max",
}
OPAQUE_RESULT = {"len", "isinstance", "issubclass", "str", "repr", "type", "hash", "int", "bool", "callable", "id", "print",
                 "any", "all", "sum", "abs", "format", "monotonic"}
REFLECTION = {"getattr", "setattr", "delattr", "vars", "eval", "exec", "globals", "locals", "__import__", "compile"}
SAFE_MODULE_PREFIXES = ("_logger", "logging", "_error", "_serializable", "_expression", "_port_id_ranges",
                        "_data_schema_builder", "collections", "itertools", "functools", "time", "typing", "warnings")


class EffectContract:
    def __init__(self, params=None, evals=(), internal=(), eval_params=(), returns=None, self_tag=None, fields=None,
                 filter_selects=None, custom=None, assumed=None, why=""):
        self.params: Dict[str, str] = dict(params or {})
        self.evals: Set[str] = set(evals)            # provenances on which this function (or its callees) may EVAL
        self.internal: Set[str] = set(internal)      # provenances of objects evaluated below that the caller never holds
        self.eval_params: List[str] = list(eval_params)  # parameters whose (elements) are evaluated: for callers
        self.returns = returns                       # tag | "args" (union of the argument provenances) | None
        self.self_tag = self_tag
        self.fields: Dict[str, str] = dict(fields or {})
        self.filter_selects = filter_selects
        self.custom = custom                         # fn(analysis) -> list of (label, ok, detail)
        self.assumed = assumed                       # reason: contract of a function outside the analysed modules
        self.why = why


DEFAULT = EffectContract()


class InferredContract(EffectContract):
    """Stands for a function / method of an analysed module that has no declared effect contract (e.g. a helper extracted by
    a refactoring): at a call site its effect summary is *inferred from its body* (the same analysis, run with the
    provenance of the actual arguments; memoised; recursion cut with the conservative summary "evaluates and returns all
    its arguments") and listed in the evidence as `inferred, not declared`."""

    def __init__(self, qualname):
        super().__init__()
        self.inferred_for = qualname


class Site:
    def __init__(self, kind, tags, what, line):
        self.kind, self.tags, self.what, self.line = kind, frozenset(tags), what, line

    def __repr__(self):
        return "%s(%s on %s, line %d)" % (self.kind, self.what, sorted(self.tags), self.line)


class FunctionAnalysis:
    """Abstract interpretation of one function body (with its nested functions / classes / lambdas)."""

    def __init__(self, checker: "EffectChecker", qualname: str, node: ast.AST, cls_name: Optional[str]):
        self.ck = checker
        self.qualname = qualname
        self.node = node
        self.cls_name = cls_name
        self.contract: EffectContract = checker.contracts.get(qualname, DEFAULT)
        self.env: Dict[str, Set[str]] = {}
        self.field_env: Dict[str, Set[str]] = {}
        self.evals: List[Site] = []
        self.internal: Set[str] = set()
        self.violations: Dict[str, List[str]] = {k: [] for k in ("eval-provenance", "callee-args", "known-callees",
                                                                 "stores", "returns")}
        self.calls: List[Tuple[str, ast.Call, Dict[str, Set[str]]]] = []
        self.returns: Set[str] = set()
        self.final = False
        self.changed = False
        self.refined: List[Dict[str, Set[str]]] = []  # scoped refinements of a variable's provenance (selection predicates)
        self.nested: Dict[str, ast.FunctionDef] = {}
        self.nested_ret: Dict[str, Set[str]] = {}
        self.exc_names: Set[str] = set()

    # ---------------------------------------------------------------- driver
    def run(self, judge=True):
        a = self.node.args
        names = [x.arg for x in a.posonlyargs + a.args + a.kwonlyargs]
        for n in names:
            t = self.contract.params.get(n)
            self.env[n] = {t} if t else set()
            self.env[n] |= set(getattr(self, "init_tags", {}).get(n, set()))
        if self.cls_name and names and not self._is_static():
            st = self.contract.self_tag or self.ck.class_self_tag.get(self.cls_name)
            self.env[names[0]] = {st} if st else set()
            self.self_name = names[0]
        else:
            self.self_name = None
        for rnd in range(8):
            self.changed = False
            self.final = False
            self._walk_body(self.node.body)
            if not self.changed:
                break
        self.final = True
        self.evals, self.calls, self.returns = [], [], set()
        self.internal = set()
        for k in self.violations:
            self.violations[k] = []
        self._walk_body(self.node.body)
        if judge:
            self._judge()

    def _is_static(self):
        return any(isinstance(d, ast.Name) and d.id == "staticmethod" for d in getattr(self.node, "decorator_list", []))

    def _judge(self):
        c = self.contract
        allowed = set(c.evals)
        for t in c.evals:
            allowed |= ACCEPT[t]
        for s in self.evals:
            bad = set(s.tags) - allowed
            if bad or not s.tags:
                self.violations["eval-provenance"].append(
                    "line %d: EVAL via %s on provenance %s (declared: %s)" % (s.line, s.what, sorted(s.tags) or ["?"],
                                                                            sorted(c.evals) or "none"))
        extra = self.internal - c.internal
        if extra:
            self.violations["eval-provenance"].append("callees evaluate internally resolved objects %s (declared: %s)" % (
                sorted(extra), sorted(c.internal) or "none"))
        if isinstance(c.returns, str) and c.returns.startswith("param:"):
            decl = c.params.get(c.returns[6:])
            bad = self.returns - ({decl} if decl else set())
            if bad:
                self.violations["returns"].append("returns provenance %s, declared: that of parameter %s" % (
                    sorted(bad), c.returns[6:]))
        elif c.returns not in (None, "args"):
            bad = self.returns - ACCEPT[c.returns]
            if bad:
                self.violations["returns"].append("returns provenance %s, declared %s" % (sorted(bad), c.returns))
        elif c.returns is None and self.returns:
            self.violations["returns"].append("returns provenance %s, nothing declared" % sorted(self.returns))
        # parameters that are containers: what was stored into them must be accepted by their declaration
        for p, t in c.params.items():
            bad = self.env.get(p, set()) - ACCEPT[t] - {t}
            if bad:
                self.violations["stores"].append("parameter %s (declared %s) receives %s" % (p, t, sorted(bad)))

    # ---------------------------------------------------------------- helpers
    def _set(self, name: str, tags: Set[str]):
        cur = self.env.setdefault(name, set())
        if not tags <= cur:
            cur |= tags
            self.changed = True

    def _viol(self, kind, msg):
        if self.final:
            self.violations[kind].append(msg)

    def _site(self, tags, what, node):
        if self.final:
            self.evals.append(Site("EVAL", tags or {UNTRACKED}, what, getattr(node, "lineno", 0)))

    # ---------------------------------------------------------------- statements
    def _walk_body(self, stmts):
        for st in stmts:
            self._stmt(st)

    def _stmt(self, st):
        if isinstance(st, (ast.FunctionDef, ast.AsyncFunctionDef)):
            self._nested_function(st, None)
        elif isinstance(st, ast.ClassDef):
            for sub in st.body:
                if isinstance(sub, ast.FunctionDef):
                    self._nested_function(sub, st.name)
        elif isinstance(st, ast.Return):
            if st.value is not None:
                t = self._expr(st.value)
                if self.final:
                    self.returns |= t
        elif isinstance(st, ast.Assign):
            t = self._expr(st.value)
            for tg in st.targets:
                self._store(tg, t)
        elif isinstance(st, ast.AnnAssign):
            if st.value is not None:
                self._store(st.target, self._expr(st.value))
        elif isinstance(st, ast.AugAssign):
            self._store(st.target, self._expr(st.value) | self._expr(_as_load(st.target)))
        elif isinstance(st, (ast.For, ast.AsyncFor)):
            self._store(st.target, self._expr(st.iter))
            self._walk_body(st.body)
            self._walk_body(st.orelse)
        elif isinstance(st, ast.While):
            self._expr(st.test)
            self._walk_body(st.body)
            self._walk_body(st.orelse)
        elif isinstance(st, ast.If):
            self._expr(st.test)
            sel = self.contract.filter_selects
            scope = {}
            if sel:
                for n in ast.walk(st.test):
                    if isinstance(n, ast.Name) and n.id not in scope and self._e_Name(n) and self._selects([st.test], n.id):
                        scope[n.id] = {sel}  # under this test the variable holds a definition selected by name and version
            if scope:
                self.refined.append(scope)
            self._walk_body(st.body)
            if scope:
                self.refined.pop()
            self._walk_body(st.orelse)
        elif isinstance(st, (ast.With, ast.AsyncWith)):
            for item in st.items:
                t = self._expr(item.context_expr)
                if item.optional_vars is not None:
                    self._store(item.optional_vars, t)
            self._walk_body(st.body)
        elif isinstance(st, ast.Try):
            self._walk_body(st.body)
            for h in st.handlers:
                if h.type is not None:
                    self._expr(h.type)
                if h.name:
                    self.exc_names.add(h.name)
                self._walk_body(h.body)
            self._walk_body(st.orelse)
            self._walk_body(st.finalbody)
        elif isinstance(st, ast.Raise):
            if st.exc is not None:
                self._expr(st.exc)  # A3: exception objects are sinks
            if st.cause is not None:
                self._expr(st.cause)
        elif isinstance(st, ast.Expr):
            self._expr(st.value)
        elif isinstance(st, ast.Assert):
            self._expr(st.test)
            if st.msg is not None:
                self._expr(st.msg)
        elif isinstance(st, ast.Delete):
            pass
        elif isinstance(st, (ast.Global, ast.Nonlocal)):
            self._viol("known-callees", "line %d: global/nonlocal statement (A1)" % st.lineno)
        elif isinstance(st, (ast.Pass, ast.Break, ast.Continue, ast.Import, ast.ImportFrom)):
            pass
        else:
            self._viol("known-callees", "line %d: statement %s is not analysed" % (getattr(st, "lineno", 0), type(st).__name__))

    def _nested_function(self, fn: ast.FunctionDef, cls_name: Optional[str]):
        a = fn.args
        names = [x.arg for x in a.posonlyargs + a.args + a.kwonlyargs]
        iface = self.ck.method_contracts.get(fn.name, []) if cls_name else []
        for i, n in enumerate(names):
            tags: Set[str] = set()
            for c in iface:
                t = c.params.get(n) or (list(c.params.values())[i - 1] if 0 < i <= len(c.params) else None)
                if t:
                    tags.add(t)
            self._set("%s" % n, tags)
        if cls_name is None:
            self.nested[fn.name] = fn
        saved, saved_final = self.returns, self.final
        self.returns = set()
        self.final = True if saved_final else False
        self._walk_body(fn.body)
        got = self.returns if saved_final else set()
        self.returns = saved  # a nested function's return value is not the enclosing function's
        if cls_name is None:
            # returns are collected in every round for nested functions (their callers need them)
            self.nested_ret.setdefault(fn.name, set())
            r = self._nested_returns(fn)
            if not r <= self.nested_ret[fn.name]:
                self.nested_ret[fn.name] |= r
                self.changed = True

    def _nested_returns(self, fn) -> Set[str]:
        out: Set[str] = set()
        for n in ast.walk(fn):
            if isinstance(n, ast.Return) and n.value is not None:
                saved = self.final
                self.final = False
                out |= self._expr(n.value)
                self.final = saved
        return out

    def _store(self, target, tags: Set[str]):
        if isinstance(target, ast.Name):
            self._set(target.id, tags)
        elif isinstance(target, (ast.Tuple, ast.List)):
            for t in target.elts:
                self._store(t.value if isinstance(t, ast.Starred) else t, tags)
        elif isinstance(target, ast.Attribute):
            base = target.value
            if isinstance(base, ast.Name) and base.id == self.self_name and self.cls_name:
                decl = self.ck.class_fields.get(self.cls_name, {}).get(target.attr)
                if tags:
                    if decl is None:
                        if not (self.cls_name in self.ck.class_self_tag and target.attr in EVAL_ATTRS | PATH_ATTRS | INFO_ATTRS):
                            self._viol("stores", "line %d: tagged value %s stored into undeclared field %s.%s" % (
                                target.lineno, sorted(tags), self.cls_name, target.attr))
                    elif not tags <= ACCEPT[decl]:
                        self._viol("stores", "line %d: %s stored into field %s.%s declared %s" % (
                            target.lineno, sorted(tags - ACCEPT[decl]), self.cls_name, target.attr, decl))
            elif tags:
                self._viol("stores", "line %d: tagged value %s stored into an attribute of another object" % (
                    target.lineno, sorted(tags)))
        elif isinstance(target, ast.Subscript):
            self._expr(target.slice)
            root = _root_name(target.value)
            if root is not None:
                self._set(root, tags)
            elif tags:
                self._viol("stores", "line %d: tagged value stored through an untracked subscript" % target.lineno)
        elif isinstance(target, ast.Starred):
            self._store(target.value, tags)

    # ---------------------------------------------------------------- expressions
    def _expr(self, e) -> Set[str]:
        if e is None:
            return set()
        m = getattr(self, "_e_" + type(e).__name__, None)
        if m is None:
            out: Set[str] = set()
            for c in ast.iter_child_nodes(e):
                if isinstance(c, ast.expr):
                    out |= self._expr(c)
            return out
        return set(m(e))

    def _e_Constant(self, e):
        return set()

    def _e_JoinedStr(self, e):
        for v in e.values:
            self._expr(v)
        return set()

    def _e_FormattedValue(self, e):
        self._expr(e.value)
        return set()

    def _e_Name(self, e):
        for scope in reversed(self.refined):
            if e.id in scope:
                return set(scope[e.id])
        return self.env.get(e.id, set())

    # ---------------------------------------------------------------- selection by a name-and-version predicate
    def _selects(self, tests, var: str) -> bool:
        """Does the conjunction of `tests` constrain BOTH the full name and the version of the definition held by `var`?
        Conjuncts are the operands of top-level `and`s; the full name must occur (directly or through str methods such as
        .lower()) on one side of an `==`, and `var.version` (or both its .major and .minor) on one side of an `==`.
        Disjunctions, negations and comparisons other than `==` do not count."""
        conj = []

        def flatten(t):
            if isinstance(t, ast.BoolOp) and isinstance(t.op, ast.And):
                for v in t.values:
                    flatten(v)
            else:
                conj.append(t)

        for t in tests:
            flatten(t)

        def mentions(e, attr_path):
            """e is var.<attr_path>, possibly followed by str method calls / further attributes of the value"""
            while True:
                if isinstance(e, ast.Call) and isinstance(e.func, ast.Attribute) and not e.args and not e.keywords:
                    e = e.func.value          # x.lower()
                    continue
                break
            chain = []
            while isinstance(e, ast.Attribute):
                chain.append(e.attr)
                e = e.value
            chain.reverse()
            return isinstance(e, ast.Name) and e.id == var and chain[:len(attr_path)] == attr_path and len(chain) == len(attr_path)

        name_ok = False
        ver, major, minor = False, False, False
        for c in conj:
            if not (isinstance(c, ast.Compare) and len(c.ops) == 1 and isinstance(c.ops[0], ast.Eq)):
                continue
            sides = [c.left, c.comparators[0]]
            if any(mentions(x, ["full_name"]) for x in sides):
                name_ok = True
            if any(mentions(x, ["version"]) for x in sides):
                ver = True
            if any(mentions(x, ["version", "major"]) for x in sides):
                major = True
            if any(mentions(x, ["version", "minor"]) for x in sides):
                minor = True
        return name_ok and (ver or (major and minor))

    def _e_Compare(self, e):
        self._expr(e.left)
        for c in e.comparators:
            self._expr(c)
        return set()

    def _e_Lambda(self, e):
        return self._expr(e.body)  # only reached when a lambda is not an argument of a call (parameters untagged)

    def _e_Attribute(self, e):
        base_node = e.value
        if isinstance(base_node, ast.Name) and base_node.id == self.self_name and self.cls_name:
            decl = self.ck.class_fields.get(self.cls_name, {}).get(e.attr)
            if decl is not None:
                return {decl}
        base = self._expr(base_node)
        if base == {FILE}:
            return {FILE}
        if e.attr in EVAL_ATTRS and isinstance(e.ctx, ast.Load):
            if base or not self._known_plain(base_node):
                self._site(base, "." + e.attr, e)
            return {RESULT} if e.attr in ("composite_type", "_cached_type") else set()
        if not base:
            return set()
        if e.attr in INFO_SCALAR:
            return set()
        if e.attr in PATH_ATTRS or e.attr in INFO_NAV:
            return base
        if e.attr in self.ck.method_names or e.attr in STORE_METHODS or e.attr in EVAL_PATH_METHODS or e.attr == "read":
            return base  # judged at the call
        self._viol("known-callees", "line %d: member .%s of a value with provenance %s is not known" % (
            e.lineno, e.attr, sorted(base)))
        return base

    def _known_plain(self, node) -> bool:
        """receivers that certainly are not definition objects: caught exceptions, plain file objects"""
        if isinstance(node, ast.Name):
            return node.id in self.exc_names or self.env.get(node.id, set()) == {FILE}
        return False

    def _e_BinOp(self, e):
        l, r = self._expr(e.left), self._expr(e.right)
        if isinstance(e.op, ast.Mod):
            return set()  # string formatting
        if isinstance(e.op, ast.Div):
            return r or l  # directory / relative path: the path below
        return l | r

    def _e_Subscript(self, e):
        self._expr(e.slice)
        return self._expr(e.value)

    def _e_Starred(self, e):
        return self._expr(e.value)

    def _comp(self, e, elts):
        pushed = 0
        for g in e.generators:
            src = self._expr(g.iter)
            self._store(g.target, src)
            sel = self.contract.filter_selects
            if sel and src and isinstance(g.target, ast.Name) and g.ifs and self._selects(g.ifs, g.target.id):
                # elements selected by a name-and-version predicate: inside the comprehension (condition excluded) the
                # element has the selected provenance
                for c in g.ifs:
                    self._expr(c)
                self.refined.append({g.target.id: {sel}})
                pushed += 1
            else:
                for c in g.ifs:
                    self._expr(c)
        out: Set[str] = set()
        for x in elts:
            out |= self._expr(x)
        for _ in range(pushed):
            self.refined.pop()
        return out

    def _e_ListComp(self, e):
        return self._comp(e, [e.elt])

    _e_SetComp = _e_ListComp
    _e_GeneratorExp = _e_ListComp

    def _e_DictComp(self, e):
        return self._comp(e, [e.key, e.value])

    # ---------------------------------------------------------------- calls
    def _arg_tags(self, call: ast.Call):
        pos = [self._expr(a) for a in call.args if not isinstance(a, ast.Lambda)]
        kw = {k.arg: self._expr(k.value) for k in call.keywords if not isinstance(k.value, ast.Lambda)}
        return pos, kw

    def _lambdas(self, call: ast.Call, bind: Set[str]) -> Set[str]:
        """Lambdas and nested functions handed to a call: their parameters receive the provenance of the other
        arguments; the result is the provenance of what they return."""
        out: Set[str] = set()
        for a in list(call.args) + [k.value for k in call.keywords]:
            if isinstance(a, ast.Lambda):
                for p in a.args.args:
                    self._set(p.arg, bind)
                out |= self._expr(a.body)
            elif isinstance(a, ast.Name) and a.id in self.nested:
                fn = self.nested[a.id]
                for p in fn.args.args:
                    self._set(p.arg, bind)
                out |= self.nested_ret.get(a.id, set())
        return out

    def _e_Call(self, call: ast.Call):
        f = call.func
        pos, kw = self._arg_tags(call)
        allargs: Set[str] = set().union(*pos, *kw.values()) if (pos or kw) else set()
        fname = f.id if isinstance(f, ast.Name) else (f.attr if isinstance(f, ast.Attribute) else None)
        if fname in REFLECTION and isinstance(f, ast.Name):
            self._viol("known-callees", "line %d: reflection builtin %s (A1)" % (call.lineno, fname))
            return allargs
        # ---- x.read(...)
        if isinstance(f, ast.Attribute) and f.attr == "read":
            recv = self._expr(f.value)
            if recv == {FILE}:
                return set()
            self._site(recv, ".read()", call)
            c = self.ck.method_contracts.get("read", [])
            for mc in c:
                self._apply(mc, "read", call, pos, kw, skip_self=True)
            return {RESULT}
        if isinstance(f, ast.Attribute) and f.attr in EVAL_PATH_METHODS:
            recv = self._expr(f.value)
            if recv and recv != {FILE}:
                self._site(recv, "." + f.attr + "()", call)
                return {FILE}
        if isinstance(f, ast.Name) and f.id == "open":
            self._site(allargs, "open()", call)
            return {FILE}
        # ---- module level functions / constructors of the analysed modules
        target = self.ck.resolve_callee(self, f)
        if target is not None:
            qual, contract, skip = target
            return self._apply(contract, qual, call, pos, kw, skip_self=skip)
        # ---- methods
        if isinstance(f, ast.Attribute):
            if isinstance(f.value, ast.Name) and f.value.id in self.exc_names:
                return set()  # A3: exception objects are sinks
            if (_dotted(f.value) or "").split(".")[0] in ("_logger", "logging", "warnings"):
                return set()  # log records are sinks
            if isinstance(f.value, ast.Call) and isinstance(f.value.func, ast.Name) and f.value.func.id == "super":
                return set()  # base classes of the analysed classes live outside the analysed modules (A4)
            recv = self._expr(f.value)
            if f.attr in self.ck.method_contracts and f.attr != "__init__" and not self._is_module_ref(f.value):
                out: Set[str] = set()
                for mc in self.ck.method_contracts[f.attr]:
                    out |= self._apply(mc, f.attr, call, pos, kw, skip_self=True)
                return out
            if f.attr in STORE_METHODS:
                root = _root_name(f.value)
                stored = allargs | self._lambdas(call, allargs)
                if root == self.self_name and isinstance(f.value, ast.Attribute) and self.cls_name:
                    decl = self.ck.class_fields.get(self.cls_name, {}).get(f.value.attr)
                    if stored and (decl is None or not stored <= ACCEPT[decl]):
                        self._viol("stores", "line %d: %s stored into field %s" % (call.lineno, sorted(stored), f.value.attr))
                elif root is not None:
                    self._set(root, stored)
                elif stored:
                    self._viol("stores", "line %d: tagged value stored into an untracked container" % call.lineno)
                return recv | stored
            if self._is_module_ref(f.value):
                mod = _dotted(f.value)
                if f.attr in TRANSPARENT:
                    return allargs | self._lambdas(call, allargs)
                if f.attr[:1].isupper():
                    return allargs  # a class of another module (model types, exceptions): carries what it is given
                if allargs - {FILE} and not mod.startswith(("_logger", "logging", "warnings")):
                    self._viol("known-callees", "line %d: %s.%s called with provenance %s: effect not declared" % (
                        call.lineno, mod, f.attr, sorted(allargs)))
                return set()
            lam = self._lambdas(call, recv | allargs)
            if recv and f.attr not in INFO_ATTRS | PATH_ATTRS:
                self._viol("known-callees", "line %d: method .%s of a value with provenance %s is not known" % (
                    call.lineno, f.attr, sorted(recv)))
            if not recv and allargs - {FILE} and f.attr not in INFO_ATTRS:
                # a tagged value handed to an unknown method of an untracked receiver (A3: declared callables excepted)
                self._viol("known-callees", "line %d: tagged value %s passed to .%s of an untracked receiver" % (
                    call.lineno, sorted(allargs), f.attr))
            return recv | lam | (allargs if f.attr in ("get", "pop", "setdefault", "joinpath", "relative_to") else set())
        # ---- plain names
        if isinstance(f, ast.Name):
            if f.id == "filter" and self.contract.filter_selects and call.args and isinstance(call.args[0], ast.Lambda) \
                    and len(call.args[0].args.args) == 1 and allargs \
                    and self._selects([call.args[0].body], call.args[0].args.args[0].arg):
                self._lambdas(call, allargs)  # the predicate itself sees the unrefined elements
                return {self.contract.filter_selects}
            if f.id in TRANSPARENT:
                return allargs | self._lambdas(call, allargs)
            if f.id in OPAQUE_RESULT:
                self._lambdas(call, allargs)
                return set()
            if f.id in self.nested:
                fn = self.nested[f.id]
                for p, t in zip(fn.args.args, pos):
                    self._set(p.arg, t)
                for k, t in kw.items():
                    self._set(k, t)
                return set(self.nested_ret.get(f.id, set()))
            if f.id in self.ck.callable_params.get(self.qualname, ()):  # a declared callback / foreign class (A3, A4)
                return set()
            if f.id in self.env:
                # a local variable holding a callable: a sink only as long as it is not handed definition-carrying values
                if allargs - {FILE}:
                    self._viol("known-callees", "line %d: local callable %s(...) receives provenance %s" % (
                        call.lineno, f.id, sorted(allargs)))
                return set()
            if f.id[:1].isupper() or f.id.endswith("Error"):
                return allargs  # a class of another module (exceptions, records): carries what it is given
            if allargs - {FILE}:
                self._viol("known-callees", "line %d: %s(...) called with provenance %s: effect not declared" % (
                    call.lineno, f.id, sorted(allargs)))
            return set()
        self._expr(f)
        return allargs

    def _is_module_ref(self, node) -> bool:
        d = _dotted(node)
        return d is not None and d.split(".")[0] in self.ck.module_aliases and d.split(".")[0] not in self.env

    def _apply_inferred(self, contract: "InferredContract", call: ast.Call, bound, order) -> Set[str]:
        """A callee of an analysed module without declared contract: its inferred summary for these arguments."""
        q = contract.inferred_for
        r = self.ck.summary(q, bound)
        if self.final:
            for site in r["evals"]:
                self.evals.append(Site("EVAL", site.tags, "inferred callee %s: %s" % (q.replace("pydsdl.", ""), site.what),
                                       call.lineno))
            self.internal |= r["internal"]
            for kind, msgs in r["violations"].items():
                for m in msgs:
                    self._viol(kind, "line %d: via inferred callee %s: %s" % (call.lineno, q.replace("pydsdl.", ""), m))
            self.calls.append((q, call, bound))
        # containers handed to the callee: what it stores into them flows back to the actual argument
        names_by_pos = {}
        k = 0
        for a in call.args:
            if not isinstance(a, (ast.Lambda, ast.Starred)):
                if k < len(order):
                    names_by_pos[order[k]] = a
                k += 1
        for kwd in call.keywords:
            if kwd.arg:
                names_by_pos[kwd.arg] = kwd.value
        for n, tags in r["params"].items():
            extra = tags - bound.get(n, set())
            a = names_by_pos.get(n)
            root = _root_name(a) if a is not None else None
            if extra and root is not None:
                self._set(root, extra)
        return set(r["returns"])

    def _apply(self, contract: EffectContract, qual: str, call: ast.Call, pos, kw, skip_self=False) -> Set[str]:
        """Effect of a call through the callee's declared contract."""
        names = list(contract.params.keys())
        order = self.ck.param_order.get(qual) or self.ck.param_order.get(qual.split(".")[-1]) or names
        if skip_self and order and order[0] in ("self", "cls"):
            order = order[1:]
        bound: Dict[str, Set[str]] = {}
        star = any(isinstance(a, ast.Starred) for a in call.args)
        for i, t in enumerate(pos):
            if star:
                for n in order:
                    bound.setdefault(n, set()).update(t)
            elif i < len(order):
                bound.setdefault(order[i], set()).update(t)
        for k, t in kw.items():
            bound.setdefault(k, set()).update(t)
        lam = self._lambdas(call, set().union(*bound.values()) if bound else set())
        if isinstance(contract, InferredContract):
            return self._apply_inferred(contract, call, bound, order)
        for n, t in bound.items():
            decl = contract.params.get(n)
            if not t:
                continue
            if decl is None:
                self._viol("callee-args", "line %d: %s: argument %s carries %s but the callee declares no provenance for it" % (
                    call.lineno, qual, n, sorted(t)))
            elif decl != ARG and not t <= ACCEPT[decl] | {decl}:
                self._viol("callee-args", "line %d: %s: argument %s carries %s, callee accepts %s" % (
                    call.lineno, qual, n, sorted(t - ACCEPT[decl]), decl))
        if self.final:
            for n in contract.eval_params:
                if n in ("self", "cls"):
                    continue
                if bound.get(n):
                    self.evals.append(Site("EVAL", bound[n], "callee %s evaluates its %s" % (qual, n), call.lineno))
            self.internal |= contract.internal
            self.calls.append((qual, call, bound))
        if contract.returns == "args":
            return set().union(*bound.values()) if bound else set()
        if isinstance(contract.returns, str) and contract.returns.startswith("param:"):
            return set(bound.get(contract.returns[6:], set()))
        return {contract.returns} if contract.returns else set()


def _as_load(t):
    import copy

    t = copy.copy(t)
    t.ctx = ast.Load()
    return t


def _root_name(e) -> Optional[str]:
    while isinstance(e, (ast.Attribute, ast.Subscript)):
        e = e.value
    return e.id if isinstance(e, ast.Name) else None


def _dotted(e) -> Optional[str]:
    parts = []
    while isinstance(e, ast.Attribute):
        parts.append(e.attr)
        e = e.value
    if isinstance(e, ast.Name):
        parts.append(e.id)
        return ".".join(reversed(parts))
    return None


class EffectChecker:
    def __init__(self, repo, modules: List[str], contracts: Dict[str, EffectContract], class_fields=None,
                 class_self_tag=None, callable_params=None):
        self.repo = repo
        self.modules = modules
        self.contracts = contracts
        self.class_fields: Dict[str, Dict[str, str]] = class_fields or {}
        self.class_self_tag: Dict[str, str] = class_self_tag or {}
        self.callable_params = callable_params or {}
        self.functions: Dict[str, Tuple[ast.AST, Optional[str], str]] = {}
        self.module_aliases: Set[str] = set()
        self._inferred: Dict[str, InferredContract] = {}
        self._summaries: Dict[Any, Any] = {}
        self.inferred_used: Dict[str, List[Any]] = {}
        self.method_contracts: Dict[str, List[EffectContract]] = {}
        self.method_names: Set[str] = set()
        self.param_order: Dict[str, List[str]] = {}
        self.by_short: Dict[str, List[str]] = {}
        self._index()

    def _index(self):
        for m in self.modules:
            mi = self.repo.modules[m]
            for name, imp in mi.imports.items():
                self.module_aliases.add(name)
            for st in mi.tree.body:
                if isinstance(st, ast.FunctionDef) and not st.name.startswith("_unittest"):
                    self._add(m + "." + st.name, st, None, m)
                elif isinstance(st, ast.ClassDef):
                    for sub in st.body:
                        if isinstance(sub, ast.FunctionDef):
                            self._add("%s.%s.%s" % (m, st.name, sub.name), sub, st.name, m)
        for q, c in self.contracts.items():
            short = q.split(".")[-1]
            if q not in self.functions and c.assumed is None:
                raise KeyError("effect contract for unknown function %s" % q)
            if q in self.functions and self.functions[q][1] is not None or (c.assumed and "." in q and q.split(".")[-2][:1].isupper()):
                self.method_contracts.setdefault(short, []).append(c)
        for q, (node, cls, mod) in self.functions.items():
            if cls is not None:
                self.method_names.add(node.name)
                if q not in self.contracts:
                    self.method_contracts.setdefault(node.name, []).append(self.inferred(q))

    def inferred(self, q) -> "InferredContract":
        if q not in self._inferred:
            self._inferred[q] = InferredContract(q)
        return self._inferred[q]

    def summary(self, q, bound: Dict[str, Set[str]]):
        """Effect summary of an undeclared function for the given provenance of its arguments."""
        key = (q, tuple(sorted((n, tuple(sorted(t))) for n, t in bound.items() if t)))
        if key in self._summaries:
            r = self._summaries[key]
            if r is None:  # recursion: conservative summary
                allt = set().union(*bound.values()) if bound else set()
                return {"evals": [Site("EVAL", allt, "recursive call (conservative)", 0)] if allt else [], "internal": set(),
                        "returns": allt, "violations": {}, "params": {}}
            return r
        self._summaries[key] = None
        node, cls, mod = self.functions[q]
        fa = FunctionAnalysis(self, q, node, cls)
        fa.contract = EffectContract()
        fa.init_tags = {n: set(t) for n, t in bound.items()}
        fa.run(judge=False)
        r = {"evals": list(fa.evals), "internal": set(fa.internal), "returns": set(fa.returns),
             "violations": {k: list(v) for k, v in fa.violations.items() if v and k in ("callee-args", "known-callees", "stores")},
             "params": {n: set(fa.env.get(n, set())) for n in bound}}
        self._summaries[key] = r
        self.inferred_used.setdefault(q, []).append({"arguments": {n: sorted(t) for n, t in bound.items() if t},
                                                      "evals": [repr(x) for x in fa.evals], "internal": sorted(fa.internal),
                                                      "returns": sorted(fa.returns)})
        return r

    def _add(self, qual, node, cls, mod):
        self.functions[qual] = (node, cls, mod)
        a = node.args
        order = [x.arg for x in a.posonlyargs + a.args + a.kwonlyargs]
        self.param_order[qual] = order
        self.by_short.setdefault(node.name, []).append(qual)

    def resolve_callee(self, fa: FunctionAnalysis, f) -> Optional[Tuple[str, EffectContract, bool]]:
        """Module level functions and class constructors of the analysed modules (and assumed external contracts)."""
        d = _dotted(f)
        if d is None:
            return None
        last = d.split(".")[-1]
        if d.split(".")[0] in fa.env and d.split(".")[0] != "cls":
            return None
        mod = self.functions[fa.qualname][2]
        mi = self.repo.modules[mod]
        # assumed external contracts by dotted suffix (e.g. _parser.parse)
        for q, c in self.contracts.items():
            if c.assumed and (q.endswith("." + d) or q == d):
                self.param_order.setdefault(q, list(c.params.keys()))
                return q, c, False
        # constructors
        cls_name = None
        if last == "cls" and fa.cls_name:
            cls_name = fa.cls_name
        elif last[:1].isupper() or last.startswith("_C"):
            cls_name = last
        if cls_name:
            for q in self.functions:
                if q.endswith(".%s.__init__" % cls_name):
                    return q, self.contracts.get(q) or self.inferred(q), True
            return None
        # functions: local module first, then imported aliases
        r = self.repo.resolve_static(mi, f) if isinstance(f, (ast.Name, ast.Attribute)) else None
        qn = getattr(r, "qualname", None)
        if qn in self.functions and self.functions[qn][1] is None:
            return qn, self.contracts.get(qn) or self.inferred(qn), False
        if isinstance(f, ast.Attribute) and qn in self.functions:
            # Class.method referenced through the class (classmethod / staticmethod call)
            return qn, self.contracts.get(qn) or self.inferred(qn), self.param_order[qn][:1] in (["cls"], ["self"])
        if isinstance(f, ast.Attribute) and isinstance(f.value, ast.Name) and f.value.id == "cls" and fa.cls_name:
            for q in self.functions:
                if q.endswith(".%s.%s" % (fa.cls_name, f.attr)):
                    return q, self.contracts.get(q) or self.inferred(q), True
        return None

    def run(self):
        out = {}
        for q, (node, cls, mod) in sorted(self.functions.items()):
            fa = FunctionAnalysis(self, q, node, cls)
            fa.run()
            out[q] = fa
        return out


def check(repo, modules, contracts, class_fields, class_self_tag, callable_params=None, custom=None) -> Dict[str, Any]:
    """Run the checker; returns {"obligations": [...], "violations": [...], "summary": {...}} for the runner."""
    ck = EffectChecker(repo, modules, contracts, class_fields, class_self_tag, callable_params)
    res = ck.run()
    obligations, violations, per_fn = [], [], {}
    for q, fa in res.items():
        sq = q.replace("pydsdl.", "")
        per_fn[sq] = {"eval_sites": [repr(s) for s in fa.evals], "internal": sorted(fa.internal),
                      "declared": {"evals": sorted(fa.contract.evals), "internal": sorted(fa.contract.internal),
                                   "params": fa.contract.params, "returns": fa.contract.returns}}
        via_callers = q not in contracts and q in ck.inferred_used
        for kind, msgs in fa.violations.items():
            name = "%s/effect#%s" % (sq, kind)
            if via_callers:
                # no declared contract and called from analysed code: judged at its call sites through its inferred
                # summary (what it does with the provenance its callers actually hand it), not against the empty contract
                obligations.append({"name": name, "ok": True, "function": q,
                                    "detail": "inferred, not declared: judged at the call sites"})
            else:
                obligations.append({"name": name, "ok": not msgs, "detail": "; ".join(msgs), "function": q})
        if fa.contract.custom:
            for label, ok, detail in fa.contract.custom(fa):
                obligations.append({"name": "%s/effect#%s" % (sq, label), "ok": bool(ok), "detail": detail, "function": q})
    for o in obligations:
        if not o["ok"]:
            violations.append({"name": o["name"], "detail": o["detail"], "concrete": None})
    return {"check": "effects", "obligations": obligations, "violations": violations,
            "functions_analysed": len(res), "per_function": per_fn,
            "inferred_not_declared": {q.replace("pydsdl.", ""): v for q, v in sorted(ck.inferred_used.items())}}


# =====================================================================================================================
# EXPAND effect (C16): numerical expansion of a bit length set
# =====================================================================================================================
BLS_T, BLSN_T, CBLS_T = "BLS", "BLSN", "CBLS"   # a BitLengthSet / the divisor-bounded result of `%` / a container of them
CONSUMERS = {"set", "frozenset", "list", "tuple", "sorted", "len", "min", "max", "sum", "iter", "next", "any", "all", "map",
             "filter", "zip", "enumerate", "reversed", "dict"}


def _ann_type(ann: Optional[str]) -> Set[str]:
    """Abstract type of a value from its annotation text."""
    if not ann:
        return set()
    a = ann.replace("typing.", "").replace('"', "").replace("'", "").strip()
    if "BitLengthSet" not in a:
        return set()
    if a == "BitLengthSet" or a.startswith(("Union[", "Optional[")):
        return {BLS_T}
    return {CBLS_T}


class ExpandChecker:
    """Declared-vs-inferred EXPAND effect.  EXPAND sites of a function body:
         * a call `x.expand()` or of any function / method whose short name is a declared expander (callee effect from the
           callee's declaration, name based),
         * a may-be-BitLengthSet value (type BLS; not BLSN) consumed by iteration: `for`, comprehension, `*x`, an argument of
           set/list/tuple/sorted/len/min/max/sum/iter/next/any/all/map/filter/zip/enumerate/reversed/dict, right operand of `in`.
       Typing is by annotations and initialisers (assumption A6): parameters / returns / properties annotated with
       BitLengthSet, `BitLengthSet(...)`, `+` / `|` with such an operand, fields and locals assigned such expressions; the
       result of `bls % n` is BLSN (Nullary-backed, within [0, n): value-level contract of BitLengthSet.__mod__)."""

    def __init__(self, repo, modules: List[str], expanders: Dict[str, str]):
        self.repo = repo
        self.modules = modules
        self.expanders = expanders                 # qualname -> why it may expand
        self.expander_names = {q.split(".")[-1] for q in expanders}
        self.functions: Dict[str, Tuple[ast.AST, Optional[str], str]] = {}
        self.ret_type: Dict[str, Set[str]] = {}    # short name -> abstract type of the result (functions / properties)
        self.attr_type: Dict[str, Set[str]] = {}   # attribute name -> abstract type (fields, by assignment)
        for m in modules:
            mi = repo.modules[m]
            for st in mi.tree.body:
                if isinstance(st, ast.FunctionDef) and not st.name.startswith("_unittest"):
                    self.functions[m + "." + st.name] = (st, None, m)
                elif isinstance(st, ast.ClassDef):
                    self._index_class(m, m, st)
        for q, (node, cls, mod) in self.functions.items():
            t = _ann_type(ast.unparse(node.returns)) if node.returns is not None else set()
            self.ret_type.setdefault(node.name, set()).update(t)
        self.ret_type.setdefault("BitLengthSet", set()).add(BLS_T)

    def _index_class(self, m, prefix, st):
        for sub in st.body:
            if isinstance(sub, ast.FunctionDef):
                self.functions["%s.%s.%s" % (prefix, st.name, sub.name)] = (sub, st.name, m)
            elif isinstance(sub, ast.ClassDef):
                self._index_class(m, prefix + "." + st.name, sub)

    # ---------------------------------------------------------------- one function
    def analyse(self, q, final: bool):
        node, cls, mod = self.functions[q]
        env: Dict[str, Set[str]] = {}
        a = node.args
        params = a.posonlyargs + a.args + a.kwonlyargs
        for i, p in enumerate(params):
            t = _ann_type(ast.unparse(p.annotation)) if p.annotation is not None else set()
            if i == 0 and cls == "BitLengthSet" and p.arg == "self":
                t = {BLS_T}
            env[p.arg] = set(t)
        sites: List[str] = []
        rets: Set[str] = set()
        changed = [False]

        def bind(name, t):
            cur = env.setdefault(name, set())
            if not t <= cur:
                cur |= t
                changed[0] = True

        def elem(t):
            return {BLS_T} if CBLS_T in t else set()

        def site(n, what):
            if final:
                sites.append("line %d: %s" % (getattr(n, "lineno", 0), what))

        def consume(n, t, what):
            if BLS_T in t:
                site(n, "%s of a BitLengthSet" % what)

        def store(target, t):
            if isinstance(target, ast.Name):
                bind(target.id, t)
            elif isinstance(target, (ast.Tuple, ast.List)):
                for x in target.elts:
                    store(x.value if isinstance(x, ast.Starred) else x, elem(t) | (t & {BLS_T}))
            elif isinstance(target, ast.Attribute):
                ev(target.value)
                cur = self.attr_type.setdefault(target.attr, set())
                if not t <= cur:
                    cur |= t
                    changed[0] = True
            elif isinstance(target, ast.Subscript):
                ev(target.value)
                ev(target.slice)

        def ev(e) -> Set[str]:
            if e is None:
                return set()
            if isinstance(e, ast.Name):
                return set(env.get(e.id, set()))
            if isinstance(e, ast.Attribute):
                ev(e.value)
                if e.attr in self.expander_names and e.attr in self.properties and isinstance(e.ctx, ast.Load):
                    site(e, "read of the declared expander property %s" % e.attr)
                out = set(self.attr_type.get(e.attr, set()))
                out |= self.ret_type.get(e.attr, set()) if e.attr in self.properties else set()
                return out
            if isinstance(e, ast.Call):
                return call(e)
            if isinstance(e, ast.BinOp):
                l, r = ev(e.left), ev(e.right)
                if isinstance(e.op, ast.Mod):
                    return {BLSN_T} if BLS_T in l else set()
                if isinstance(e.op, (ast.Add, ast.BitOr)) and (BLS_T in l or BLS_T in r):
                    return {BLS_T}
                return set()
            if isinstance(e, ast.Compare):
                ev(e.left)
                for op, c in zip(e.ops, e.comparators):
                    t = ev(c)
                    if isinstance(op, (ast.In, ast.NotIn)):
                        consume(c, t, "membership test")
                return set()
            if isinstance(e, (ast.ListComp, ast.SetComp, ast.GeneratorExp, ast.DictComp)):
                for g in e.generators:
                    t = ev(g.iter)
                    consume(g.iter, t, "iteration")
                    store(g.target, elem(t))
                    for c in g.ifs:
                        ev(c)
                if isinstance(e, ast.DictComp):
                    ev(e.key)
                    ev(e.value)
                    return set()
                return {CBLS_T} if BLS_T in ev(e.elt) else set()
            if isinstance(e, (ast.List, ast.Tuple, ast.Set)):
                out: Set[str] = set()
                for x in e.elts:
                    if isinstance(x, ast.Starred):
                        t = ev(x.value)
                        consume(x, t, "unpacking")
                    else:
                        out |= ev(x)
                return {CBLS_T} if (BLS_T in out or CBLS_T in out) else set()
            if isinstance(e, ast.Subscript):
                ev(e.slice)
                t = ev(e.value)
                return elem(t) | ({CBLS_T} if CBLS_T in t and isinstance(e.slice, ast.Slice) else set())
            if isinstance(e, ast.IfExp):
                ev(e.test)
                return ev(e.body) | ev(e.orelse)
            if isinstance(e, ast.BoolOp):
                out = set()
                for v in e.values:
                    out |= ev(v)
                return out
            if isinstance(e, ast.Lambda):
                return ev(e.body)
            if isinstance(e, ast.Starred):
                t = ev(e.value)
                consume(e, t, "unpacking")
                return set()
            if isinstance(e, (ast.Yield, ast.YieldFrom, ast.Await)):
                return ev(e.value)
            out = set()
            for c in ast.iter_child_nodes(e):
                if isinstance(c, ast.expr):
                    ev(c)
            return out

        def call(c: ast.Call) -> Set[str]:
            f = c.func
            name = f.id if isinstance(f, ast.Name) else (f.attr if isinstance(f, ast.Attribute) else None)
            if isinstance(f, ast.Attribute):
                ev(f.value)
            argt = [ev(x.value if isinstance(x, ast.Starred) else x) for x in c.args]
            for x, t in zip(c.args, argt):
                if isinstance(x, ast.Starred):
                    consume(x, t, "unpacking")
            kwt = {k.arg: ev(k.value) for k in c.keywords}
            if name in REFLECTION and isinstance(f, ast.Name):
                site(c, "reflection builtin %s (A1)" % name)
            if name in self.expander_names:
                site(c, "call of the declared expander %s" % name)
            if isinstance(f, ast.Name) and name in CONSUMERS:
                for x, t in zip(c.args, argt):
                    consume(x, t, "%s()" % name)
                # lambdas given to map/filter/sorted receive the elements
                for x in c.args:
                    if isinstance(x, ast.Lambda):
                        for p in x.args.args:
                            for t in argt:
                                bind(p.arg, elem(t))
                if name in ("list", "tuple", "sorted", "reversed", "set", "frozenset", "filter"):
                    return {CBLS_T} if any(CBLS_T in t for t in argt) else set()
                if name in ("next", "min", "max"):
                    out = set()
                    for t in argt:
                        out |= elem(t)
                    return out
                return set()
            if name is not None and name in self.ret_type:
                return set(self.ret_type[name])
            return set()

        def walk(stmts):
            for st in stmts:
                if isinstance(st, (ast.FunctionDef, ast.AsyncFunctionDef)):
                    for p in st.args.args + st.args.kwonlyargs:
                        bind(p.arg, _ann_type(ast.unparse(p.annotation)) if p.annotation is not None else set())
                    walk(st.body)
                elif isinstance(st, ast.ClassDef):
                    walk([x for x in st.body if isinstance(x, ast.FunctionDef)])
                elif isinstance(st, ast.Return):
                    rets.update(ev(st.value))
                elif isinstance(st, ast.Assign):
                    t = ev(st.value)
                    for tg in st.targets:
                        store(tg, t)
                elif isinstance(st, ast.AnnAssign):
                    t = ev(st.value) | _ann_type(ast.unparse(st.annotation))
                    store(st.target, t)
                elif isinstance(st, ast.AugAssign):
                    t = ev(st.value)
                    cur = ev(_as_load(st.target))
                    if isinstance(st.op, (ast.Add, ast.BitOr)) and (BLS_T in t or BLS_T in cur):
                        store(st.target, {BLS_T})
                    elif isinstance(st.op, ast.BitOr) or isinstance(st.op, ast.Add):
                        store(st.target, t)
                elif isinstance(st, (ast.For, ast.AsyncFor)):
                    t = ev(st.iter)
                    consume(st.iter, t, "iteration")
                    store(st.target, elem(t))
                    walk(st.body)
                    walk(st.orelse)
                elif isinstance(st, ast.While):
                    ev(st.test)
                    walk(st.body)
                    walk(st.orelse)
                elif isinstance(st, ast.If):
                    ev(st.test)
                    walk(st.body)
                    walk(st.orelse)
                elif isinstance(st, (ast.With, ast.AsyncWith)):
                    for it in st.items:
                        t = ev(it.context_expr)
                        if it.optional_vars is not None:
                            store(it.optional_vars, t)
                    walk(st.body)
                elif isinstance(st, ast.Try):
                    walk(st.body)
                    for h in st.handlers:
                        walk(h.body)
                    walk(st.orelse)
                    walk(st.finalbody)
                elif isinstance(st, ast.Expr):
                    ev(st.value)
                elif isinstance(st, ast.Assert):
                    ev(st.test)
                    ev(st.msg)
                elif isinstance(st, ast.Raise):
                    ev(st.exc)
                elif isinstance(st, (ast.Global, ast.Nonlocal)):
                    site(st, "global / nonlocal statement (A1)")
                elif isinstance(st, ast.Delete):
                    pass

        for _ in range(6):
            changed[0] = False
            walk(node.body)
            if not changed[0]:
                break
        cur = self.ret_type.setdefault(node.name, set())
        new_ret = rets - cur
        cur |= rets
        return sites, bool(new_ret) or changed[0]

    def run(self):
        self.properties = {node.name for q, (node, cls, mod) in self.functions.items()
                           if any(isinstance(d, ast.Name) and d.id == "property" for d in node.decorator_list)}
        # global fixpoint of result / field types, then the judging pass
        for _ in range(6):
            moved = False
            for q in self.functions:
                _, ch = self.analyse(q, final=False)
                moved = moved or ch
            if not moved:
                break
        out = {}
        for q in sorted(self.functions):
            sites, _ = self.analyse(q, final=True)
            out[q] = sites
        return out


def check_expand(repo, modules, expanders: Dict[str, str], must_be_free: List[str], baseline_free=()) -> Dict[str, Any]:
    """`baseline_free`: functions whose EXPAND-freedom is part of the baseline (ledger).  A *private* function that is neither
    declared an expander, nor listed in `must_be_free`, nor in the baseline - i.e. a helper introduced by a refactoring - may be
    an **inferred expander**: its own obligation is named `expand-inferred` and holds, its short name joins the expander names,
    and every caller is judged with that (callee effect from the inferred summary): a declared-free caller then fails."""
    expanders = dict(expanders)
    for q in list(expanders) + list(must_be_free):
        if q not in ExpandChecker(repo, modules, expanders).functions:
            raise KeyError("EXPAND contract for unknown function %s" % q)
    inferred: Dict[str, str] = {}
    protected = set(must_be_free) | set(baseline_free)
    for _ in range(6):
        ck = ExpandChecker(repo, modules, dict(expanders, **inferred))
        res = ck.run()
        new = {}
        for q, sites in res.items():
            name = q.split(".")[-1]
            private = name.startswith("_") and not (name.startswith("__") and name.endswith("__"))
            if sites and q not in expanders and q not in inferred and q not in protected and private:
                new[q] = "inferred from its body: " + "; ".join(sites)[:300]
        if not new:
            break
        inferred.update(new)
    obligations, per_fn = [], {}
    for q, sites in res.items():
        sq = q.replace("pydsdl.", "")
        declared = q in expanders
        if sites:
            per_fn[sq] = {"declared_expander": declared, "inferred_expander": q in inferred, "sites": sites}
        ok = declared or q in inferred or not sites
        kind = "declared" if declared else ("inferred" if q in inferred else "free")
        obligations.append({"name": "%s/effect#expand-%s" % (sq, kind), "ok": ok,
                            "detail": "" if ok else "EXPAND sites in a function declared EXPAND-free: " + "; ".join(sites),
                            "function": q})
    return {"check": "effects-expand", "obligations": obligations, "violations": [], "functions_analysed": len(res),
            "expand_sites": per_fn, "inferred_not_declared": {q.replace("pydsdl.", ""): w for q, w in sorted(inferred.items())},
            "types": {"attributes": {k: sorted(v) for k, v in ck.attr_type.items() if v},
                      "results": {k: sorted(v) for k, v in ck.ret_type.items() if v}}}
