"""
Symbolic values of the executor and the 'kinds' that describe how a Python value of a given static type
is represented in SMT.

Concrete Python values (int, bool, str, None, tuple, PyList, ...) are kept concrete wherever possible;
z3 terms are used for symbolic ints / bools / strings / reals.
"""
from __future__ import annotations
import z3
from typing import Any, Callable, Dict, List, Optional

RefSort = z3.DeclareSort("Ref")
IntSetSort = z3.ArraySort(z3.IntSort(), z3.BoolSort())
StrSetSort = z3.ArraySort(z3.StringSort(), z3.BoolSort())


class EngineLimit(Exception):
    """A construct outside the supported subset was met in a function under contract (undecided, not a violation)."""


# --------------------------------------------------------------------------------------------------------------
class Obj:
    """
    An object. `fields is None`: abstract object, immutable, fields are uninterpreted functions of `ref`.
    `fields` a dict: materialised object (self of the function under verification, or allocated on this path).
    `exact`: the dynamic class is exactly `cls` (otherwise `cls` is an upper bound, closed world over the repo).
    """

    __slots__ = ("cls", "exact", "ref", "fields", "ctx", "ghost")

    def __init__(self, cls, exact, ref, fields, ctx):
        object.__setattr__(self, "cls", cls)
        object.__setattr__(self, "exact", exact)
        object.__setattr__(self, "ref", ref)
        object.__setattr__(self, "fields", fields)
        object.__setattr__(self, "ctx", ctx)
        object.__setattr__(self, "ghost", {})

    # Spec code reads attributes of engine objects exactly like it reads attributes of real objects.
    def __getattr__(self, name):
        if name.startswith("__") and name.endswith("__"):
            raise AttributeError(name)
        return self.ctx.engine.spec_getattr(self, name)

    def __repr__(self):
        return "<Obj %s%s %s>" % (self.cls.name, "" if self.exact else "+", self.ref)


class SymSet:
    """A Python set/frozenset of ints (or strings): z3 array elem -> Bool. `fresh`: allocated by this function."""

    def __init__(self, term, elem_sort=None, fresh=False):
        self.term = term
        self.elem_sort = elem_sort if elem_sort is not None else term.sort().domain()
        self.fresh = fresh

    def __repr__(self):
        return "<SymSet %s>" % self.term


class SymSeq:
    """A list/tuple with symbolic length: z3 array Int -> sort(kind), plus a length term."""

    def __init__(self, arr, length, kind, fresh=False):
        self.arr = arr
        self.length = length
        self.kind = kind
        self.fresh = fresh

    def at(self, ctx, i):
        return self.kind.wrap(ctx, z3.Select(self.arr, i))

    def __repr__(self):
        return "<SymSeq len=%s>" % self.length


class SymMap:
    """A dict with symbolic contents: has: key -> Bool, val: key -> sort(kind)."""

    def __init__(self, has, val, kkind, vkind):
        self.has = has
        self.val = val
        self.kkind = kkind
        self.vkind = vkind


class OptV:
    """Optional[T]: `is_none` (z3 Bool or python bool) and the value when present."""

    def __init__(self, is_none, val):
        self.is_none = is_none
        self.val = val

    def __repr__(self):
        return "<Opt none=%s val=%s>" % (self.is_none, self.val)


class RecV:
    """A NamedTuple-like record with named components (e.g. Version(major, minor))."""

    def __init__(self, name, comps: Dict[str, Any]):
        self.name = name
        self.comps = comps

    def __getattr__(self, n):
        comps = self.__dict__.get("comps", {})
        if n in comps:
            return comps[n]
        raise AttributeError(n)

    def __repr__(self):
        return "<Rec %s %s>" % (self.name, self.comps)


class PyList:
    """A concrete-length Python list (mutable, identity matters)."""

    def __init__(self, items, fresh=True):
        self.items = list(items)
        self.fresh = fresh

    def __repr__(self):
        return "<PyList %r>" % (self.items,)


class PySet:
    """A concrete Python set of concrete hashable values (used for small literal sets such as {8, 16, 32, 64})."""

    def __init__(self, items, fresh=True):
        self.items = list(items)
        self.fresh = fresh


class PyDict:
    def __init__(self, items=None):
        self.items = dict(items or {})


class Combos:
    """itertools.combinations_with_replacement(S, k): iterating yields tuples whose sum ranges over kfold(S, k)."""

    def __init__(self, base: SymSet, k):
        self.base = base
        self.k = k


class ComboTuple:
    """One (arbitrary) tuple of a Combos / Product iteration; only its sum is observable."""

    def __init__(self, total):
        self.total = total


class Product:
    """itertools.product(*seq_of_sets)."""

    def __init__(self, sets):
        self.sets = sets  # SymSeq of sets or PyList of SymSet


class RangeV:
    def __init__(self, lo, hi, step=1):
        self.lo, self.hi, self.step = lo, hi, step


class Closure:
    def __init__(self, finfo, env, defaults=None):
        self.finfo = finfo
        self.env = env
        self.defaults = defaults or {}


class BoundMethod:
    def __init__(self, obj, finfo):
        self.obj = obj
        self.finfo = finfo


class ClassVal:
    def __init__(self, cls):
        self.cls = cls

    def __repr__(self):
        return "<ClassVal %s>" % self.cls.name


class ExtClass:
    """A class that is not defined in the repository (builtin exceptions, int, str, ...)."""

    def __init__(self, name):
        self.name = name

    def __repr__(self):
        return "<ExtClass %s>" % self.name

    def __eq__(self, other):
        return isinstance(other, ExtClass) and other.name == self.name

    def __hash__(self):
        return hash(self.name)


class ModuleVal:
    def __init__(self, mod):
        self.mod = mod


class ExtModule:
    def __init__(self, name):
        self.name = name


class Builtin:
    def __init__(self, name, bound=None):
        self.name = name
        self.bound = bound

    def __repr__(self):
        return "<Builtin %s>" % self.name


class Opaque:
    """A value the engine does not model (messages, reprs, loggers). Any use that matters is an EngineLimit."""

    def __init__(self, what=""):
        self.what = what

    def __repr__(self):
        return "<Opaque %s>" % self.what


class ExcVal:
    def __init__(self, cls, args=(), kwargs=None):
        self.cls = cls  # ClassInfo or ExtClass
        self.args = list(args)
        self.kwargs = dict(kwargs or {})
        self.fields: Dict[str, Any] = {}

    @property
    def clsname(self):
        return self.cls.name

    def __repr__(self):
        return "<Exc %s>" % self.clsname


class GeneratorV:
    """Result of calling a generator function: the finite sequence of yielded values (concrete list of values)."""

    def __init__(self, items):
        self.items = items


# --------------------------------------------------------------------------------------------------------------
# Kinds
class Kind:
    def sort(self):
        raise NotImplementedError

    def wrap(self, ctx, term):
        raise NotImplementedError

    def unwrap(self, value):
        """Value -> z3 term of self.sort()."""
        raise NotImplementedError

    def build(self, ctx, mk: Callable[[str, Any], Any]):
        """Build a value out of terms produced by mk(suffix, sort)."""
        return self.wrap(ctx, mk("", self.sort()))


class _Int(Kind):
    def sort(self):
        return z3.IntSort()

    def wrap(self, ctx, term):
        return term

    def unwrap(self, v):
        if isinstance(v, bool):
            return z3.IntVal(int(v))
        if isinstance(v, int):
            return z3.IntVal(v)
        if z3.is_bool(v):
            return z3.If(v, 1, 0)
        return v

    def __repr__(self):
        return "Int"


class _Bool(Kind):
    def sort(self):
        return z3.BoolSort()

    def wrap(self, ctx, term):
        return term

    def unwrap(self, v):
        if isinstance(v, bool):
            return z3.BoolVal(v)
        return v

    def __repr__(self):
        return "Bool"


class _Str(Kind):
    def sort(self):
        return z3.StringSort()

    def wrap(self, ctx, term):
        return term

    def unwrap(self, v):
        if isinstance(v, str):
            return z3.StringVal(v)
        return v

    def __repr__(self):
        return "Str"


class _Real(Kind):
    def sort(self):
        return z3.RealSort()

    def wrap(self, ctx, term):
        return term

    def unwrap(self, v):
        if isinstance(v, (int, bool)):
            return z3.RealVal(int(v))
        if z3.is_int(v):
            return z3.ToReal(v)
        return v

    def __repr__(self):
        return "Real"


class _IntSet(Kind):
    def sort(self):
        return IntSetSort

    def wrap(self, ctx, term):
        return SymSet(term)

    def build(self, ctx, mk):
        t = mk("", self.sort())
        fin = z3.Function("finite", IntSetSort, z3.BoolSort())
        if not ctx.bound:
            ctx.assume(fin(t))  # every Python set is finite
        return SymSet(t)

    def unwrap(self, v):
        if isinstance(v, SymSet):
            return v.term
        raise EngineLimit("expected a symbolic set, got %r" % (v,))

    def __repr__(self):
        return "IntSet"


Int, Bool, Str, Real, IntSet = _Int(), _Bool(), _Str(), _Real(), _IntSet()


class ObjOf(Kind):
    def __init__(self, clsname: str, exact: bool = False):
        self.clsname = clsname
        self.exact = exact

    def sort(self):
        return RefSort

    def wrap(self, ctx, term):
        return Obj(ctx.engine.repo.cls(self.clsname), self.exact, term, None, ctx)

    def unwrap(self, v):
        if isinstance(v, Obj):
            return v.ref
        raise EngineLimit("expected an object, got %r" % (v,))

    def __repr__(self):
        return "ObjOf(%s)" % self.clsname


class Opt(Kind):
    def __init__(self, inner: Kind):
        self.inner = inner

    def build(self, ctx, mk):
        return OptV(mk("!none", z3.BoolSort()), self.inner.build(ctx, lambda s, so: mk("!val" + s, so)))

    def sort(self):
        raise EngineLimit("Opt has no single sort")

    def __repr__(self):
        return "Opt(%r)" % self.inner


class Rec(Kind):
    def __init__(self, name: str, **comps: Kind):
        self.name = name
        self.comps = comps

    def build(self, ctx, mk):
        return RecV(self.name, {n: k.build(ctx, lambda s, so, n=n: mk("!" + n + s, so)) for n, k in self.comps.items()})

    def sort(self):
        raise EngineLimit("Rec has no single sort")

    def __repr__(self):
        return "Rec(%s)" % self.name


class SeqOf(Kind):
    def __init__(self, inner: Kind):
        self.inner = inner

    def build(self, ctx, mk):
        arr = mk("!arr", z3.ArraySort(z3.IntSort(), self.inner.sort()))
        length = mk("!len", z3.IntSort())
        ctx.assume(length >= 0)
        if not getattr(ctx, "under_quantifier", False):
            ctx.assume(length < 2 ** 63)  # CPython: len() of a list / tuple fits Py_ssize_t
        return SymSeq(arr, length, self.inner)

    def sort(self):
        raise EngineLimit("SeqOf has no single sort")

    def __repr__(self):
        return "SeqOf(%r)" % self.inner


class MapOf(Kind):
    def __init__(self, k: Kind, v: Kind):
        self.k, self.v = k, v

    def build(self, ctx, mk):
        return SymMap(
            mk("!has", z3.ArraySort(self.k.sort(), z3.BoolSort())),
            mk("!val", z3.ArraySort(self.k.sort(), self.v.sort())),
            self.k,
            self.v,
        )

    def sort(self):
        raise EngineLimit("MapOf has no single sort")


class Const(Kind):
    """A field whose value is a fixed concrete python value."""

    def __init__(self, value):
        self.value = value

    def build(self, ctx, mk):
        return self.value


def is_sym(v) -> bool:
    return isinstance(v, z3.ExprRef)


# --------------------------------------------------------------------------------------------------------------
class EnumV:
    """Member of an enum.Enum class defined in the repository; `term` is the member's ordinal (z3 Int)."""

    def __init__(self, cls, name, term):
        self.cls = cls
        self.name = name  # None when symbolic
        self.term = term

    def __repr__(self):
        return "<Enum %s.%s>" % (self.cls.name, self.name or self.term)


class EnumOf(Kind):
    def __init__(self, clsname: str):
        self.clsname = clsname

    def sort(self):
        return z3.IntSort()

    def wrap(self, ctx, term):
        cls = ctx.engine.class_by_name(self.clsname)
        n = len(ctx.engine.enum_members(cls))
        ctx.assume(z3.And(term >= 0, term < n))
        return EnumV(cls, None, term)

    def unwrap(self, v):
        return v.term


class ClassTagV:
    """type(x) of an abstract object."""

    def __init__(self, term):
        self.term = term


class FractionV:
    """fractions.Fraction: exact rational, z3 Real."""

    def __init__(self, term):
        self.term = term

    def __repr__(self):
        return "<Fraction %s>" % self.term


class _Frac(Kind):
    def sort(self):
        return z3.RealSort()

    def wrap(self, ctx, term):
        return FractionV(term)

    def unwrap(self, v):
        if isinstance(v, FractionV):
            return v.term
        return Real.unwrap(v)

    def __repr__(self):
        return "Frac"


Frac = _Frac()


class FloatV:
    """A concrete float literal (floats are not modelled symbolically)."""

    def __init__(self, value):
        self.value = value


class Sentinel:
    def __init__(self, name):
        self.name = name


class StarArgs:
    def __init__(self, seq):
        self.seq = seq


class Partial:
    def __init__(self, fn, args, kwargs):
        self.fn, self.args, self.kwargs = fn, args, kwargs


class MappedIter:
    """map(fn, iterable) / a generator expression: evaluated lazily by its consumer."""

    def __init__(self, fn, it, node=None, env=None):
        self.fn, self.it = fn, it
        self.node, self.env = node, env


class ConcreteIter:
    def __init__(self, items):
        self.items = list(items)
        self.pos = 0


class ValueSet:
    """A concrete-size set of arbitrary (possibly symbolic) values, e.g. set(map(type, xs))."""

    def __init__(self, items):
        self.items = list(items)


class GroupDict:
    """collections.defaultdict(list) filled by `for t in seq: d[key(t)].append(t)`: groups of a sequence by a key."""

    def __init__(self):
        self.src = None      # SymSeq
        self.key = None      # key term, mentioning self.const
        self.const = None    # the index constant the key term is stated over
        self.fresh = True


class GroupSlot:
    def __init__(self, d, key):
        self.d = d
        self.key = key


class GroupValues:
    def __init__(self, d):
        self.d = d


class RecClass:
    """typing.NamedTuple(name, fields): calling it builds a RecV."""

    def __init__(self, name, fields):
        self.name = name
        self.fields = list(fields)


class BytesOf:
    """str.encode('utf8') of a (symbolic) string: only its length and - for one byte - its ordinal are observable."""

    def __init__(self, s):
        self.s = s


# --------------------------------------------------------------------------------------------------------------
# bytes / bytearray (added for the serdes bit layer, C06/C07)
class BytesV:
    """bytes (immutable) or bytearray (`mutable`): z3 array Int -> Int of byte values plus a length term.
       `view` = (base_arr, base_len, start_byte, span): for 0 <= i < span the zero-extended byte i of this value is the
       zero-extended byte start_byte + i of the base (provenance of slices / zero padding; see bittheory)."""

    def __init__(self, arr, length, mutable=False, view=None, concrete=None, fresh=True):
        self.arr = arr
        self.length = length
        self.mutable = mutable
        self.view = view
        self.concrete = concrete  # python bytes when the value is a literal
        self.fresh = fresh

    def __repr__(self):
        return "<%s len=%s>" % ("bytearray" if self.mutable else "bytes", self.length)


class _Bytes(Kind):
    """Kind of a bytes / bytearray value: every element is a byte (0..255), the length is non-negative."""

    def __init__(self, mutable=False):
        self.mutable = mutable

    def build(self, ctx, mk):
        arr = mk("!bytes", z3.ArraySort(z3.IntSort(), z3.IntSort()))
        n = mk("!len", z3.IntSort())
        ctx.assume(n >= 0)
        return BytesV(arr, n, mutable=self.mutable, fresh=self.mutable)  # a bytearray field is owned by its object

    def sort(self):
        raise EngineLimit("Bytes has no single sort")

    def __repr__(self):
        return "ByteArray" if self.mutable else "Bytes"


Bytes = _Bytes(False)
ByteArray = _Bytes(True)



# --------------------------------------------------------------------------------------------------------------
# Mutable object graphs (builders): materialised nested objects, concrete-length lists of them, defunctionalised closures
class SymClosure:
    """A closure stored in a field, defunctionalised: `tag` 0 = None, k >= 1 = the lambda of the k-th site (a function of
    the repository that contains exactly one lambda); `slots` are the values of the site function's non-self parameters
    (by position) that the lambda captured; `owner` is the object bound to the site function's `self`."""

    def __init__(self, tag, sites, slots, owner=None):
        self.tag = tag
        self.sites = list(sites)
        self.slots = list(slots)
        self.owner = owner

    def __repr__(self):
        return "<SymClosure tag=%s>" % (self.tag,)


class ClosureOf(Kind):
    def __init__(self, sites, slots):
        self.sites = list(sites)      # qualified names of the functions whose (single) lambda may be stored
        self.slot_kinds = list(slots)

    def build(self, ctx, mk):
        tag = mk("!tag", z3.IntSort())
        ctx.assume(z3.And(tag >= 0, tag <= len(self.sites)))
        slots = [k.build(ctx, lambda s, so, i=i: mk("!slot%d%s" % (i, s), so)) for i, k in enumerate(self.slot_kinds)]
        for v in slots:
            ctx.engine.assume_wellformed(ctx, v)
        return SymClosure(tag, self.sites, slots)

    def sort(self):
        raise EngineLimit("ClosureOf has no single sort")


class MutObjOf(Kind):
    """A materialised (mutable) object of exactly the given class; its fields are built from the class specification
    (or from `overrides`).  Closures stored in its fields are bound to it."""

    def __init__(self, clsname: str, **overrides):
        self.clsname = clsname
        self.overrides = overrides

    def build(self, ctx, mk):
        eng = ctx.engine
        cls = eng.repo.cls(self.clsname)
        ref = mk("", RefSort)
        ctx.assume(eng.tag_fn(ref) == eng.class_id(cls))
        kinds = dict(eng.all_field_kinds(cls))
        kinds.update(self.overrides)
        fields = {}
        obj = Obj(cls, True, ref, fields, ctx)
        for n, k in kinds.items():
            if isinstance(k, Kind):
                v = k.build(ctx, lambda s, so, n=n: mk("." + n + s, so))
                eng.assume_wellformed(ctx, v)
            else:
                v = k
            fields[n] = v
        bind_owner(obj)
        return obj

    def sort(self):
        raise EngineLimit("MutObjOf has no single sort")

    def __repr__(self):
        return "%s%s" % (self.clsname.split(".")[-1], "{%s}" % ",".join("%s=%r" % kv for kv in sorted(self.overrides.items()))
                         if self.overrides else "")


class ListK(Kind):
    """A Python list of concrete length whose items are built from the given kinds."""

    def __init__(self, *kinds):
        self.kinds = list(kinds)

    def build(self, ctx, mk):
        return PyList([k.build(ctx, lambda s, so, i=i: mk("[%d]%s" % (i, s), so)) for i, k in enumerate(self.kinds)])

    def __repr__(self):
        return "list-of-%d" % len(self.kinds)

    def sort(self):
        raise EngineLimit("ListK has no single sort")


def bind_owner(obj: "Obj"):
    """Closures stored in fields of a materialised object capture that object as `self`; owned lists may be mutated."""
    for v in obj.fields.values():
        if isinstance(v, SymClosure) and v.owner is None:
            v.owner = obj
        if isinstance(v, SymSeq):
            v.owned = True


class Recorder:
    """An abstract callable received from the environment (e.g. a print handler): every call is recorded
    (positional arguments) in `calls`; it returns None and raises nothing (assumed for handlers)."""

    def __init__(self, name="callable"):
        self.name = name
        self.calls = PyList([])

    def __repr__(self):
        return "<Recorder %s %d calls>" % (self.name, len(self.calls.items))


class RecorderK(Kind):
    def __init__(self, name="callable"):
        self.name = name

    def build(self, ctx, mk):
        r = Recorder(self.name)
        ctx.__dict__.setdefault("recorders", []).append(r)  # the recorded callables of this path (ghost builtins inspect them)
        return r

    def sort(self):
        raise EngineLimit("RecorderK has no single sort")

    def __repr__(self):
        return "recorded-%s" % self.name


class TupleK(Kind):
    """A Python tuple of fixed length whose components are built from the given kinds (a Const for fixed values)."""

    def __init__(self, *kinds):
        self.kinds = list(kinds)

    def build(self, ctx, mk):
        out = []
        for i, k in enumerate(self.kinds):
            v = k.build(ctx, lambda s, so, i=i: mk("(%d)%s" % (i, s), so))
            ctx.engine.assume_wellformed(ctx, v)
            out.append(v)
        return tuple(out)

    def sort(self):
        raise EngineLimit("TupleK has no single sort")

    def __repr__(self):
        return "tuple-of-%d" % len(self.kinds)
PathSort = z3.DeclareSort("Path")


class PathV:
    """A pathlib pure path: opaque term; .parent/.stem/.name/.parts are uninterpreted functions (libmodel.path_attr)
    unless given explicitly in `attrs` (a specification may fix e.g. the basename as a JoinedStr of components)."""

    def __init__(self, term, attrs=None):
        self.term = term
        self.attrs = dict(attrs or {})


class JoinedStr:
    """A string given as `sep.join(parts)` where no part contains the one-character separator: `split(sep)` returns the
    parts (str.join / str.split are mutually inverse there); any other use goes through `term` (the concatenation)."""

    def __init__(self, parts, sep: str):
        self.parts = list(parts)
        self.sep = sep

    @property
    def term(self):
        items = []
        for k, p_ in enumerate(self.parts):
            if k:
                items.append(z3.StringVal(self.sep))
            items.append(p_ if isinstance(p_, z3.ExprRef) else z3.StringVal(p_))
        return z3.Concat(*items) if len(items) > 1 else items[0]

    def __repr__(self):
        return "<Path %s>" % self.term


class _PathK(Kind):
    def sort(self):
        return PathSort

    def wrap(self, ctx, term):
        return PathV(term)

    def unwrap(self, v):
        if isinstance(v, PathV):
            return v.term
        raise EngineLimit("expected a path, got %r" % (v,))

    def __repr__(self):
        return "PathK"


PathK = _PathK()


class _StrSet(Kind):
    """A Python set of strings."""

    def sort(self):
        return StrSetSort

    def wrap(self, ctx, term):
        return SymSet(term, z3.StringSort())

    def unwrap(self, v):
        if isinstance(v, SymSet):
            return v.term
        raise EngineLimit("expected a set of strings, got %r" % (v,))

    def __repr__(self):
        return "StrSet"


StrSet = _StrSet()
PyValSort = z3.DeclareSort("PyVal")


class _Val(Kind):
    """An immutable Python value that is only compared and hashed (e.g. a frozenset of objects): uninterpreted sort;
    `==` is term equality and hash() an uninterpreted function of the term (ASSUMED: hash consistent with ==)."""

    def sort(self):
        return PyValSort

    def wrap(self, ctx, term):
        return term

    def unwrap(self, v):
        return v

    def __repr__(self):
        return "Val"


Val = _Val()


# --------------------------------------------------------------------------------------------------------------
class MutInvObjOf(MutObjOf):
    """MutObjOf whose object additionally satisfies its class invariant (parameters / results such as the bit reader /
       writer: every method of the class re-establishes the invariant, see `invariant_at_calls`)."""

    def build(self, ctx, mk):
        o = MutObjOf.build(self, ctx, lambda s, so: mk("!ref" + s if s == "" else s, so))
        from .symexec import lift_bool

        for label, inv in ctx.engine.class_invariants(ctx, o):
            ctx.assume(lift_bool(inv))
        return o

    def __repr__(self):
        return "MutInvObjOf(%s)" % self.clsname


class _AnyValue(Kind):
    """A Python value the contracts say nothing about (deserialized objects): opaque."""

    def build(self, ctx, mk):
        return Opaque("any value")

    def sort(self):
        raise EngineLimit("AnyValue has no sort")

    def __repr__(self):
        return "AnyValue"


AnyValue = _AnyValue()


class PairProduct:
    """itertools.product(A, B) of two symbolic sets whose elements are not integers: iterating yields the pairs (a, b)."""

    def __init__(self, a, b):
        self.a, self.b = a, b


class RepeatV:
    """itertools.repeat(x): the same object again and again."""

    def __init__(self, item):
        self.item = item


class ZipPairsRepeat:
    """zip(product(A, B), repeat(x)): the pairs ((a, b), x)."""

    def __init__(self, prod, rep):
        self.prod, self.rep = prod, rep


class LazyFilter:
    """filter(pred, <symbolic iteration>) that has not been consumed yet (only `next(it, default)` is modelled)."""

    def __init__(self, fn, src):
        self.fn, self.src = fn, src


class SeqIter:
    """iter(<symbolic sequence>): position is concrete (only next() a bounded number of times)."""

    def __init__(self, seq):
        self.seq = seq
        self.pos = 0


class EnumSeq:
    """enumerate(<symbolic sequence>, start)"""

    def __init__(self, seq, start=0):
        self.seq = seq
        self.start = start


class YieldSeq:
    """The sequence of values yielded so far by a generator under verification when yields happen inside a loop over a
    symbolic domain: a count and, per tuple component, an array index -> value.  After the havoc at a loop head the arrays
    are fresh constants of a new epoch (the loop invariant restates what they hold)."""

    _epochs = [0]

    def __init__(self, ctx):
        self.ctx = ctx
        self.count = z3.IntVal(0)
        self.width = None
        self.arrays = {}
        self._new_epoch()

    def _new_epoch(self):
        YieldSeq._epochs[0] += 1
        self.epoch = YieldSeq._epochs[0]
        self.arrays = {}

    def _arr(self, k, sort):
        key = (k, str(sort))
        if key not in self.arrays:
            self.arrays[key] = z3.Const("yield!%d!%d!%s" % (self.epoch, k, sort), z3.ArraySort(z3.IntSort(), sort))
        return key, self.arrays[key]

    def push(self, value):
        comps = list(value) if isinstance(value, tuple) else [value]
        if self.width is None:
            self.width = len(comps) if isinstance(value, tuple) else 0
        for k, c in enumerate(comps):
            if isinstance(c, Obj):
                t = c.ref
            elif isinstance(c, bool):
                t = z3.BoolVal(c)
            elif isinstance(c, int):
                t = z3.IntVal(c)
            elif isinstance(c, z3.ExprRef):
                t = c
            else:
                raise EngineLimit("yield of %r inside a loop over a symbolic domain" % (c,))
            key, arr = self._arr(k, t.sort())
            self.arrays[key] = z3.Store(arr, self.count, t)
        self.count = self.count + 1

    def havoc(self):
        self._new_epoch()
        self.count = self.ctx.fresh("yield!count", z3.IntSort())
        self.ctx.assume(self.count >= 0)

    def item(self, j, *kinds):
        """the j-th yielded value read with the given component kinds (one kind: the value itself, several: a tuple)"""
        out = []
        for k, kind in enumerate(kinds):
            _, arr = self._arr(k, kind.sort())
            out.append(kind.wrap(self.ctx, z3.Select(arr, j)))
        return tuple(out) if len(out) != 1 else out[0]
