"""
Bit-layer theory for the serdes properties (C06 / C07 / C14): spec functions over byte strings with two readings
(SMT: uninterpreted functions + *ground instances* of their defining equations and of Lean-proved lemmas; native: brute
force on real bytes).

    byteAt(d, i)       byte i of the zero-extended buffer                      (Lean Pydsdl.byteAt)
    bitat(d, p)        bit p, LSB first within each byte, zero beyond the data (Lean Pydsdl.Bit)
    bitsval(d, off, k) sum_{i<k} bitat(d, off+i) * 2**i                        (Lean Pydsdl.bitsval)
    lsb(v, n)          v mod 2**n  (two's complement low bits of any integer)   (Lean Pydsdl.lsb)

No quantified axiom about these functions is given to the solver.  Whenever a contract, a loop invariant or the library
model of bytes mentions one of them, the *instances* of the definitions / lemmas that are needed are added as ground
facts (each function below names the Lean theorem in lean/Pydsdl/Bits.lean that proves the schema).  The native reading of
a hint evaluates the same instance on concrete values, so every hint is also tested on the real data of the native runs.
"""
from __future__ import annotations
import z3
from typing import Any

from . import values as V
from . import speclib
from .speclib import smt

I = z3.IntSort()
BA = z3.ArraySort(I, I)

bitsval_f = z3.Function("bitsval", BA, I, I, I, I)   # (bytes, length, bit offset, bit count)
bitat_f = z3.Function("bitat", BA, I, I, I)           # (bytes, length, bit position)
lsb_f = z3.Function("lsb", I, I, I)                   # (value, bit count)
bitof_f = z3.Function("bitof", I, I, I)               # (value, bit index) = (value div 2**i) mod 2
pow2_f = z3.Function("pow2", I, I)

# schema name -> justification; listed in the evidence (every ground fact added below is an instance of one of these)
SCHEMAS = {
    "bitsval-bounds": "Lean Bits.bitsval_lt, definition (bitsval d off 0 = 0); 0 <= bitsval d off k < 2^k",
    "bitsval-step": "definitional (Lean Pydsdl.bitsval): bitsval d off (k+1) = bitsval d off k + Bit d (off+k) * 2^k",
    "bitat-def": "definitional (Lean Pydsdl.Bit, byteAt): Bit d p = (byteAt d (p/8) / 2^(p%8)) % 2, Bits.Bit_le_one",
    "pow2-succ": "Nat.pow_succ: 2^(k+1) = 2 * 2^k; Nat.pos_pow_of_pos",
    "pow2-add": "Nat.pow_add: 2^(a+b) = 2^a * 2^b",
    "pow2-mono": "Lean Bits.pow2_mono (Nat.pow_le_pow_right): a <= b -> 2^a <= 2^b",
    "bitsval-split": "Lean Bits.bitsval_split",
    "bitsval-view": "Lean Bits.bitsval_view: equal zero-extended bytes on a byte range give equal bitsval",
    "from-bytes": "Lean Bits.fromBytesLE_eq_bitsval: the little-endian base-256 value of n bytes is bitsval d 0 (8n)",
    "or-disjoint": "Lean Bits.or_disjoint: x < 2^i -> x ||| (b <<< i) = x + b * 2^i",
    "lsb-def": "definitional (Lean Pydsdl.lsb): lsb v n = v mod 2^n; Lean Bits.lsb_nonneg_lt",
    "lsb-split": "Lean Bits.lsb_split: lsb v (a+b) = lsb v a + 2^a * lsb (v / 2^a) b",
    "lsb-of-small": "Lean Bits.lsb_of_lt: 0 <= v < 2^n -> lsb v n = v",
    "lsb-step": "Lean Bits.lsb_succ: lsb v (i+1) = lsb v i + (v / 2^i % 2) * 2^i",
    "bitsval-append": "Lean Bits.bitsval_append_left / bitsval_append_right / bitsval_zero_ext (reads inside the old bytes are "
                      "unchanged; a read starting at the old end reads the appended bytes; appended zero bytes change nothing)",
    "bitsval-setbit": "Lean Bits.set_bit_byte_range / set_bit_read / set_bit_below / set_bit_tail (in-place |= / &= ~ of one bit of a byte in a buffer whose bits from that position upwards are zero)",
        "bitsval-beyond": "Lean Bits.bitsval_beyond: off >= 8 * len -> bitsval d off k = 0",
}
USED = set()


def _ctx():
    return speclib.CTX


def _t(x):
    if isinstance(x, bool):
        return z3.IntVal(int(x))
    if isinstance(x, int):
        return z3.IntVal(x)
    if isinstance(x, z3.ExprRef) and z3.is_bool(x):
        return z3.If(x, 1, 0)
    return x


def _s(t):
    return z3.simplify(_t(t), som=False)


def _fact(schema: str, f):
    USED.add(schema)
    ctx = _ctx()
    if isinstance(f, bool):
        return
    # a ground fact about spec functions: part of the path condition of everything that follows
    ctx.pc.append(f)
    if ctx.bound:
        ctx.gen_facts.append(f)


def pow2(n):
    """2**n as a term; small concrete exponents are numerals."""
    n = _s(n)
    if z3.is_int_value(n) and 0 <= n.as_long() <= 4096:
        return z3.IntVal(2 ** n.as_long())
    return pow2_f(n)


def pow2_facts(n):
    """pow2(n) >= 1, and the successor equation at n (ground instances of Nat.pow_succ)."""
    n = _s(n)
    if z3.is_int_value(n):
        return
    _fact("pow2-succ", z3.Implies(n >= 0, pow2_f(n) >= 1))
    _fact("pow2-succ", z3.Implies(n >= 1, pow2_f(n) == 2 * pow2(n - 1)))


def data_of(x):
    """(arr, length) of a bytes-like spec value."""
    if isinstance(x, V.BytesV):
        return x.arr, _t(x.length)
    raise V.EngineLimit("expected a bytes value in a bit-layer specification, got %r" % (x,))


# ------------------------------------------------------------------------------------------------ native versions
def native_bit(data, p: int) -> int:
    if p < 0:
        return 0
    q = p // 8
    if q >= len(data):
        return 0
    return (data[q] >> (p % 8)) & 1


def native_bitsval(data, off: int, k: int) -> int:
    r = 0
    for i in range(max(0, k)):
        r |= native_bit(data, off + i) << i
    return r


# ------------------------------------------------------------------------------------------------ terms with their facts
def bitat_term(arr, n, p):
    p = _s(p)
    t = bitat_f(arr, n, p)
    q = _s(p / 8)
    r = _s(p % 8)
    byte = z3.Select(arr, q)
    pow2_facts(r)
    _fact("bitat-def", z3.And(t >= 0, t <= 1))
    _fact("bitat-def", t == z3.If(z3.And(p >= 0, q < n), (byte / pow2(r)) % 2, 0))
    return t


def bitsval_term(arr, n, off, k, unfold=True):
    off, k = _s(off), _s(k)
    t = bitsval_f(arr, n, off, k)
    pow2_facts(k)
    _fact("bitsval-bounds", z3.And(t >= 0, z3.Implies(k >= 0, t < pow2(k)), z3.Implies(k <= 0, t == 0)))
    if unfold and not (z3.is_int_value(k) and k.as_long() <= 0):
        k1 = _s(k - 1)
        prev = bitsval_f(arr, n, off, k1)
        pow2_facts(k1)
        _fact("bitsval-bounds", z3.And(prev >= 0, z3.Implies(k1 >= 0, prev < pow2(k1)), z3.Implies(k1 <= 0, prev == 0)))
        b = bitat_term(arr, n, off + k1)
        _fact("bitsval-step", z3.Implies(k >= 1, t == prev + b * pow2(k1)))
    return t


def BITSVAL(data, off, k, unfold=True):
    """Value of the k bits of `data` (zero extended) starting at bit `off`, least significant first."""
    if smt():
        arr, n = data_of(data)
        return bitsval_term(arr, n, _t(off), _t(k), unfold=unfold)
    return native_bitsval(bytes(data), off, k)


def BITAT(data, p):
    if smt():
        arr, n = data_of(data)
        return bitat_term(arr, n, _t(p))
    return native_bit(bytes(data), p)


def DLEN(data):
    """len() of a bytes-like value."""
    if smt():
        return data_of(data)[1]
    return len(data)


def POW2(n):
    if smt():
        pow2_facts(_t(n))
        return pow2(_t(n))
    return 2 ** n if n >= 0 else 0


def lsb_term(v, n):
    v, n = _s(v), _s(n)
    if z3.is_int_value(n) and 0 <= n.as_long() <= 4096:
        return v % z3.IntVal(2 ** n.as_long())
    t = lsb_f(v, n)
    pow2_facts(n)
    _fact("lsb-def", z3.Implies(n >= 0, z3.And(t >= 0, t < pow2(n))))
    _fact("lsb-of-small", z3.Implies(z3.And(n >= 0, v >= 0, v < pow2(n)), t == v))
    return t


def LSB(v, n):
    """The n low bits of the (two's complement) integer v: v mod 2**n."""
    if smt():
        return lsb_term(_t(v), _t(n))
    return v % (2 ** n) if n >= 0 else 0


def bitof_term(v, i):
    v, i = _s(v), _s(i)
    t = bitof_f(v, i)
    pow2_facts(i)
    _fact("lsb-step", z3.And(t >= 0, t <= 1))
    _fact("lsb-step", z3.Implies(i >= 0, t == (v / pow2(i)) % 2))
    return t


# ------------------------------------------------------------------------------------------------ hints (lemma instances)
def _hint(schema, f, native):
    """SMT: assume the instance, the clause itself is True.  Native: evaluate the instance."""
    if smt():
        _fact(schema, f())
        return True
    return bool(native())


def H_SPLIT(data, off, a, b):
    """bitsval d off (a+b) = bitsval d off a + 2^a * bitsval d (off+a) b   (a, b >= 0)"""
    if smt():
        arr, n = data_of(data)
        off, a, b = _t(off), _t(a), _t(b)
        whole = bitsval_term(arr, n, off, a + b, unfold=False)
        lo = bitsval_term(arr, n, off, a, unfold=False)
        hi = bitsval_term(arr, n, off + a, b, unfold=False)
        _fact("bitsval-split", z3.Implies(z3.And(a >= 0, b >= 0), whole == lo + pow2(a) * hi))
        return True
    d = bytes(data)
    if a < 0 or b < 0:
        return True
    return native_bitsval(d, off, a + b) == native_bitsval(d, off, a) + 2 ** a * native_bitsval(d, off + a, b)


def H_LSB_SPLIT(v, a, b):
    """lsb v (a+b) = lsb v a + 2^a * lsb (v div 2^a) b   (a, b >= 0)"""
    if smt():
        v, a, b = _t(v), _t(a), _t(b)
        pow2_facts(a)
        whole = lsb_term(v, a + b)
        lo = lsb_term(v, a)
        hi = lsb_term(v / pow2(a), b)
        _fact("lsb-split", z3.Implies(z3.And(a >= 0, b >= 0), whole == lo + pow2(a) * hi))
        return True
    if a < 0 or b < 0:
        return True
    return v % 2 ** (a + b) == v % 2 ** a + 2 ** a * ((v // 2 ** a) % 2 ** b)


def H_LSB_STEP(v, i):
    """lsb v (i+1) = lsb v i + bitof v i * 2^i   (i >= 0)"""
    if smt():
        v, i = _t(v), _t(i)
        nxt = lsb_term(v, i + 1)
        cur = lsb_term(v, i)
        b = bitof_term(v, i)
        _fact("lsb-step", z3.Implies(i >= 0, nxt == cur + b * pow2(i)))
        return True
    if i < 0:
        return True
    return v % 2 ** (i + 1) == v % 2 ** i + ((v >> i) & 1) * 2 ** i


def H_BEYOND(data, off, k):
    """a read that starts at or beyond the end of the data yields zero"""
    if smt():
        arr, n = data_of(data)
        off, k = _t(off), _t(k)
        t = bitsval_term(arr, n, off, k, unfold=False)
        _fact("bitsval-beyond", z3.Implies(off >= 8 * n, t == 0))
        return True
    d = bytes(data)
    return off < 8 * len(d) or native_bitsval(d, off, k) == 0


def H_POW2_ADD(a, b):
    if smt():
        a, b = _t(a), _t(b)
        pow2_facts(a)
        pow2_facts(b)
        pow2_facts(a + b)
        _fact("pow2-add", z3.Implies(z3.And(a >= 0, b >= 0), pow2(a + b) == pow2(a) * pow2(b)))
        return True
    return True


def H_POW2_MONO(a, b):
    """0 <= a <= b -> 2^a <= 2^b"""
    if smt():
        a, b = _t(a), _t(b)
        pow2_facts(a)
        pow2_facts(b)
        _fact("pow2-mono", z3.Implies(z3.And(a >= 0, a <= b), pow2(a) <= pow2(b)))
        return True
    return True


def schemas_used():
    return ["%s: %s" % (k, SCHEMAS[k]) for k in sorted(USED)]
