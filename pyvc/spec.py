"""
Sidecar surface: how /verif/specs/*.py state contracts on the real functions of /repo (keyed by qualified name,
no repository file is touched), class specifications (field kinds, invariants), loop invariants
(keyed by function and loop ordinal) and interface contracts.

A contract is a class with optional members

    params   : dict  parameter name -> Kind        (defaults are derived from annotations where obvious)
    returns  : Kind                                 (kind of the result when the contract is *used* at a call site)
    pre(s)   : list / dict of clauses               preconditions (assumed for the body, obligations for callers)
    post(s)  : dict label -> clause                 postconditions on normal return (s.result is the result)
    raises   : dict exception class name -> fn(s)   exceptional postconditions: `raise X` implies cond_X, and
                                                    a normal return implies (not cond_X) for every listed X
    may_raise: list of exception class names that may escape without a stated condition (callers fork on them)
    raises_if: dict exception class name -> fn(s)   one-sided: `raise X` implies cond_X (s.exc = the exception object)
    modifies : list of field names of `self` that the function may assign (materialised self only)

`s` is a namespace whose attributes are the parameters (s.self, s.divisor, ...), `s.result`, and - in the native
reading - the same names bound to real Python objects.  Clauses are built from the polymorphic spec library
(pyvc.speclib) so that the same text is compiled to SMT and is executable on the real code.
"""
from __future__ import annotations
from typing import Any, Callable, Dict, List, Optional, Tuple

PKG = "pydsdl."


def _q(name: str) -> str:
    return name if name.startswith(PKG) else PKG + name


class Contract:
    def __init__(self, qualname: str, impl: Any, props: List[str]):
        self.qualname = _q(qualname)
        self.impl = impl
        self.props = props
        self.params: Dict[str, Any] = dict(getattr(impl, "params", {}) or {})
        self.returns = getattr(impl, "returns", None)
        self.pre = getattr(impl, "pre", None)
        self.post = getattr(impl, "post", None)
        self.raises: Dict[str, Callable] = dict(getattr(impl, "raises", {}) or {})
        self.may_raise: List[str] = list(getattr(impl, "may_raise", []) or [])
        # one-sided exceptional postconditions: `raise X` implies cond_X (nothing is said about normal returns)
        self.raises_only_if: Dict[str, Callable] = dict(getattr(impl, "raises_only_if", {}) or {})
        # one-sided exceptional postconditions: `raise X` implies cond_X (nothing is claimed on a normal return)
        self.raises_implies: Dict[str, Callable] = dict(getattr(impl, "raises_implies", {}) or {})
        # one-sided exceptional postconditions: `raise X` implies cond_X(s) (s.exc is the exception); a normal return
        # implies nothing about cond_X
        self.raises_if: Dict[str, Callable] = dict(getattr(impl, "raises_if", {}) or {})
        self.modifies: List[str] = list(getattr(impl, "modifies", []) or [])
        self.establishes = getattr(impl, "establishes", None)  # for __init__: class whose spec is established
        self.self_kind = getattr(impl, "self_kind", None)
        self.verify = getattr(impl, "verify", True)  # False: interface/assumed contract (no body to verify)
        self.assumed_reason = getattr(impl, "assumed", None)
        self.instances = getattr(impl, "instances", None)  # finite instantiation: list of dicts param->concrete
        self.hints = getattr(impl, "hints", None)
        self.self_classes = getattr(impl, "self_classes", None)
        self.pure = getattr(impl, "pure", False)
        # functional contract: `value(s)` is a spec term that IS the result (used at call sites instead of a fresh
        # constant constrained by the postcondition; needed where the result must stay a function of the arguments)
        self.value = getattr(impl, "value", None)
        # termination measure (tuple of terms, compared lexicographically) of a recursion group: at a call site inside a
        # function under contract whose own contract has a measure, the callee's measure must be smaller
        self.decreases = getattr(impl, "decreases", None)
        # __init__ of a base class: invariant clauses (labels "<Class>.<clause>") that talk about the complete object and
        # are therefore neither obligated here nor assumed at the call sites of this constructor (the constructor of the
        # concrete class is obligated to them)
        self.inv_exempt = list(getattr(impl, "inv_exempt", []) or [])
        # definitions(s) -> dict label -> clause: defining equations of ghost predicates at the arguments of this call
        # (`ghost(args) == <closed formula>`): assumed when the body of this function is verified, never obligated and not
        # assumed at call sites (callers reason about the ghost predicate only through this contract).  A conservative
        # extension as long as each clause defines a fresh uninterpreted symbol; listed in the evidence.
        self.definitions = getattr(impl, "definitions", None)

    def clauses(self, which: str, s) -> List[Tuple[str, Any]]:
        fn = getattr(self, which)
        if fn is None:
            return []
        r = fn(s)
        if r is None:
            return []
        if isinstance(r, dict):
            return list(r.items())
        return [("%d" % i, c) for i, c in enumerate(r)]


class ClassSpec:
    def __init__(self, qualname: str, impl: Any):
        self.qualname = _q(qualname)
        self.fields: Dict[str, Any] = dict(getattr(impl, "fields", {}) or {})
        self.invariant = getattr(impl, "invariant", None)
        self.mutable: List[str] = list(getattr(impl, "mutable", []) or [])
        # labels of invariant clauses that speak about the completely constructed object (they are neither assumed nor
        # obligated when a base-class __init__ runs on an object of a subclass that is still under construction)
        self.whole_object: List[str] = list(getattr(impl, "whole_object", []) or [])
        self.props: Dict[str, Any] = dict(getattr(impl, "props", {}) or {})  # abstract property kinds (interfaces)
        self.eq = getattr(impl, "eq", None)  # interface contract of `==` between instances: eq(a, b) -> clause
        # a mutable builder-like class: fresh immutable objects handed to its methods are published (their fields become
        # facts about the field functions of their reference) because they may be stored in its symbolic lists
        self.owns_state: bool = bool(getattr(impl, "owns_state", False))
        # the class invariant of a materialised receiver is obligated before / assumed after calls of its methods
        self.invariant_at_calls: bool = bool(getattr(impl, "invariant_at_calls", False))


class Registry:
    def __init__(self):
        self.contracts: Dict[str, Contract] = {}
        self.classes: Dict[str, ClassSpec] = {}
        self.loops: Dict[Tuple[str, int], Callable] = {}
        self.inline: Dict[str, str] = {}
        self.lemmas: List[Any] = []

    def contract(self, qualname: str, props=()):
        def deco(impl):
            c = Contract(qualname, impl, list(props))
            old = self.contracts.get(c.qualname)
            if old is not None:
                # a later specification module restates the contract of a function (e.g. the module that verifies the
                # function replaces a placeholder): recorded and reported in the evidence (`contract_overrides`)
                self.__dict__.setdefault("overrides", []).append(
                    (c.qualname, getattr(old.impl, "__module__", "?"), getattr(impl, "__module__", "?"), bool(old.verify), bool(c.verify)))
            self.contracts[c.qualname] = c
            return impl

        return deco

    def class_spec(self, qualname: str):
        def deco(impl):
            c = ClassSpec(qualname, impl)
            self.classes[c.qualname] = c
            return impl

        return deco

    def loop_invariant(self, qualname: str, loop: int = 0):
        def deco(fn):
            self.loops[(_q(qualname), loop)] = fn
            return fn

        return deco

    def inline_ok(self, *qualnames: str, why: str = "trivial accessor: its body is its own strongest contract"):
        for q in qualnames:
            self.inline[_q(q)] = why


REG = Registry()
contract = REG.contract
class_spec = REG.class_spec
loop_invariant = REG.loop_invariant
inline_ok = REG.inline_ok


class NS:
    """Namespace handed to contract clauses."""

    def __init__(*a, **kw):
        a[0].__dict__.update(kw)

    def __getattr__(self, name):  # pragma: no cover
        raise AttributeError("contract namespace has no %r (available: %s)" % (name, sorted(self.__dict__)))
