"""
Front end: loads the real sources of /repo/pydsdl with `ast` on every run and indexes
modules, classes (with their bases), functions, methods, properties and module-level names.
Nothing is imported or executed here; the symbolic executor works on these ASTs only.
"""
from __future__ import annotations
import ast
import os
import hashlib
from typing import Dict, List, Optional

REPO_ROOT = os.environ.get("PYVC_REPO", "/repo")
PKG = "pydsdl"


# Specification-side driver modules (assumed traversal contracts written as code that calls the real functions); they are
# read with `ast` exactly like the repository sources.  module name -> path
EXTRA_SOURCES: Dict[str, str] = {}


def register_extra_source(modname: str, path: str) -> None:
    EXTRA_SOURCES[modname] = path


class FuncInfo:
    def __init__(self, qualname: str, node: ast.AST, module: "ModuleInfo", cls: Optional["ClassInfo"], outer=None):
        self.qualname = qualname
        self.node = node
        self.module = module
        self.cls = cls
        self.outer = outer
        self.name = getattr(node, "name", "<lambda>")
        decos = []
        for d in getattr(node, "decorator_list", []):
            try:
                decos.append(ast.unparse(d))
            except Exception:  # pragma: no cover
                decos.append("?")
        self.decorators = decos
        self.is_property = "property" in decos
        self.is_static = "staticmethod" in decos
        self.is_classmethod = "classmethod" in decos
        self.is_abstract = any("abstractmethod" in d for d in decos)
        self.is_generator = any(isinstance(n, (ast.Yield, ast.YieldFrom)) for n in _walk_own(node))

    @property
    def params(self) -> List[str]:
        a = self.node.args
        return [x.arg for x in a.posonlyargs + a.args] + [x.arg for x in a.kwonlyargs]

    def source_hash(self) -> str:
        return hashlib.sha256(ast.dump(self.node).encode()).hexdigest()[:16]

    def __repr__(self):
        return "<func %s>" % self.qualname


def _walk_own(node):
    """Walk a function body without descending into nested function definitions / lambdas / classes."""
    todo = list(ast.iter_child_nodes(node))
    while todo:
        n = todo.pop()
        yield n
        if isinstance(n, (ast.FunctionDef, ast.AsyncFunctionDef, ast.Lambda, ast.ClassDef)):
            continue
        todo.extend(ast.iter_child_nodes(n))


class ClassInfo:
    def __init__(self, qualname: str, node: ast.ClassDef, module: "ModuleInfo"):
        self.qualname = qualname
        self.name = node.name
        self.node = node
        self.module = module
        self.base_exprs = node.bases
        self.bases: List["ClassInfo"] = []  # resolved repo classes
        self.external_bases: List[str] = []  # e.g. "Exception", "abc.ABC"
        self.methods: Dict[str, FuncInfo] = {}
        self.class_attrs: Dict[str, ast.AST] = {}
        self.nested: Dict[str, "ClassInfo"] = {}
        self.subclasses: List["ClassInfo"] = []

    def mro(self) -> List["ClassInfo"]:
        # C3 is not needed for the repository's single-inheritance hierarchies; depth-first left-to-right
        # with duplicates removed (keeping the last occurrence) is equivalent there.
        out: List[ClassInfo] = [self]
        for b in self.bases:
            for c in b.mro():
                if c in out:
                    out.remove(c)
                out.append(c)
        return out

    def lookup(self, name: str) -> Optional[FuncInfo]:
        for c in self.mro():
            if name in c.methods:
                return c.methods[name]
        return None

    def lookup_attr(self, name: str):
        for c in self.mro():
            if name in c.class_attrs:
                return c, c.class_attrs[name]
        return None

    def is_subclass_of(self, other: "ClassInfo") -> bool:
        return other in self.mro()

    def all_subclasses(self) -> List["ClassInfo"]:
        out = [self]
        for s in self.subclasses:
            for c in s.all_subclasses():
                if c not in out:
                    out.append(c)
        return out

    def instantiable_subclasses(self) -> List["ClassInfo"]:
        """Subclasses (including self) that can have direct instances: a class with abstract methods that derives from
        abc.ABC cannot be instantiated (enforced by ABCMeta)."""
        out = []
        for c in self.all_subclasses():
            if c.is_abstract and any("ABC" in e for e in c.external_ancestors()):
                continue
            out.append(c)
        return out or self.all_subclasses()

    def external_ancestors(self) -> List[str]:
        out = []
        for c in self.mro():
            out.extend(c.external_bases)
        return out

    @property
    def is_abstract(self) -> bool:
        names = {}
        for c in reversed(self.mro()):
            for n, f in c.methods.items():
                names[n] = f
        return any(f.is_abstract for f in names.values())

    def __repr__(self):
        return "<class %s>" % self.qualname


class ModuleInfo:
    def __init__(self, name: str, path: str, tree: ast.Module, is_pkg: bool):
        self.name = name
        self.path = path
        self.tree = tree
        self.is_pkg = is_pkg
        self.classes: Dict[str, ClassInfo] = {}
        self.functions: Dict[str, FuncInfo] = {}
        self.imports: Dict[str, tuple] = {}  # local name -> ("module", modname) | ("from", modname, attr)
        self.assigns: Dict[str, ast.AST] = {}

    @property
    def package(self) -> str:
        return self.name if self.is_pkg else self.name.rsplit(".", 1)[0]


class Repo:
    def __init__(self, root: str = REPO_ROOT):
        self.root = root
        self.modules: Dict[str, ModuleInfo] = {}
        self.classes: Dict[str, ClassInfo] = {}
        self.functions: Dict[str, FuncInfo] = {}
        self._load()
        self._resolve_bases()

    # ------------------------------------------------------------------ loading
    def _load(self) -> None:
        base = os.path.join(self.root, PKG)
        for dirpath, dirnames, filenames in os.walk(base):
            dirnames[:] = [d for d in dirnames if d not in ("third_party", "__pycache__")]
            for fn in sorted(filenames):
                if not fn.endswith(".py"):
                    continue
                full = os.path.join(dirpath, fn)
                rel = os.path.relpath(full, self.root)[:-3].replace(os.sep, ".")
                is_pkg = rel.endswith(".__init__")
                if is_pkg:
                    rel = rel[: -len(".__init__")]
                with open(full, "r", encoding="utf8") as f:
                    src = f.read()
                try:
                    tree = ast.parse(src, filename=full)
                except SyntaxError:
                    continue
                mi = ModuleInfo(rel, full, tree, is_pkg)
                self.modules[rel] = mi
                self._index_module(mi)
        for modname, path in sorted(EXTRA_SOURCES.items()):
            with open(path, "r", encoding="utf8") as f:
                tree = ast.parse(f.read(), filename=path)
            mi = ModuleInfo(modname, path, tree, False)
            self.modules[modname] = mi
            self._index_module(mi)

    def _index_module(self, mi: ModuleInfo) -> None:
        for st in mi.tree.body:
            self._index_stmt(mi, st)

    def _index_stmt(self, mi: ModuleInfo, st: ast.stmt) -> None:
        if isinstance(st, ast.ClassDef):
            self._index_class(mi, st, mi.name)
        elif isinstance(st, (ast.FunctionDef,)):
            fi = FuncInfo(mi.name + "." + st.name, st, mi, None)
            mi.functions[st.name] = fi
            self.functions[fi.qualname] = fi
        elif isinstance(st, ast.Import):
            for a in st.names:
                mi.imports[a.asname or a.name.split(".")[0]] = ("module", a.name if a.asname else a.name.split(".")[0])
        elif isinstance(st, ast.ImportFrom):
            modname = self._abs_module(mi, st.module, st.level)
            for a in st.names:
                mi.imports[a.asname or a.name] = ("from", modname, a.name)
        elif isinstance(st, ast.Assign):
            for t in st.targets:
                if isinstance(t, ast.Name):
                    mi.assigns[t.id] = st.value
        elif isinstance(st, ast.AnnAssign):
            if isinstance(st.target, ast.Name) and st.value is not None:
                mi.assigns[st.target.id] = st.value
        elif isinstance(st, (ast.If, ast.Try)):
            for sub in getattr(st, "body", []):
                self._index_stmt(mi, sub)

    def _abs_module(self, mi: ModuleInfo, module: Optional[str], level: int) -> str:
        if level == 0:
            return module or ""
        pkg = mi.package.split(".")
        if level > 1:
            pkg = pkg[: -(level - 1)]
        return ".".join(pkg + ([module] if module else []))

    def _index_class(self, mi: ModuleInfo, node: ast.ClassDef, prefix: str) -> ClassInfo:
        ci = ClassInfo(prefix + "." + node.name, node, mi)
        self.classes[ci.qualname] = ci
        if prefix == mi.name:
            mi.classes[node.name] = ci
        for st in node.body:
            if isinstance(st, ast.FunctionDef):
                fi = FuncInfo(ci.qualname + "." + st.name, st, mi, ci)
                # a later definition with the same name (e.g. a property setter) is ignored
                if st.name not in ci.methods:
                    ci.methods[st.name] = fi
                    self.functions[fi.qualname] = fi
            elif isinstance(st, ast.Assign):
                for t in st.targets:
                    if isinstance(t, ast.Name):
                        ci.class_attrs[t.id] = st.value
            elif isinstance(st, ast.AnnAssign):
                if isinstance(st.target, ast.Name) and st.value is not None:
                    ci.class_attrs[st.target.id] = st.value
            elif isinstance(st, ast.ClassDef):
                ci.nested[st.name] = self._index_class(mi, st, ci.qualname)
        return ci

    def _resolve_bases(self) -> None:
        for ci in list(self.classes.values()):
            for b in ci.base_exprs:
                r = self.resolve_class_expr(ci.module, b)
                if r is not None:
                    ci.bases.append(r)
                    r.subclasses.append(ci)
                else:
                    try:
                        ci.external_bases.append(ast.unparse(b))
                    except Exception:  # pragma: no cover
                        ci.external_bases.append("?")

    # ------------------------------------------------------------------ name resolution
    def resolve_class_expr(self, mi: ModuleInfo, e: ast.AST) -> Optional[ClassInfo]:
        r = self.resolve_static(mi, e)
        return r if isinstance(r, ClassInfo) else None

    def resolve_static(self, mi: ModuleInfo, e: ast.AST, depth: int = 0):
        """Resolve a Name / Attribute chain to a ModuleInfo, ClassInfo, FuncInfo or ('ext', dotted) statically."""
        if depth > 8:
            return None
        if isinstance(e, ast.Name):
            return self.resolve_name(mi, e.id, depth)
        if isinstance(e, ast.Attribute):
            base = self.resolve_static(mi, e.value, depth + 1)
            return self.resolve_member(base, e.attr, depth)
        return None

    def resolve_member(self, base, attr: str, depth: int = 0):
        if isinstance(base, ModuleInfo):
            return self.resolve_name(base, attr, depth + 1)
        if isinstance(base, ClassInfo):
            for c in base.mro():
                if attr in c.nested:
                    return c.nested[attr]
                if attr in c.methods:
                    return c.methods[attr]
            return None
        if isinstance(base, tuple) and base[0] == "ext":
            return ("ext", base[1] + "." + attr)
        return None

    def resolve_name(self, mi: ModuleInfo, name: str, depth: int = 0):
        if depth > 8:
            return None
        if name in mi.classes:
            return mi.classes[name]
        if name in mi.functions:
            return mi.functions[name]
        if name in mi.imports:
            imp = mi.imports[name]
            if imp[0] == "module":
                if imp[1] in self.modules:
                    return self.modules[imp[1]]
                return ("ext", imp[1])
            _, modname, attr = imp
            full = modname + "." + attr if modname else attr
            if full in self.modules:
                return self.modules[full]
            if modname in self.modules:
                return self.resolve_name(self.modules[modname], attr, depth + 1)
            return ("ext", full)
        return None

    def func(self, qualname: str) -> FuncInfo:
        if not qualname.startswith(PKG + "."):
            qualname = PKG + "." + qualname
        return self.functions[qualname]

    def cls(self, qualname: str) -> ClassInfo:
        if not qualname.startswith(PKG + "."):
            qualname = PKG + "." + qualname
        return self.classes[qualname]

    def concrete_classes(self) -> List[ClassInfo]:
        return [c for c in self.classes.values()]


_repo_cache: Dict[str, Repo] = {}


def load_repo(root: str = None) -> Repo:
    root = root or REPO_ROOT
    if root not in _repo_cache:
        _repo_cache[root] = Repo(root)
    return _repo_cache[root]
