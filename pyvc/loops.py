"""
Loops, comprehensions and iterator consumers.

 * concrete iterables are unrolled;
 * `for` over a symbolic sequence / range with a sidecar invariant: initiation + preservation obligations;
 * set-building loops and comprehensions over symbolic domains ("collector mode"): the loop body is executed once for
   an arbitrary element of the domain (bound constants), facts learnt in the body are generalised to universally
   quantified axioms, and the built set is defined by its two image axioms.
"""
from __future__ import annotations
import ast
import z3
from typing import Any, List, Optional, Tuple

from . import values as V
from .values import EngineLimit, Obj, SymSet, SymSeq, PyList, PySet, PyDict, RecV
from .symexec import (Env, PathEnd, PyRaise, BreakSig, ContinueSig, ReturnSig, lift_bool, short, speclib_and,
                      speclib_or)
from .spec import NS


class Binding:
    def __init__(self, value, guards: List[Any], consts: List[Any], patterns: List[Any], ordered=False, source=None,
                 facts=None):
        self.source = source
        self.facts = facts or []  # definitional facts about the element (hold for every element of the domain)
        self.value = value
        self.guards = guards
        self.consts = consts
        self.patterns = patterns
        self.ordered = ordered


def mk_forall(vs, body, patterns=None):
    """z3.ForAll with a fallback: a pattern that z3 rejects (e.g. one containing an `ite`) is dropped."""
    patterns = patterns or []
    try:
        return z3.ForAll(vs, body, patterns=patterns)
    except z3.Z3Exception:
        return z3.ForAll(vs, body)


def is_concrete_iterable(v) -> bool:
    if isinstance(v, (PyList, tuple, list, PySet, V.GeneratorV, PyDict, str, RecV, V.ConcreteIter)):
        return True
    if isinstance(v, V.RangeV):
        return all(isinstance(x, int) for x in (v.lo, v.hi, v.step))
    return False


def bind_domain(engine, ctx, it) -> Binding:
    """One arbitrary element of a symbolic iteration domain."""
    from . import settheory as st

    if isinstance(it, Obj):
        m = it.cls.lookup("__iter__")
        if m is None:
            raise EngineLimit("iteration over object %r" % it)
        it = engine.call_function(ctx, m, [it], {}, dynamic=True)
    if isinstance(it, SymSet):
        x = ctx.fresh("x", it.elem_sort)
        return Binding(x, [z3.Select(it.term, x)], [x], [z3.Select(it.term, x)])
    if isinstance(it, SymSeq):
        i = ctx.fresh("i", z3.IntSort())
        return Binding(it.at(ctx, i), [i >= 0, i < it.length], [i], [z3.Select(it.arr, i)], ordered=True, source=it)
    if isinstance(it, V.RangeV):
        if it.step != 1:
            raise EngineLimit("range with a step")
        k = ctx.fresh("k", z3.IntSort())
        return Binding(k, [V.Int.unwrap(it.lo) <= k, k < V.Int.unwrap(it.hi)], [k], [], ordered=True)
    if isinstance(it, V.Combos):
        x = ctx.fresh("s", z3.IntSort())
        g = z3.Select(st.kfold(it.base.term, V.Int.unwrap(it.k)), x)
        return Binding(V.ComboTuple(x), [g], [x], [g])
    if isinstance(it, V.Product):
        x = ctx.fresh("s", z3.IntSort())
        seq = it.sets
        if isinstance(seq, PyList):
            seq = st.seq_of_sets(ctx, [engine.to_symset(ctx, s) for s in seq.items])
        g = z3.Select(st.nsum(seq.arr, seq.length), x)
        return Binding(V.ComboTuple(x), [g], [x], [g])
    if isinstance(it, V.GroupValues):
        return bind_group(engine, ctx, it.d)
    if isinstance(it, V.MappedIter):
        b = bind_domain(engine, ctx, it.it)
        val = apply_mapped(engine, ctx, it, b.value)
        return Binding(val, b.guards, b.consts, b.patterns, b.ordered, facts=b.facts)
    raise EngineLimit("iteration over %r" % (it,))


def fresh_fn(ctx, base: str, arg_sorts, ret_sort):
    """A fresh function symbol that (like ctx.fresh) depends on the bound variables in scope."""
    ctx.counter += 1
    name = "%s!%d" % (base, ctx.counter)
    f = z3.Function(name, *[b.sort() for b in ctx.bound], *arg_sorts, ret_sort)
    bound = list(ctx.bound)
    return lambda *args: f(*bound, *args)


def bind_group(engine, ctx, d: V.GroupDict) -> Binding:
    """One arbitrary group of a GroupDict: the order-preserving subsequence of the source with the key of a
       representative index `rep`."""
    if d.src is None:
        raise EngineLimit("iteration over an unfilled defaultdict")
    src = d.src
    n = src.length
    rep = ctx.fresh("rep", z3.IntSort())
    keyat = lambda i: z3.substitute(d.key, (d.const, i))
    K = keyat(rep)
    guards = [rep >= 0, rep < n]
    sub = SymSeq(ctx.fresh("group!arr", src.arr.sort()), ctx.fresh("group!len", z3.IntSort()), src.kind, fresh=True)
    # the facts below mention `rep`; they are stated as guards so that they are generalised with the binding
    idx = fresh_fn(ctx, "group!idx", [z3.IntSort()], z3.IntSort())
    inv = fresh_fn(ctx, "group!inv", [z3.IntSort()], z3.IntSort())
    # NB: sub/idx/inv are created *before* rep is added to ctx.bound by the caller, therefore they must be
    # explicitly functions of rep: recreate them as functions applied to rep
    ctx.counter += 1
    tagn = ctx.counter
    outer = list(ctx.bound)
    F_arr = z3.Function("grp!arr!%d" % tagn, *[b.sort() for b in outer], z3.IntSort(), src.arr.sort())
    F_len = z3.Function("grp!len!%d" % tagn, *[b.sort() for b in outer], z3.IntSort(), z3.IntSort())
    F_idx = z3.Function("grp!idx!%d" % tagn, *[b.sort() for b in outer], z3.IntSort(), z3.IntSort(), z3.IntSort())
    F_inv = z3.Function("grp!inv!%d" % tagn, *[b.sort() for b in outer], z3.IntSort(), z3.IntSort(), z3.IntSort())
    arr = F_arr(*outer, rep)
    ln = F_len(*outer, rep)
    idx = lambda j: F_idx(*outer, rep, j)
    inv = lambda i: F_inv(*outer, rep, i)
    sub = SymSeq(arr, ln, src.kind, fresh=True)
    j, j2, i = z3.Ints("gj gj2 gi")
    facts = [
        ln >= 1,
        mk_forall([j], z3.Implies(z3.And(0 <= j, j < ln),
                                  z3.And(0 <= idx(j), idx(j) < n, keyat(idx(j)) == K,
                                         z3.Select(arr, j) == z3.Select(src.arr, idx(j)))),
                  patterns=[z3.Select(arr, j)]),
        mk_forall([j, j2], z3.Implies(z3.And(0 <= j, j < j2, j2 < ln), idx(j) < idx(j2)),
                  patterns=[z3.MultiPattern(idx(j), idx(j2))]),
        mk_forall([i], z3.Implies(z3.And(0 <= i, i < n, keyat(i) == K),
                                  z3.And(0 <= inv(i), inv(i) < ln, idx(inv(i)) == i,
                                         z3.Select(arr, inv(i)) == z3.Select(src.arr, i))),
                  patterns=[z3.Select(src.arr, i)]),
    ]
    return Binding(sub, guards, [rep], [z3.Select(src.arr, rep)], ordered=False, source=d, facts=facts)


def apply_mapped(engine, ctx, m: V.MappedIter, value):
    if m.fn is not None:
        return engine.call(ctx, m.fn, [value], {})
    raise EngineLimit("generator expression used as a mapped iterator")


class Collector:
    """Records additions to function-allocated sets made under bound variables."""

    def __init__(self):
        self.records = []  # (set_obj, consts, guards, elem, patterns)
        self.preexisting = set()

    def owns(self, s) -> bool:
        return isinstance(s, SymSet)

    def add(self, ctx, s: SymSet, elem):
        self.records.append((s, list(ctx.bound), list(ctx.bound_guards), V.Int.unwrap(elem)
                             if s.elem_sort == z3.IntSort() else elem, list(ctx.bound_patterns)))

    def add_all(self, ctx, s: SymSet, other: SymSet):
        y = ctx.fresh("y", s.elem_sort)
        g = z3.Select(other.term, y)
        self.records.append((s, list(ctx.bound) + [y], list(ctx.bound_guards) + [g], y, list(ctx.bound_patterns) + [g]))

    def finalise(self, ctx):
        by_set = {}
        for rec in self.records:
            by_set.setdefault(id(rec[0]), (rec[0], []))[1].append(rec)
        for _, (s, recs) in by_set.items():
            old = s.term
            canon = canonical_image(ctx, old, recs)
            if canon is not None:
                s.term = canon
                continue
            new = ctx.fresh("built", old.sort())
            y = z3.FreshConst(s.elem_sort, "y")
            old_empty = _is_empty_set(old)
            disj = [] if old_empty else [z3.Select(old, y)]
            for (_, consts, guards, elem, pats) in recs:
                vs = [z3.FreshConst(c.sort(), "v") for c in consts]
                sub = list(zip(consts, vs))
                g = z3.And(*[z3.substitute(x, *sub) for x in guards]) if guards else z3.BoolVal(True)
                e = z3.substitute(elem, *sub)
                pp = [z3.substitute(p, *sub) for p in pats]
                pp = [p for p in pp if _covers(p, vs)]
                pat = []
                if pp and _covers_all(pp, vs):
                    pat = [z3.MultiPattern(*pp)] if len(pp) > 1 else [pp[0]]
                ctx.add_axiom(mk_forall(vs, z3.Implies(g, z3.Select(new, e)), patterns=pat))
                # witness functions for the converse
                ws = [z3.Function("w!%s!%d" % (str(c), ctx.counter), s.elem_sort, c.sort())(y) for c in consts]
                ctx.counter += 1
                subw = list(zip(consts, ws))
                gw = z3.And(*[z3.substitute(x, *subw) for x in guards]) if guards else z3.BoolVal(True)
                ew = z3.substitute(elem, *subw)
                disj.append(z3.And(gw, y == ew))
            ctx.add_axiom(mk_forall([y], z3.Implies(z3.Select(new, y), z3.Or(*disj)), patterns=[z3.Select(new, y)]))
            if not old_empty:
                ctx.add_axiom(mk_forall([y], z3.Implies(z3.Select(old, y), z3.Select(new, y)), patterns=[z3.Select(old, y)]))
            s.term = new


def _is_empty_set(t) -> bool:
    t = z3.simplify(t)
    return z3.is_const_array(t) and z3.is_false(t.arg(0))


def _mentions(t, c) -> bool:
    acc = set()
    _vars_in(t, acc)
    return c.get_id() in acc


def canonical_image(ctx, old, recs):
    """Recognise the image forms of the set theory so that built sets are spec terms rather than fresh constants:
         { x | x in S } = S,  { x % d | x in S } = modset(S, d),  { pad(r, x) | x in S } = padset(S, r),
       where S may be a plain set, kfold(S0, k), nsum(F, n) or - for a range-bound outer variable - rangefold(S0, K)."""
    from . import settheory as st

    if len(recs) != 1 or not _is_empty_set(old):
        return None
    _, consts, guards, elem, pats = recs[0]
    if old.sort() != st.S:
        return None
    dom = None
    x = None
    if len(consts) == 1 and len(guards) == 1:
        g = guards[0]
        x = consts[0]
        if z3.is_select(g) and g.arg(1).eq(x) and not _mentions(g.arg(0), x):
            dom = g.arg(0)
    elif len(consts) == 2 and len(guards) == 3:
        # for k in range(0, K+1): for el in combos(S, k): ...   guards: [0 <= k, k < K + 1, kfold(S, k)[x]]
        k, x = consts
        g0, g1, g2 = guards
        g0s, g1s = z3.simplify(g0), z3.simplify(g1)
        if z3.is_select(g2) and g2.arg(1).eq(x) and z3.is_app(g2.arg(0)) and g2.arg(0).decl().name() == "kfold" \
                and g2.arg(0).arg(1).eq(k) and not _mentions(g2.arg(0).arg(0), k) and not _mentions(g2.arg(0).arg(0), x):
            lo_ok = z3.is_true(z3.simplify(z3.substitute(g0, (k, z3.IntVal(0))))) and \
                z3.is_false(z3.simplify(z3.substitute(g0, (k, z3.IntVal(-1)))))
            if lo_ok and z3.is_app(g1) and g1.decl().kind() == z3.Z3_OP_LT and g1.arg(0).eq(k) and not _mentions(g1.arg(1), k):
                hi = z3.simplify(g1.arg(1) - 1)
                dom = st.rangefold_f(g2.arg(0).arg(0), hi)
    if dom is None or x is None:
        return None
    if elem.eq(x):
        return dom
    if z3.is_app(elem) and elem.decl().name() == "pmod" and elem.arg(0).eq(x) and not _mentions(elem.arg(1), x):
        return st.modset_f(dom, elem.arg(1))
    if z3.is_app(elem) and elem.decl().kind() == z3.Z3_OP_MOD and elem.arg(0).eq(x) and not _mentions(elem.arg(1), x):
        return st.modset_f(dom, elem.arg(1))
    if z3.is_app(elem) and elem.decl().name() == "pad" and elem.arg(1).eq(x) and not _mentions(elem.arg(0), x):
        return st.padset_f(dom, elem.arg(0))
    return None


def _skolem_apps(t, vs):
    """Applications g!k(v...) of fresh (skolem) function symbols to exactly the bound variables."""
    out, seen = [], set()
    ids = [v.get_id() for v in vs]

    def walk(x):
        if x.get_id() in seen or z3.is_quantifier(x):
            return
        seen.add(x.get_id())
        if z3.is_app(x) and x.num_args() == len(vs) and x.num_args() > 0 and x.decl().kind() == z3.Z3_OP_UNINTERPRETED \
                and "!" in x.decl().name() and [a.get_id() for a in x.children()] == ids:
            out.append(x)
        for c in x.children():
            walk(c)

    walk(t)
    return out


def _vars_in(t, acc):
    if z3.is_const(t) and t.decl().kind() == z3.Z3_OP_UNINTERPRETED:
        acc.add(t.get_id())
    for c in t.children():
        _vars_in(c, acc)


def _covers(p, vs) -> bool:
    acc = set()
    _vars_in(p, acc)
    return any(v.get_id() in acc for v in vs)


def _covers_all(ps, vs) -> bool:
    acc = set()
    for p in ps:
        _vars_in(p, acc)
    return all(v.get_id() in acc for v in vs)



def state_binding_facts(ctx, b: Binding):
    """The definitional facts of a binding hold for every element of the domain: assume them universally."""
    if not b.facts:
        return
    vs = [z3.FreshConst(c.sort(), "e") for c in b.consts]
    sub = list(zip(b.consts, vs))
    g = z3.And(*[z3.substitute(x, *sub) for x in b.guards]) if b.guards else z3.BoolVal(True)
    pp = [z3.substitute(p, *sub) for p in b.patterns]
    pat = []
    if pp and _covers_all(pp, vs):
        pat = [z3.MultiPattern(*pp)] if len(pp) > 1 else [pp[0]]
    ctx.assume(mk_forall(vs, z3.Implies(g, z3.And(*[z3.substitute(f, *sub) for f in b.facts])), patterns=pat))


def run_under_binding(engine, ctx, b: Binding, body):
    """Execute `body()` with the bound constants of `b` in scope; generalise learnt facts afterwards."""
    state_binding_facts(ctx, b)
    outermost = ctx.collector is None
    if outermost:
        ctx.collector = Collector()
    saved = (list(ctx.bound), list(ctx.bound_guards), list(ctx.bound_patterns), ctx.gen_facts, len(ctx.pc))
    ctx.bound = ctx.bound + b.consts
    ctx.bound_guards = ctx.bound_guards + b.guards
    ctx.bound_patterns = ctx.bound_patterns + b.patterns
    ctx.gen_facts = []
    ctx.bindings.append(b)
    decisions_before = len(ctx.taken)
    for g in b.guards:
        ctx.pc.append(g)
    try:
        result = body()
    finally:
        ctx.bindings.pop()
        facts = ctx.gen_facts
        bound_now, guards_now, pats_now = ctx.bound, ctx.bound_guards, ctx.bound_patterns
        ctx.bound, ctx.bound_guards, ctx.bound_patterns, ctx.gen_facts, pclen = saved
        del ctx.pc[pclen:]
    if len(ctx.taken) != decisions_before:
        raise EngineLimit("branching on a bound variable inside a set-building loop / comprehension")
    # generalise
    for f in facts:
        vs = [z3.FreshConst(c.sort(), "v") for c in b.consts]
        sub = list(zip(b.consts, vs))
        g = z3.And(*[z3.substitute(x, *sub) for x in b.guards]) if b.guards else z3.BoolVal(True)
        pp = [z3.substitute(p, *sub) for p in b.patterns]
        pat = []
        if pp and _covers_all(pp, vs):
            pat = [z3.MultiPattern(*pp)] if len(pp) > 1 else [pp[0]]
        fsub = z3.substitute(f, *sub)
        if pat:
            # alternative triggers: applications of the skolem functions introduced under this binding
            for t in _skolem_apps(fsub, vs)[:3]:
                pat.append(t)
        try:
            ax = z3.ForAll(vs, z3.Implies(g, fsub), patterns=pat)
        except z3.Z3Exception:
            ax = mk_forall(vs, z3.Implies(g, fsub), patterns=pat[:1])
        if ctx.bound:
            # still inside an outer binding: the generalised fact is itself a fact under the outer bound variables
            ctx.pc.append(ax)
            ctx.gen_facts.append(ax)
        else:
            ctx.add_axiom(ax)
    if outermost:
        coll = ctx.collector
        ctx.collector = None
        coll.finalise(ctx)
    return result


# ----------------------------------------------------------------------------------------------------------------
def loop_ordinal(env: Env, st) -> int:
    if getattr(st, "_pyvc_ordinal", None) is not None:
        return st._pyvc_ordinal  # a comprehension executed as the loop it abbreviates (effectful_comprehension)
    fn = env.finfo.node if env.finfo is not None else None
    if fn is None:
        return 0
    k = 0
    for node in ast.walk(fn):
        if isinstance(node, (ast.For, ast.While)):
            if node is st:
                return k
            k += 1
    return 0


def assigned_names(stmts) -> List[str]:
    out = []
    for st in stmts:
        for node in ast.walk(st):
            if isinstance(node, ast.Name) and isinstance(node.ctx, ast.Store):
                if node.id not in out:
                    out.append(node.id)
    return out


_INPLACE_METHODS = {"append", "extend", "add", "update", "insert", "pop", "remove", "clear", "discard", "setdefault"}


def mutated_fields(stmts):
    """(variable, field) pairs `v.f` that the statements assign, subscript-assign or update through an in-place method."""
    out = []

    def field_of(node):
        if isinstance(node, ast.Attribute) and isinstance(node.value, ast.Name):
            return (node.value.id, node.attr)
        return None

    def note(x):
        if x is not None and x not in out:
            out.append(x)

    for st in stmts:
        for node in ast.walk(st):
            targets = []
            if isinstance(node, ast.Assign):
                targets = node.targets
            elif isinstance(node, (ast.AugAssign, ast.AnnAssign)):
                targets = [node.target]
            for t in targets:
                note(field_of(t))
                if isinstance(t, ast.Subscript):
                    note(field_of(t.value))
            if isinstance(node, ast.Call) and isinstance(node.func, ast.Attribute) and node.func.attr in _INPLACE_METHODS:
                note(field_of(node.func.value))
    return out


def names_in_calls(stmts):
    out = []
    for st in stmts:
        for node in ast.walk(st):
            if isinstance(node, ast.Call):
                cands = list(node.args) + [k.value for k in node.keywords]
                if isinstance(node.func, ast.Attribute):
                    cands.append(node.func.value)
                for c in cands:
                    if isinstance(c, ast.Name) and c.id not in out:
                        out.append(c.id)
    return out


def locally_mutated_containers(stmts):
    out = []
    for st in stmts:
        for node in ast.walk(st):
            if isinstance(node, ast.Call) and isinstance(node.func, ast.Attribute) and node.func.attr in _INPLACE_METHODS \
                    and isinstance(node.func.value, ast.Name):
                out.append(node.func.value.id)
            targets = node.targets if isinstance(node, ast.Assign) else [node.target] if isinstance(node, ast.AugAssign) else []
            for t in targets:
                if isinstance(t, ast.Subscript) and isinstance(t.value, ast.Name):
                    out.append(t.value.id)
    return out


def exec_for(engine, ctx, st: ast.For, env: Env):
    it = engine.eval(ctx, st.iter, env)
    if type(it).__name__ == "DynV":
        from . import dynmodel as _dm

        it = _dm.iter_seq(engine.lib, ctx, it)
    if isinstance(it, V.BytesV):
        it = bytes_as_seq(ctx, it)
    if isinstance(it, (SymSeq, V.EnumSeq)) and is_search_loop(st) and \
            engine.reg.loops.get((env.finfo.qualname if env.finfo is not None else "", loop_ordinal(env, st))) is None:
        return exec_search(engine, ctx, st, env, it)
    if isinstance(it, Obj) and it.cls.lookup("__iter__") is not None:
        it = engine.call_function(ctx, it.cls.lookup("__iter__"), [it], {}, dynamic=True)
    if is_concrete_iterable(it):
        broke = False
        for x in engine.iter_concrete(ctx, it):
            engine.assign(ctx, st.target, x, env)
            try:
                engine.exec_block(ctx, st.body, env)
            except BreakSig:
                broke = True
                break
            except ContinueSig:
                continue
        if not broke:
            engine.exec_block(ctx, st.orelse, env)
        return
    qual = env.finfo.qualname if env.finfo is not None else ""
    inv = engine.reg.loops.get((qual, loop_ordinal(env, st)))
    if inv is not None:
        return exec_for_invariant(engine, ctx, st, env, it, inv)
    from . import strmodel as _sm

    if _sm.ENABLED and _sm.is_symbolic_string(it):
        return _sm.exec_for_string(engine, ctx, st, env, it)
    if st.orelse:
        raise EngineLimit("for/else over a symbolic domain")
    if not mutates_outer_collections(st.body, env):
        return exec_forall(engine, ctx, st, env, it)
    if _append_loop(engine, ctx, st, env, it):
        return
    b = bind_domain(engine, ctx, it)
    before = set(env.vars.keys())
    snapshot = dict(env.vars)

    def body():
        engine.assign(ctx, st.target, b.value, env)
        try:
            engine.exec_block(ctx, st.body, env)
        except (BreakSig, ContinueSig):
            raise EngineLimit("break/continue in a set-building loop")
        except ReturnSig:
            raise EngineLimit("return inside a loop over a symbolic domain (no invariant given)")

    run_under_binding(engine, ctx, b, body)
    # loop-local names must not leak; pre-existing names must not have been rebound
    for n in list(env.vars.keys()):
        if n not in before:
            del env.vars[n]
        elif env.vars[n] is not snapshot[n]:
            raise EngineLimit("variable %r rebound in a loop over a symbolic domain without invariant" % n)


def bytes_as_seq(ctx, b):
    """iteration over a bytes value: the sequence of its bytes as ints (each 0..255)"""
    i = z3.FreshConst(z3.IntSort(), "bi")
    ctx.add_axiom(z3.ForAll([i], z3.And(z3.Select(b.arr, i) >= 0, z3.Select(b.arr, i) <= 255), patterns=[z3.Select(b.arr, i)]))
    return SymSeq(b.arr, V.Int.unwrap(b.length), V.Int)


def is_search_loop(st: ast.For) -> bool:
    """`for x in seq: if cond(x): <statements>; break`  (linear search for the first match; no else branches)"""
    if st.orelse or len(st.body) != 1 or not isinstance(st.body[0], ast.If):
        return False
    iff = st.body[0]
    if iff.orelse or not iff.body or not isinstance(iff.body[-1], ast.Break):
        return False
    for node in iff.body[:-1]:
        for sub in ast.walk(node):
            if isinstance(sub, (ast.Break, ast.Continue, ast.Return, ast.For, ast.While)):
                return False
    return True


def exec_search(engine, ctx, st: ast.For, env: Env, it):
    """First-match search loop over a symbolic sequence: either no element satisfies the (pure) condition and nothing
       happens, or the body of the `if` runs once for the first index that satisfies it."""
    seq = it.seq if isinstance(it, V.EnumSeq) else it
    start = V.Int.unwrap(it.start) if isinstance(it, V.EnumSeq) else None

    def elem(i):
        x = seq.at(ctx, i)
        return (i + start, x) if start is not None else x

    iff = st.body[0]
    i0 = ctx.fresh("srch", z3.IntSort())
    scratch = Env(env.module, env, env.finfo)
    n_taken, n_obl, n_pc = len(ctx.taken), len(ctx.obligations), len(ctx.pc)
    engine.assign(ctx, st.target, elem(i0), scratch)
    c0 = engine.truth(ctx, engine.eval(ctx, iff.test, scratch))
    if len(ctx.taken) != n_taken or len(ctx.obligations) != n_obl:
        raise EngineLimit("search loop whose condition branches or has obligations")
    del ctx.pc[n_pc:]
    c0 = lift_bool(c0)
    cond = lambda i: z3.substitute(c0, (i0, i))
    j = z3.FreshConst(z3.IntSort(), "sj")
    if ctx.choose(2) == 0:
        ctx.assume(mk_forall([j], z3.Implies(z3.And(0 <= j, j < seq.length), z3.Not(cond(j))), patterns=[z3.Select(seq.arr, j)]))
        return
    k = ctx.fresh("found", z3.IntSort())
    ctx.assume(z3.And(0 <= k, k < seq.length))
    ctx.assume(cond(k))
    ctx.assume(mk_forall([j], z3.Implies(z3.And(0 <= j, j < k), z3.Not(cond(j))), patterns=[z3.Select(seq.arr, j)]))
    engine.assign(ctx, st.target, elem(k), env)
    engine.exec_block(ctx, iff.body[:-1], env)


def _append_loop(engine, ctx, st: ast.For, env: Env, it) -> bool:
    """`for x in <symbolic sequence>: L.append(e)` with L a local list bound before the loop and the append the only
    statement of the body: executed as `L = L + [e for x in <sequence>]` (the comprehension machinery gives the mapped
    sequence).  Any other in-place growth of a Python list inside a loop over a symbolic domain without invariant is an
    engine limit: executing the body once for an arbitrary element would append ONE element, which is not what the loop does."""
    lists = [n for n, v in env.vars.items() if isinstance(v, PyList)]

    def touches_list(node):
        if isinstance(node, ast.Call) and isinstance(node.func, ast.Attribute) and node.func.attr in ("append", "extend", "insert") \
                and isinstance(node.func.value, ast.Name) and node.func.value.id in lists:
            return True
        if isinstance(node, ast.AugAssign) and isinstance(node.target, ast.Name) and node.target.id in lists:
            return True
        return False

    hits = [n for b in st.body for n in ast.walk(b) if touches_list(n)]
    if not hits:
        return False
    only = st.body[0] if len(st.body) == 1 else None
    simple = (only is not None and isinstance(only, ast.Expr) and isinstance(only.value, ast.Call) and only.value is hits[0]
              and len(hits) == 1 and only.value.func.attr == "append" and len(only.value.args) == 1 and not only.value.keywords
              and isinstance(it, SymSeq))
    if not simple:
        raise EngineLimit("a Python list is grown in place inside a loop over a symbolic domain (no invariant given)")
    name = only.value.func.value.id
    comp = ast.ListComp(elt=only.value.args[0],
                        generators=[ast.comprehension(target=st.target, iter=st.iter, ifs=[], is_async=0)])
    ast.copy_location(comp, st)
    ast.fix_missing_locations(comp)
    mapped = engine.eval(ctx, comp, env)
    if isinstance(mapped, V.MappedIter):
        mapped = list_of_mapped(engine, ctx, mapped)
    cur = env.vars[name]
    if not cur.fresh:
        ctx.oblige("%s/frame#aliased-mutation" % short(ctx.func), False, kind="frame")
    env.vars[name] = engine.lib.seq_concat(ctx, cur, mapped) if isinstance(mapped, SymSeq) else PyList(cur.items + list(mapped.items))
    return True


def exec_for_invariant(engine, ctx, st: ast.For, env: Env, it, inv):
    """for <target> in <SymSeq | symbolic range> with invariant inv(s) -> dict label -> clause.
       s.i is the number of completed iterations, s.<name> the current values of the locals, s.seq the sequence."""
    if isinstance(it, SymSeq):
        lo, hi = z3.IntVal(0), it.length
        elem = lambda i: it.at(ctx, i)
    elif isinstance(it, V.RangeV):
        lo, hi = V.Int.unwrap(it.lo), V.Int.unwrap(it.hi)
        elem = lambda i: i
    elif isinstance(it, V.EnumSeq):
        lo, hi = z3.IntVal(0), it.seq.length
        elem = lambda i: (i + V.Int.unwrap(it.start), it.seq.at(ctx, i))
    else:
        raise EngineLimit("invariant loop over %r" % (it,))
    label = "%s/loop%d" % (short(ctx.func), loop_ordinal(env, st))
    modified = [n for n in assigned_names(st.body) if n in env.vars]
    has_yield = any(isinstance(n, (ast.Yield, ast.YieldFrom)) for b in st.body for n in ast.walk(b))
    if has_yield and ctx.inline_depth == 0:
        # yields inside the loop: the sequence of yielded values becomes symbolic (count + per-component arrays)
        if getattr(ctx, "ysym", None) is None:
            ctx.ysym = V.YieldSeq(ctx)
            for v in ctx.yielded:
                ctx.ysym.push(v)
    elif has_yield:
        raise EngineLimit("yield inside a loop of an inlined generator")

    def inv_clauses(i):
        d_ = {k: v for k, v in env.vars.items()}
        # `carried`: the loop-carried variables by name, so that an invariant can speak about "the accumulator" without
        # depending on what the code calls it
        d_.update(i=i, seq=it, lo=lo, hi=hi, ctx=ctx, carried={k: env.vars[k] for k in modified if k in env.vars},
                  enclosing=list(getattr(ctx, "loop_elems", [])),  # current elements of the enclosing invariant loops
                  old=getattr(ctx, "entry_old", None),  # pre-state of the function (see symexec.make_old_view)
                  # materialised objects that the body hands to calls (receiver or argument), whatever the code calls them
                  touched=[env.vars[vn] for vn in names_in_calls(st.body)
                           if isinstance(env.vars.get(vn), Obj) and env.vars[vn].fields is not None],
                  yielded=getattr(ctx, "ysym", None))  # symbolic sequence of the values yielded so far (generators)
        ns = NS(**d_)
        trig = getattr(inv, "triggers", None)
        if trig is not None:
            # trigger atoms (uninterpreted marker predicates without axioms of their own): assuming them only tells the
            # solver where to instantiate a definitional axiom of the prelude
            for t in engine.run_spec(ctx, lambda: list(trig(ns))):
                if not (z3.is_app(t) and t.decl().name().startswith("unfold!")):
                    raise EngineLimit("a trigger must be an unfold! marker atom")
                ctx.assume(t)
        return engine.run_spec(ctx, lambda: _as_items(inv(ns)))

    # objects whose class invariant is maintained at calls (`invariant_at_calls`) and that the body hands to calls: their
    # class invariant is implicitly part of the loop invariant
    guarded = []
    for vn in names_in_calls(st.body):
        o_ = env.vars.get(vn)
        if isinstance(o_, Obj) and o_.fields is not None and engine._invariant_at_calls(o_.cls) \
                and not any(o_ is g_ for g_ in guarded):
            guarded.append(o_)

    def class_inv_items():
        out = []
        for o_ in guarded:
            for lab_, c_ in engine.class_invariants(ctx, o_):
                out.append(("%s.%s" % (o_.cls.name, lab_), c_))
        return out

    # initiation
    for lab, c in inv_clauses(lo):
        ctx.oblige("%s/inv-init#%s" % (label, lab), lift_bool(c), kind="inv-init")
    for lab, c in class_inv_items():
        ctx.oblige("%s/inv-init#class.%s" % (label, lab), lift_bool(c), kind="inv-init")
    # havoc
    kinds = dict(getattr(inv, "kinds", None) or {})
    kinds_by_value = getattr(inv, "kinds_by_value", None)
    if kinds_by_value is not None:
        # kinds of in-place mutated collections chosen by what the variable holds, not by what the code calls it
        for n_, v_ in list(env.vars.items()):
            k_ = kinds_by_value(n_, v_) if n_ not in kinds else None
            if k_ is not None:
                kinds[n_] = k_
    # collections that the body mutates in place (x.add(...)) are loop-carried too: the invariant declares their kind
    modified = modified + [n for n in kinds if n in env.vars and n not in modified]
    for n in modified:
        if n in kinds and getattr(inv, "in_place", False) and isinstance(env.vars[n], (SymSet, V.SymMap)) \
                and not (isinstance(env.vars[n], SymSet) and env.vars[n].elem_sort != kinds[n].sort().domain()):
            # collections that may be aliased (parameters): havocked in place so that every alias sees the new contents
            from . import ext_reader

            ext_reader.havoc_in_place(ctx, env.vars[n], n)
        elif n in kinds:
            old_v = env.vars[n]
            env.vars[n] = ctx.fresh_kind(n, kinds[n])  # kind of a loop-carried variable declared by the invariant
            if hasattr(env.vars[n], "fresh"):
                env.vars[n].fresh = getattr(old_v, "fresh", False)  # still the collection this function allocated
        else:
            env.vars[n] = fresh_like(engine, ctx, n, env.vars[n])
    # fields of materialised (mutable) objects that the body assigns or updates in place are loop-carried as well
    for (vn, fn) in mutated_fields(st.body):
        o = env.vars.get(vn)
        if isinstance(o, Obj) and o.fields is not None and fn in o.fields:
            kind, _ = engine.field_kind(o.cls, fn)
            if kind is None:
                raise EngineLimit("loop body modifies %s.%s which has no declared kind" % (vn, fn))
            o.fields[fn] = ctx.fresh_kind("loop.%s.%s" % (vn, fn), kind)
    # materialised objects of mutable classes that the body hands to calls (receiver or argument): callees may modify
    # their declared-mutable fields, so these are loop-carried too
    for vn in names_in_calls(st.body):
        o = env.vars.get(vn)
        if isinstance(o, Obj) and o.fields is not None and engine._is_mutable(o.cls):
            for c in o.cls.mro():
                cs = engine.reg.classes.get(c.qualname)
                for fn in (cs.mutable if cs else []):
                    kind, _ = engine.field_kind(o.cls, fn)
                    if kind is not None and fn in o.fields:
                        o.fields[fn] = ctx.fresh_kind("loop.%s.%s" % (vn, fn), kind)
    # local lists / dicts that the body grows in place: their contents are not tracked across a symbolic loop
    for vn in locally_mutated_containers(st.body):
        if vn not in kinds and isinstance(env.vars.get(vn), PyDict):
            # still a dict, but its contents are no longer tracked (reads are engine limits)
            nd = PyDict()
            nd.opaque = True
            env.vars[vn] = nd
        elif vn not in kinds and isinstance(env.vars.get(vn), PyList):
            env.vars[vn] = V.Opaque("container built in a loop over a symbolic domain")
    if has_yield:
        ctx.ysym.havoc()
    if getattr(inv, "havoc_ghost_heap", False):
        from . import ext_reader

        ext_reader.heap_havoc(ctx, grows=False)  # what the invariant says about the ghost heap is all that is known
    i = ctx.fresh("iter", z3.IntSort())
    ctx.assume(i >= lo)
    which = ctx.choose(2)
    if which == 0:
        # preservation: one arbitrary iteration
        ctx.assume(i < hi)
        for lab, c in inv_clauses(i):
            ctx.assume(lift_bool(c))
        for lab, c in class_inv_items():
            ctx.assume(lift_bool(c))
        cur = elem(i)
        engine.assign(ctx, st.target, cur, env)
        ctx.__dict__.setdefault("loop_elems", []).append(cur)  # visible to the invariants of nested loops as s.enclosing
        ctx.__dict__.setdefault("loop_indices", []).append(i)  # index of the current iteration (for call-site cuts)
        try:
            engine.exec_block(ctx, st.body, env)
        except ContinueSig:
            pass
        except BreakSig:
            raise EngineLimit("break in a loop with invariant")
        finally:
            ctx.loop_elems.pop()
            ctx.loop_indices.pop()
        for lab, c in inv_clauses(i + 1):
            ctx.oblige("%s/inv-step#%s" % (label, lab), lift_bool(c), kind="inv-step")
        for lab, c in class_inv_items():
            ctx.oblige("%s/inv-step#class.%s" % (label, lab), lift_bool(c), kind="inv-step")
        # the end of an arbitrary iteration must be reachable under the assumed invariant (else inv-step is vacuous)
        ctx.guards.append(("loop%d-step" % loop_ordinal(env, st), list(ctx.pc), list(ctx.axioms), list(ctx.taken)))
        raise PathEnd()
    # exit: invariant holds at i = max(lo, hi)
    ctx.assume(z3.If(hi >= lo, i == hi, i == lo))
    for lab, c in inv_clauses(i):
        ctx.assume(lift_bool(c))
    for lab, c in class_inv_items():
        ctx.assume(lift_bool(c))
    engine.exec_block(ctx, st.orelse, env)


def _as_items(r):
    if r is None:
        return []
    if isinstance(r, dict):
        return list(r.items())
    return [(str(k), c) for k, c in enumerate(r)]


def fresh_like(engine, ctx, name, v):
    if isinstance(v, bool) or (isinstance(v, z3.ExprRef) and z3.is_bool(v)):
        return ctx.fresh(name, z3.BoolSort())
    if isinstance(v, int) or (isinstance(v, z3.ExprRef) and z3.is_int(v)):
        return ctx.fresh(name, z3.IntSort())
    if isinstance(v, z3.ExprRef):
        return ctx.fresh(name, v.sort())
    if isinstance(v, SymSet):
        return SymSet(ctx.fresh(name, v.term.sort()), v.elem_sort, fresh=v.fresh)
    if isinstance(v, Obj):
        o = Obj(v.cls, v.exact, ctx.fresh(name, V.RefSort), None, ctx)
        if v.exact:
            ctx.assume(engine.tag_fn(o.ref) == engine.class_id(v.cls))
        else:
            engine.assume_class_range(ctx, o)
        return o
    if isinstance(v, V.FractionV):
        return V.FractionV(ctx.fresh(name, z3.RealSort()))
    if isinstance(v, SymSeq):
        s = SymSeq(ctx.fresh(name + "!arr", v.arr.sort()), ctx.fresh(name + "!len", z3.IntSort()), v.kind, v.fresh)
        ctx.assume(s.length >= 0)
        return s
    if v is None:
        raise EngineLimit("cannot havoc %s (None before the loop; no type information)" % name)
    raise EngineLimit("cannot havoc loop variable %s of value %r" % (name, v))


# ----------------------------------------------------------------------------------------------------------------
def eval_comprehension(engine, ctx, e, env: Env, kind: str):
    if len(e.generators) != 1:
        raise EngineLimit("comprehension with several generators")
    gen = e.generators[0]
    if gen.is_async:
        raise EngineLimit("async comprehension")
    if kind == "gen":
        it = engine.eval(ctx, gen.iter, env)
        return V.MappedIter(None, it, node=e, env=env)
    it = engine.eval(ctx, gen.iter, env)
    if kind == "list" and not is_concrete_iterable(it) and comprehension_has_effects(engine, e, env):
        r = effectful_comprehension(engine, ctx, e, gen, it, env)
        if r is not NotImplemented:
            return r
    return build_comprehension(engine, ctx, e, gen, it, env, kind)


def comprehension_has_effects(engine, e, env: Env) -> bool:
    """the element expression hands a materialised object of a mutable class to a call (receiver or argument)"""
    for vn in names_in_calls([ast.Expr(value=e.elt)]):
        found, o = env.lookup(vn)
        if found and isinstance(o, Obj) and o.fields is not None and engine._is_mutable(o.cls):
            return True
    return False


def effectful_comprehension(engine, ctx, e, gen, it, env: Env):
    """`[f(x, obj) for x in <symbolic domain>]` where f may modify `obj`: the comprehension is the loop
           tmp = []
           for x in <domain>: tmp.append(f(x, obj))
       and is executed through the same loop-invariant machinery; its loop ordinal is the ordinal a `for` statement at
       this place would have (number of for / while statements that precede it in the function)."""
    if gen.ifs:
        raise EngineLimit("list comprehension with effects and a filter over a symbolic domain")
    fn = env.finfo.node if env.finfo is not None else None
    ordinal = 0
    if fn is not None:
        for node in ast.walk(fn):
            if node is e:
                break
            if isinstance(node, (ast.For, ast.While)):
                ordinal += 1
    qual = env.finfo.qualname if env.finfo is not None else ""
    inv = engine.reg.loops.get((qual, ordinal))
    if inv is None:
        if isinstance(it, V.RangeV):
            # (the generic machinery would evaluate the element once: not sound for an element with effects)
            raise EngineLimit("list comprehension with effects on a mutable object over a symbolic range: no loop invariant "
                              "registered for loop %d of %s" % (ordinal, qual))
        return NotImplemented  # as before: the generic comprehension machinery decides (or reports its own limit)
    tmp = "comp!result"
    env.vars[tmp] = PyList([])
    body = [ast.Expr(value=ast.Call(func=ast.Attribute(value=ast.Name(id=tmp, ctx=ast.Load()), attr="append", ctx=ast.Load()),
                                    args=[e.elt], keywords=[]))]
    loop = ast.For(target=gen.target, iter=gen.iter, body=body, orelse=[], lineno=getattr(e, "lineno", 0), col_offset=0)
    ast.fix_missing_locations(loop)
    loop._pyvc_ordinal = ordinal
    if type(it).__name__ == "DynV":
        from . import dynmodel as _dm

        it = _dm.iter_seq(engine.lib, ctx, it)
    if isinstance(it, V.BytesV):
        it = bytes_as_seq(ctx, it)
    try:
        exec_for_invariant(engine, ctx, loop, env, it, inv)
        return env.vars[tmp]
    finally:
        env.vars.pop(tmp, None)


def comp_elt(e):
    return e.elt if not isinstance(e, ast.DictComp) else None


def build_comprehension(engine, ctx, e, gen, it, env, kind):
    if isinstance(it, V.MappedIter) and it.fn is None:
        raise EngineLimit("comprehension over a generator expression")
    if isinstance(it, Obj) and it.cls.lookup("__iter__") is not None:
        it = engine.call_function(ctx, it.cls.lookup("__iter__"), [it], {}, dynamic=True)
    if is_concrete_iterable(it):
        out = []
        dout = PyDict()
        for x in engine.iter_concrete(ctx, it):
            cenv = Env(env.module, env, env.finfo)
            engine.assign(ctx, gen.target, x, cenv)
            ok = True
            for cond in gen.ifs:
                if not ctx.decide(engine.truth(ctx, engine.eval(ctx, cond, cenv))):
                    ok = False
                    break
            if ok:
                if kind == "dict":
                    dout.items[engine.hashable(engine.eval(ctx, e.key, cenv))] = engine.eval(ctx, e.value, cenv)
                else:
                    out.append(engine.eval(ctx, e.elt, cenv))
        if kind == "list":
            return PyList(out)
        if kind == "dict":
            return dout
        if kind == "set":
            if all(isinstance(x, (int, str)) and not isinstance(x, bool) for x in out):
                return PySet(list(dict.fromkeys(out)))
            if all(isinstance(x, int) or (isinstance(x, z3.ExprRef) and z3.is_int(x)) for x in out):
                return engine.to_symset(ctx, out)
            return V.ValueSet(out)
    b = bind_domain(engine, ctx, it)
    if kind == "dict":
        # the dictionary itself is not modelled (any later use is an engine limit); its key / value / filter
        # expressions are evaluated for an arbitrary element so that an exception they could raise is not lost
        def dbody():
            cenv = Env(env.module, env, env.finfo)
            engine.assign(ctx, gen.target, b.value, cenv)
            for cond in gen.ifs:
                engine.truth(ctx, engine.eval(ctx, cond, cenv))
            engine.eval(ctx, e.key, cenv)
            engine.eval(ctx, e.value, cenv)

        try:
            run_under_binding(engine, ctx, b, dbody)
        except PyRaise:
            raise EngineLimit("dict comprehension over a symbolic domain whose element expressions may raise")
        return V.Opaque("dict built by a comprehension over a symbolic domain")
    if kind == "set":
        result = SymSet(z3.K(z3.IntSort(), z3.BoolVal(False)), fresh=True)

        def body():
            cenv = Env(env.module, env, env.finfo)
            engine.assign(ctx, gen.target, b.value, cenv)
            extra = []
            for cond in gen.ifs:
                c = engine.truth(ctx, engine.eval(ctx, cond, cenv))
                extra.append(lift_bool(c))
                ctx.pc.append(lift_bool(c))
            saved = ctx.bound_guards
            ctx.bound_guards = ctx.bound_guards + extra
            try:
                v = engine.eval(ctx, e.elt, cenv)
                if isinstance(v, V.PathV):
                    # a set of pure paths: the (still empty) result takes the element sort of its first element
                    if result.elem_sort != V.PathSort:
                        result.term = z3.K(V.PathSort, z3.BoolVal(False))
                        result.elem_sort = V.PathSort
                    v = v.term
                if isinstance(v, str) or (isinstance(v, z3.ExprRef) and z3.is_string(v)):
                    # a set of strings (e.g. {f.name for f in fields}): same rule
                    if result.elem_sort != z3.StringSort():
                        result.term = z3.K(z3.StringSort(), z3.BoolVal(False))
                        result.elem_sort = z3.StringSort()
                    v = V.Str.unwrap(v)
                ctx.collector.add(ctx, result, v)
            finally:
                ctx.bound_guards = saved

        run_under_binding(engine, ctx, b, body)
        return result
    if kind == "list" and isinstance(it, V.RangeV) and not gen.ifs and it.step == 1:
        # [e for _ in range(lo, hi)] with e independent of the index: hi - lo copies of e
        holder = {}
        n_taken = len(ctx.taken)

        def body_r():
            cenv = Env(env.module, env, env.finfo)
            engine.assign(ctx, gen.target, b.value, cenv)
            holder["v"] = engine.eval(ctx, e.elt, cenv)

        body_r()
        v = holder["v"]
        kind_v = kind_of_value(v)
        term = kind_v.unwrap(v)
        if any(_mentions(term, c) for c in b.consts):
            raise EngineLimit("list comprehension over a symbolic range whose element depends on the index")
        lo_t, hi_t = V.Int.unwrap(it.lo), V.Int.unwrap(it.hi)
        return SymSeq(z3.K(z3.IntSort(), term), z3.If(hi_t > lo_t, hi_t - lo_t, 0), kind_v, fresh=True)
    if kind == "list":
        if not b.ordered or not isinstance(it, SymSeq):
            raise EngineLimit("list comprehension over an unordered symbolic domain")
        if gen.ifs:
            return filtered_comprehension(engine, ctx, e, gen, it, b, env)
        holder = {}

        def body():
            cenv = Env(env.module, env, env.finfo)
            engine.assign(ctx, gen.target, b.value, cenv)
            holder["v"] = engine.eval(ctx, e.elt, cenv)

        run_under_binding(engine, ctx, b, body)
        return seq_from_template(engine, ctx, it, b, holder["v"])
    raise EngineLimit("comprehension kind %s" % kind)


def seq_from_template(engine, ctx, src: SymSeq, b: Binding, v):
    """A new sequence with the same length as `src` whose i-th element is v[i/b.const].
       When the element expression depends on the source element only, the result is the canonical term
       map!<hash>(src.arr) (a function of the source array, so equal comprehensions give equal terms)."""
    import hashlib

    kind = kind_of_value(v)
    term = kind.unwrap(v)
    i0 = b.consts[0]
    esel = z3.Select(src.arr, i0)
    E = z3.Const("map!elem", src.arr.sort().range())
    t2 = z3.substitute(term, (esel, E))
    if not _mentions(t2, i0) and not (ctx.bound and any(_mentions(t2, c) for c in ctx.bound)):
        h = hashlib.sha256((t2.sexpr() + "|" + str(kind.sort())).encode()).hexdigest()[:10]
        fn = z3.Function("map!%s" % h, src.arr.sort(), z3.ArraySort(z3.IntSort(), kind.sort()))
        S = z3.Const("map!S", src.arr.sort())
        i = z3.Int("map!i")
        body = z3.Select(fn(S), i) == z3.substitute(t2, (E, z3.Select(S, i)))
        ctx.add_axiom(z3.ForAll([S, i], body, patterns=[z3.Select(fn(S), i), z3.MultiPattern(z3.Select(S, i), fn(S))]))
        return SymSeq(fn(src.arr), src.length, kind, fresh=True)
    if getattr(ctx, "under_quantifier", False):
        raise EngineLimit("non-canonical mapped sequence inside a quantified specification")
    arr = ctx.fresh("mapped", z3.ArraySort(z3.IntSort(), kind.sort()))
    i = z3.FreshConst(z3.IntSort(), "i")
    sub = [(i0, i)]
    g = z3.And(*[z3.substitute(x, *sub) for x in b.guards])
    body = z3.Implies(g, z3.Select(arr, i) == z3.substitute(term, *sub))
    try:
        ax = z3.ForAll([i], body, patterns=[z3.Select(arr, i), z3.Select(src.arr, i)])
    except z3.Z3Exception:
        ax = mk_forall([i], body, patterns=[z3.Select(arr, i)])
    ctx.add_axiom(ax)
    return SymSeq(arr, src.length, kind, fresh=True)


def kind_of_value(v):
    if isinstance(v, SymSet):
        return V.IntSet
    if isinstance(v, bool) or (isinstance(v, z3.ExprRef) and z3.is_bool(v)):
        return V.Bool
    if isinstance(v, int) or (isinstance(v, z3.ExprRef) and z3.is_int(v)):
        return V.Int
    if isinstance(v, str) or (isinstance(v, z3.ExprRef) and z3.is_string(v)):
        return V.Str
    if isinstance(v, Obj):
        return V.ObjOf(v.cls.qualname, v.exact)
    if type(v).__name__ == "DynV":
        from .dynmodel import Dyn

        return Dyn
    raise EngineLimit("no kind for sequence element %r" % (v,))


# ----------------------------------------------------------------------------------------------------------------
def mapped_items_concrete(engine, ctx, m):
    """Evaluate a MappedIter / generator expression over a concrete iterable into a list of values."""
    if isinstance(m, V.MappedIter):
        src = m.it
        if isinstance(src, V.MappedIter):
            src = PyList(mapped_items_concrete(engine, ctx, src))
        if isinstance(src, Obj) and src.cls.lookup("__iter__") is not None:
            src = engine.call_function(ctx, src.cls.lookup("__iter__"), [src], {}, dynamic=True)
        if not is_concrete_iterable(src):
            return None
        if m.fn is not None:
            return [engine.call(ctx, m.fn, [x], {}) for x in engine.iter_concrete(ctx, src)]
        gen = m.node.generators[0]
        out = []
        for x in engine.iter_concrete(ctx, src):
            cenv = Env(m.env.module, m.env, m.env.finfo)
            engine.assign(ctx, gen.target, x, cenv)
            ok = True
            for cond in gen.ifs:
                if not ctx.decide(engine.truth(ctx, engine.eval(ctx, cond, cenv))):
                    ok = False
                    break
            if ok:
                out.append(engine.eval(ctx, m.node.elt, cenv))
        return out
    if is_concrete_iterable(m):
        return engine.iter_concrete(ctx, m)
    return None


def symbolic_template(engine, ctx, m):
    """For a MappedIter over a symbolic domain: (binding, value-under-binding, extra guards)."""
    src = m.it
    b = bind_domain(engine, ctx, src)
    holder = {}

    def body():
        if m.fn is not None:
            holder["v"] = engine.call(ctx, m.fn, [b.value], {})
            holder["g"] = []
        else:
            gen = m.node.generators[0]
            cenv = Env(m.env.module, m.env, m.env.finfo)
            engine.assign(ctx, gen.target, b.value, cenv)
            gs = []
            for cond in gen.ifs:
                c = lift_bool(engine.truth(ctx, engine.eval(ctx, cond, cenv)))
                gs.append(c)
                ctx.pc.append(c)
            holder["g"] = gs
            holder["v"] = engine.eval(ctx, m.node.elt, cenv)

    run_under_binding(engine, ctx, b, body)
    return b, holder["v"], holder["g"], src


def quantify_iter(engine, ctx, it, universal: bool):
    items = mapped_items_concrete(engine, ctx, it)
    if items is not None:
        ts = [lift_bool_truth(engine, ctx, x) for x in items]
        return speclib_and(*ts) if universal else speclib_or(*ts)
    if isinstance(it, V.MappedIter):
        b, v, gs, src = symbolic_template(engine, ctx, it)
        vs = [z3.FreshConst(c.sort(), "q") for c in b.consts]
        sub = list(zip(b.consts, vs))
        g = z3.And(*[z3.substitute(x, *sub) for x in b.guards + gs])
        body = z3.substitute(lift_bool(lift_bool_truth(engine, ctx, v)), *sub)
        pp = [z3.substitute(p, *sub) for p in b.patterns]
        pat = [pp[0]] if len(pp) == 1 else []
        if universal:
            return mk_forall(vs, z3.Implies(g, body), patterns=pat)
        return z3.Exists(vs, z3.And(g, body))
    raise EngineLimit("all/any over %r" % (it,))


def lift_bool_truth(engine, ctx, x):
    if isinstance(x, (bool, z3.BoolRef)):
        return x
    return engine.truth(ctx, x)


def sum_iter(engine, ctx, it, start):
    from . import settheory as st

    if isinstance(it, V.ComboTuple):
        return it.total
    items = mapped_items_concrete(engine, ctx, it)
    if items is not None:
        acc = start
        for x in items:
            acc = engine.binop(ctx, ast.Add(), acc, x)
        return acc
    if isinstance(it, V.MappedIter):
        b, v, gs, src = symbolic_template(engine, ctx, it)
        if gs or not isinstance(src, SymSeq):
            raise EngineLimit("sum over a filtered / unordered symbolic domain")
        seq = seq_from_template(engine, ctx, src, b, v)
        if not (isinstance(start, int) and start == 0):
            raise EngineLimit("sum with a start value")
        return st.sumseq(seq.arr, seq.length)
    raise EngineLimit("sum over %r" % (it,))


def minmax_iter(engine, ctx, it, is_min: bool):
    from . import settheory as st

    if isinstance(it, Obj) and it.cls.lookup("__iter__") is not None:
        it = engine.call_function(ctx, it.cls.lookup("__iter__"), [it], {}, dynamic=True)
    if isinstance(it, SymSet):
        if ctx.decide(z3.Not(lift_bool(engine.truth(ctx, it)))):
            raise engine.lib.raise_ext("ValueError")
        return st.smin(it.term) if is_min else st.smax(it.term)
    if isinstance(it, SymSeq) and it.kind is V.Int:
        if ctx.decide(it.length <= 0):
            raise engine.lib.raise_ext("ValueError")
        return st.minseq(it.arr, it.length) if is_min else st.maxseq(it.arr, it.length)
    items = mapped_items_concrete(engine, ctx, it)
    if items is not None:
        return engine.lib.fold_minmax(ctx, items, is_min)
    if isinstance(it, V.MappedIter):
        b, v, gs, src = symbolic_template(engine, ctx, it)
        if gs or not isinstance(src, SymSeq):
            raise EngineLimit("min/max over a filtered / unordered symbolic domain")
        seq = seq_from_template(engine, ctx, src, b, v)
        if ctx.decide(seq.length <= 0):
            raise engine.lib.raise_ext("ValueError")
        return st.minseq(seq.arr, seq.length) if is_min else st.maxseq(seq.arr, seq.length)
    raise EngineLimit("min/max over %r" % (it,))


def image_of_mapped(engine, ctx, m: V.MappedIter):
    """set(map(f, S)) / set(genexp)."""
    items = mapped_items_concrete(engine, ctx, m)
    if items is not None:
        if all(isinstance(x, (int, str)) and not isinstance(x, bool) for x in items):
            return PySet(list(dict.fromkeys(items)))
        if all(isinstance(x, int) or (isinstance(x, z3.ExprRef) and z3.is_int(x)) for x in items):
            return engine.to_symset(ctx, items)
        return V.ValueSet(items)
    b = bind_domain(engine, ctx, m.it)
    result = SymSet(z3.K(z3.IntSort(), z3.BoolVal(False)), fresh=True)

    def body():
        if m.fn is not None:
            v = engine.call(ctx, m.fn, [b.value], {})
        else:
            gen = m.node.generators[0]
            cenv = Env(m.env.module, m.env, m.env.finfo)
            engine.assign(ctx, gen.target, b.value, cenv)
            if gen.ifs:
                raise EngineLimit("filtered generator into set()")
            v = engine.eval(ctx, m.node.elt, cenv)
        if isinstance(v, str) or (isinstance(v, z3.ExprRef) and z3.is_string(v)):
            # a set of strings (e.g. the root namespace names of a list of definitions)
            result.term = z3.K(z3.StringSort(), z3.BoolVal(False))
            result.elem_sort = z3.StringSort()
            v = V.Str.unwrap(v)
        ctx.collector.add(ctx, result, v)

    run_under_binding(engine, ctx, b, body)
    return result


def list_of_mapped(engine, ctx, m: V.MappedIter):
    items = mapped_items_concrete(engine, ctx, m)
    if items is not None:
        return PyList(items)
    b, v, gs, src = symbolic_template(engine, ctx, m)
    if gs or not isinstance(src, SymSeq):
        raise EngineLimit("list() of a filtered / unordered symbolic domain")
    return seq_from_template(engine, ctx, src, b, v)


def filter_iter(engine, ctx, fn, it):
    if is_concrete_iterable(it):
        out = []
        for x in engine.iter_concrete(ctx, it):
            if ctx.decide(lift_bool_truth(engine, ctx, engine.call(ctx, fn, [x], {}))):
                out.append(x)
        return PyList(out)
    if isinstance(it, SymSeq):
        return filter_symbolic(engine, ctx, fn, it)
    raise EngineLimit("filter over a symbolic domain")


def filter_symbolic(engine, ctx, fn, src: SymSeq):
    """filter(pred, seq) over a symbolic sequence: the predicate is evaluated once for an arbitrary element (it must be
       a branch-free boolean expression of the element: `and`/`or` are evaluated without short-circuit forks, which is
       only accepted when no operand branches or raises); the result is the canonical order-preserving subsequence."""
    b = bind_domain(engine, ctx, src)
    holder = {}

    def body():
        ctx.pure_bool = getattr(ctx, "pure_bool", 0) + 1
        try:
            holder["cond"] = lift_bool(lift_bool_truth(engine, ctx, engine.call(ctx, fn, [b.value], {})))
        finally:
            ctx.pure_bool -= 1

    run_under_binding(engine, ctx, b, body)
    return canonical_filter(ctx, src, holder["cond"], b.consts[0])


# ----------------------------------------------------------------------------------------------------------------
MUTATORS = {"add", "append", "extend", "update", "remove", "discard", "clear", "pop", "insert", "setdefault"}


def mutates_outer_collections(stmts, env: Env) -> bool:
    """Syntactic test: does the loop body mutate a collection bound outside the loop (set building / grouping)?"""
    local = set(assigned_names(stmts))

    def root_name(e):
        while isinstance(e, (ast.Attribute, ast.Subscript)):
            e = e.value
        return e.id if isinstance(e, ast.Name) else None

    for st in stmts:
        for node in ast.walk(st):
            if isinstance(node, ast.Call) and isinstance(node.func, ast.Attribute) and node.func.attr in MUTATORS:
                r = root_name(node.func.value)
                if r is not None and r not in local:
                    return True
            if isinstance(node, ast.AugAssign):
                r = root_name(node.target)
                if r is not None and (r not in local or r in env.vars):
                    return True
            if isinstance(node, ast.Assign):
                for t in node.targets:
                    if isinstance(t, (ast.Subscript, ast.Attribute)):
                        r = root_name(t)
                        if r is not None and r not in local:
                            return True
    return False


def exec_forall(engine, ctx, st: ast.For, env: Env, it):
    """`for x in D: body` where the body has no effect other than possibly raising.
       Either some element makes the body raise (witness path), or the body completes normally for all elements."""
    before = set(env.vars.keys())
    snapshot = dict(env.vars)

    def run_body(value):
        engine.assign(ctx, st.target, value, env)
        try:
            engine.exec_block(ctx, st.body, env)
        except ContinueSig:
            pass
        except BreakSig:
            raise EngineLimit("break in a loop over a symbolic domain (no invariant given)")
        except ReturnSig:
            raise EngineLimit("return inside a loop over a symbolic domain (no invariant given)")

    def cleanup():
        for n in list(env.vars.keys()):
            if n not in before:
                del env.vars[n]
            elif env.vars[n] is not snapshot[n]:
                raise EngineLimit("variable %r rebound in a loop over a symbolic domain without invariant" % n)

    which = ctx.choose(2)
    if which == 0:
        # witness path: one arbitrary element; every path through the body is explored, obligations are recorded,
        # raising paths propagate; normally completing paths are covered by the other choice
        b = bind_domain(engine, ctx, it)
        for g in b.guards + b.facts:
            ctx.assume(g)
        run_body(b.value)
        raise PathEnd()
    # all elements complete normally: summarise the body
    b = bind_domain(engine, ctx, it)
    state_binding_facts(ctx, b)
    normal = summarise_block(engine, ctx, b, lambda: run_body(b.value), cleanup)
    vs = [z3.FreshConst(c.sort(), "e") for c in b.consts]
    sub = list(zip(b.consts, vs))
    g = z3.And(*[z3.substitute(x, *sub) for x in b.guards]) if b.guards else z3.BoolVal(True)
    body = z3.substitute(z3.Or(*normal) if normal else z3.BoolVal(False), *sub)
    pp = [z3.substitute(p, *sub) for p in b.patterns]
    pat = []
    if pp and _covers_all(pp, vs):
        pat = [z3.MultiPattern(*pp)] if len(pp) > 1 else [pp[0]]
    ctx.assume(mk_forall(vs, z3.Implies(g, body), patterns=pat))
    cleanup()


def summarise_block(engine, ctx, b: Binding, run, cleanup) -> List[Any]:
    """Explore all paths of an effect-free block for an arbitrary element of the binding; return the local path
       conditions of the normally completing ones.  Obligations are not recorded here (the witness path records them)."""
    saved = (ctx.prefix, ctx.taken, ctx.pending)
    saved_bound = (list(ctx.bound), list(ctx.bound_guards), list(ctx.bound_patterns), ctx.gen_facts)
    base_len = len(ctx.pc)
    n_obl = len(ctx.obligations)
    normal: List[Any] = []
    work: List[List[int]] = [[]]
    guard_len = None
    count = 0
    try:
        while work:
            count += 1
            if count > 400:
                raise EngineLimit("too many paths in a loop body summary")
            pre = work.pop()
            ctx.prefix, ctx.taken, ctx.pending = pre, [], []
            ctx.bound = saved_bound[0] + b.consts
            ctx.bound_guards = saved_bound[1] + b.guards
            ctx.bound_patterns = saved_bound[2] + b.patterns
            ctx.gen_facts = []
            for g in b.guards + b.facts:
                ctx.pc.append(g)
            guard_len = len(ctx.pc)
            counter0 = ctx.counter
            ctx.spec_mode += 1  # suppress obligations
            ctx.summary_depth = getattr(ctx, "summary_depth", 0) + 1
            try:
                run()
                local = ctx.pc[guard_len:]
                normal.append(z3.And(*local) if local else z3.BoolVal(True))
            except PyRaise:
                pass
            except PathEnd:
                pass
            finally:
                ctx.spec_mode -= 1
                ctx.summary_depth -= 1
                del ctx.pc[base_len:]
                cleanup()
            work.extend(ctx.pending)
    finally:
        ctx.prefix, ctx.taken, ctx.pending = saved
        ctx.bound, ctx.bound_guards, ctx.bound_patterns, ctx.gen_facts = saved_bound
        del ctx.obligations[n_obl:]
    return normal


def argminmax_iter(engine, ctx, it, keyfn, is_min: bool):
    """min(seq, key=f) / max(seq, key=f): an element whose key is minimal (maximal); the first such one."""
    if isinstance(it, Obj) and it.cls.lookup("__iter__") is not None:
        it = engine.call_function(ctx, it.cls.lookup("__iter__"), [it], {}, dynamic=True)
    if is_concrete_iterable(it):
        items = engine.iter_concrete(ctx, it)
        if not items:
            raise engine.lib.raise_ext("ValueError")
        best = items[0]
        bk = engine.call(ctx, keyfn, [best], {})
        for x in items[1:]:
            k = engine.call(ctx, keyfn, [x], {})
            better = engine.lib.order(ctx, ast.Lt() if is_min else ast.Gt(), k, bk)
            if ctx.decide(lift_bool_truth(engine, ctx, better)):
                best, bk = x, k
        return best
    if not isinstance(it, SymSeq):
        raise EngineLimit("min/max with key over %r" % (it,))
    if ctx.decide(it.length <= 0):
        raise engine.lib.raise_ext("ValueError")
    m = V.MappedIter(keyfn, it)
    b, v, gs, src = symbolic_template(engine, ctx, m)
    kt = V.Int.unwrap(v)
    w = ctx.fresh("argbest", z3.IntSort())
    i = z3.FreshConst(z3.IntSort(), "i")
    key_at = lambda t: z3.substitute(kt, (b.consts[0], t))
    ctx.assume(z3.And(0 <= w, w < it.length))
    cmp_all = key_at(w) <= key_at(i) if is_min else key_at(w) >= key_at(i)
    cmp_strict = key_at(w) < key_at(i) if is_min else key_at(w) > key_at(i)
    ctx.assume(mk_forall([i], z3.Implies(z3.And(0 <= i, i < it.length), cmp_all), patterns=[z3.Select(it.arr, i)]))
    ctx.assume(mk_forall([i], z3.Implies(z3.And(0 <= i, i < w), cmp_strict), patterns=[z3.Select(it.arr, i)]))
    return it.at(ctx, w)


def filtered_comprehension(engine, ctx, e, gen, src: SymSeq, b: Binding, env):
    """[f(x) for x in seq if p(x)] over a symbolic sequence: the order-preserving subsequence of the elements that
       satisfy p (canonical: the same source and predicate give the same terms), then mapped by f."""
    import hashlib

    holder = {}

    def body():
        cenv = Env(env.module, env, env.finfo)
        engine.assign(ctx, gen.target, b.value, cenv)
        conds = []
        # as for filter(pred, seq): `and` / `or` in the condition are evaluated strictly (no short-circuit fork); accepted
        # only when no operand branches or raises, so both spellings yield the same canonical filtered sequence
        ctx.pure_bool = getattr(ctx, "pure_bool", 0) + 1
        try:
            for cond in gen.ifs:
                c = lift_bool(lift_bool_truth(engine, ctx, engine.eval(ctx, cond, cenv)))
                conds.append(c)
        finally:
            ctx.pure_bool -= 1
        holder["cond"] = z3.And(*conds) if len(conds) > 1 else conds[0]

    run_under_binding(engine, ctx, b, body)
    i0 = b.consts[0]
    sub = canonical_filter(ctx, src, holder["cond"], i0)
    if isinstance(e.elt, ast.Name) and isinstance(gen.target, ast.Name) and e.elt.id == gen.target.id:
        return sub
    b2 = bind_domain(engine, ctx, sub)
    holder2 = {}

    def body2():
        cenv = Env(env.module, env, env.finfo)
        engine.assign(ctx, gen.target, b2.value, cenv)
        holder2["v"] = engine.eval(ctx, e.elt, cenv)

    run_under_binding(engine, ctx, b2, body2)
    return seq_from_template(engine, ctx, sub, b2, holder2["v"])


def canonical_filter(ctx, src: SymSeq, cond, i0, strict=False):
    """The order-preserving subsequence of `src` of the elements that satisfy a predicate of the element.
       Canonical: flt!<hash>!arr(src.arr, n), a function of the source (equal filters give equal terms)."""
    import hashlib

    esel = z3.Select(src.arr, i0)
    E = z3.Const("flt!elem", src.arr.sort().range())
    c2 = z3.substitute(cond, (esel, E))
    if _mentions(c2, i0):
        raise EngineLimit("filter predicate depends on the position, not only on the element")
    h = hashlib.sha256(c2.sexpr().encode()).hexdigest()[:10]
    AS = src.arr.sort()
    I_ = z3.IntSort()
    farr = z3.Function("flt!%s!arr" % h, AS, I_, AS)
    flen = z3.Function("flt!%s!len" % h, AS, I_, I_)
    fidx = z3.Function("flt!%s!idx" % h, AS, I_, I_, I_)
    finv = z3.Function("flt!%s!inv" % h, AS, I_, I_, I_)
    S = z3.Const("flt!S", AS)
    n, j, j2, i = z3.Ints("flt!n flt!j flt!j2 flt!i")
    P = lambda el: z3.substitute(c2, (E, el))
    sel = z3.Select
    facts = [
        z3.ForAll([S, n], z3.And(flen(S, n) >= 0, z3.Implies(n >= 0, flen(S, n) <= n)), patterns=[flen(S, n)]),
        z3.ForAll([S, n, j], z3.Implies(z3.And(0 <= j, j < flen(S, n)),
                                        z3.And(0 <= fidx(S, n, j), fidx(S, n, j) < n, P(sel(S, fidx(S, n, j))),
                                               sel(farr(S, n), j) == sel(S, fidx(S, n, j)),
                                               finv(S, n, fidx(S, n, j)) == j)),
                  patterns=[sel(farr(S, n), j)]),
        z3.ForAll([S, n, j, j2], z3.Implies(z3.And(0 <= j, j < j2, j2 < flen(S, n)), fidx(S, n, j) < fidx(S, n, j2)),
                  patterns=[z3.MultiPattern(fidx(S, n, j), fidx(S, n, j2))]),
        z3.ForAll([S, n, i], z3.Implies(z3.And(0 <= i, i < n, P(sel(S, i))),
                                        z3.And(0 <= finv(S, n, i), finv(S, n, i) < flen(S, n),
                                               fidx(S, n, finv(S, n, i)) == i,
                                               sel(farr(S, n), finv(S, n, i)) == sel(S, i))),
                  patterns=[z3.MultiPattern(sel(S, i), farr(S, n)), z3.MultiPattern(sel(S, i), flen(S, n))]),
    ]
    if strict:
        # a filter that rejects some element is strictly shorter than its source
        # (Lean: Pydsdl.filter_length_lt, lean/Pydsdl/Filter.lean = List.length_filter_lt_length_iff_exists)
        facts.append(z3.ForAll([S, n, i], z3.Implies(z3.And(0 <= i, i < n, z3.Not(P(sel(S, i)))), flen(S, n) < n),
                               patterns=[z3.MultiPattern(sel(S, i), flen(S, n))]))
    for f in facts:
        ctx.add_axiom(f)
    sub = SymSeq(farr(src.arr, src.length), flen(src.arr, src.length), src.kind, fresh=True)
    sub.filter_of = (src, P, lambda t: fidx(src.arr, src.length, t), lambda t: finv(src.arr, src.length, t))
    return sub
