"""
Library model: ASSUMED contracts of Python builtins and of the few stdlib functions that the functions under
contract call.  One table; its entries are listed into every evidence file (`assumed_library_contracts`).
"""
from __future__ import annotations
import ast
import math
import z3
from typing import Any, Dict, List

from . import values as V
from .values import EngineLimit, Obj, SymSet, SymSeq, SymMap, OptV, RecV, PyList, PySet, PyDict, ExcVal

ASSUMED = {
    "int arithmetic": "Python int is a mathematical integer; // and % are floor division/modulo",
    "len": "len() of a list/tuple/str is a non-negative integer",
    "min/max/sum": "min/max/sum over finite collections are the mathematical minimum/maximum/sum",
    "set()": "set(iterable)/frozenset build the set of the iterable's elements; set == compares extensionally",
    "list()/tuple()": "list(x), x[:] return fresh copies with the same elements in the same order",
    "math.lcm": "math.lcm(a,b) for a,b>=1 is positive, a multiple of both and divides every common multiple",
    "itertools.product": "itertools.product(*Ss) enumerates exactly the tuples with i-th component in Ss[i]",
    "itertools.combinations_with_replacement":
        "combinations_with_replacement(S,k) enumerates exactly the size-k multisets over S "
        "(hence {sum(el)} is the k-fold sumset; one empty tuple for k=0; nothing for k<0)",
    "isinstance": "isinstance follows the class hierarchy read from the repository sources (closed world)",
    "int.bit_length": "n.bit_length() for n>=0 is the least w with n < 2**w",
    "math.log2/ceil": "ceil(log2(n)) for n in [1,256] is evaluated on the running math module (a table); for n > 256 "
                      "it is some e >= 9 with 2**(e-1) < n <= 2**e (monotonicity / accuracy of math.log2 assumed)",
    "dict": "dict lookup raises KeyError iff the key is absent; insertion order iteration",
    "fractions.Fraction": "Fraction is an exact rational: + - * exact, / and % raise ZeroDivisionError iff divisor is 0",
    "str.lower": "str.lower is an uninterpreted per-string function unless the string is concrete",
    "str.split": "s.split(c) for a one-character c: >= 1 components, none contains c, one component iff c not in s "
                 "(then it is s), s starts with the first and ends with the last component (canonical function of s)",
    "str.join": "c.join(seq) for a one-character c is a function of the sequence; splitting it at c gives the sequence "
                "back when it is non-empty and no element contains c",
    "str.strip": "str.strip is an uninterpreted per-string function unless the string is concrete",
    "pathlib relations": "Path.resolve() is a total function of the path (strict=False); a.samefile(b) and "
                         "a.is_relative_to(b) are reflexive relations of the two paths, samefile is symmetric (and does not raise "
                         "on existing paths); a.relative_to(b) raises ValueError iff not a.is_relative_to(b)",
    "pathlib (pure paths)": "a path is an opaque value with .parent / .stem / .name / .parts as uninterpreted functions; "
                            "Path(p) of a path is that path; nothing about the file system is modelled",
}

BUILTIN_FUNCS = {
    "len", "isinstance", "issubclass", "int", "str", "bool", "float", "set", "frozenset", "list", "tuple", "dict", "min", "max",
    "sum", "range", "map", "filter", "all", "any", "sorted", "enumerate", "zip", "callable", "type", "hasattr",
    "getattr", "iter", "next", "abs", "round", "repr", "ord", "chr", "print", "object", "divmod", "bytes",
    "bytearray", "id", "hash", "reversed", "memoryview",
}

TYPE_NAMES = {"int", "str", "bool", "float", "set", "frozenset", "list", "tuple", "dict", "bytes", "bytearray", "object", "type"}


class Log2V:
    """math.log2(x) of a symbolic positive integer x: only math.ceil of it is modelled."""

    def __init__(self, arg):
        self.arg = arg


class Lib:
    def __init__(self, engine):
        self.e = engine
        self.pow2 = z3.Function("pow2", z3.IntSort(), z3.IntSort())

    # ------------------------------------------------------------------ names
    def builtin_name(self, name: str):
        from .symexec import EXT_EXC_BASES

        if name in EXT_EXC_BASES:
            return V.ExtClass(name)
        if name in BUILTIN_FUNCS:
            return V.Builtin(name)
        if name == "NotImplemented":
            return V.Sentinel("NotImplemented")
        if name == "__name__":
            return "module"
        raise EngineLimit("unknown name %s" % name)

    def ext_name(self, dotted: str):
        last = dotted.split(".")[-1]
        from .symexec import EXT_EXC_BASES

        if last in EXT_EXC_BASES and dotted.count(".") <= 1:
            return V.ExtClass(last)
        return V.Builtin(dotted)

    # ------------------------------------------------------------------ attribute access on non-repo values
    def getattr(self, ctx, o, name: str):
        if isinstance(o, V.PathV):
            return self.path_attr(ctx, o, name)
        if isinstance(o, V.JoinedStr):
            return V.Builtin("method." + name, bound=o)
        if isinstance(o, V.FractionV):
            if name == "denominator":
                d = self.e.uf("frac!den", z3.RealSort(), z3.IntSort())(o.term)
                ctx.assume(z3.If(z3.IsInt(o.term), d == 1, d >= 2))
                return d
            if name == "numerator":
                n = self.e.uf("frac!num", z3.RealSort(), z3.IntSort())(o.term)
                ctx.assume(z3.Implies(z3.IsInt(o.term), z3.ToReal(n) == o.term))
                return n
        if isinstance(o, (V.ExtModule, V.Builtin)) and getattr(o, "bound", None) is None and o.name == "string" \
                and name in ("ascii_letters", "ascii_lowercase", "ascii_uppercase", "digits", "hexdigits", "octdigits"):
            import string as _string

            return getattr(_string, name)  # constants of the running interpreter's `string` module
        from . import strmodel as _sm

        if isinstance(o, _sm.RegexV):
            return V.Builtin("method." + name, bound=o)
        if isinstance(o, V.ExtModule):
            return V.Builtin(o.name + "." + name)
        if isinstance(o, V.Builtin) and o.bound is None:
            return V.Builtin(o.name + "." + name)
        if isinstance(o, (PyList, PySet, PyDict, SymSet, SymSeq, SymMap, str, tuple, V.GroupDict, V.GroupSlot)) or (
                isinstance(o, z3.ExprRef) and (z3.is_string(o) or z3.is_int(o))) or isinstance(o, (int, V.FractionV, V.GeneratorV)):
            return V.Builtin("method." + name, bound=o)
        if isinstance(o, OptV):
            # attribute access on an Optional: Python raises AttributeError on None
            if ctx.decide(o.is_none):
                raise self.raise_ext("AttributeError")
            return self.e.getattr(ctx, o.val, name)
        from . import dynmodel as _dm

        if isinstance(o, (V.BytesOf, V.BytesV, _dm.DynV)):
            return V.Builtin("method." + name, bound=o)
        if isinstance(o, V.EnumV):
            if name == "value":
                return o.term
            if name == "name":
                return o.name if o.name is not None else V.Opaque("enum name")
        if isinstance(o, V.Opaque) and o.what.startswith("container built in a loop") and name in ("append", "extend"):
            return V.Builtin("method." + name, bound=o)
        if isinstance(o, V.Opaque):
            if ctx.opaque_ok:
                return V.Opaque(o.what + "." + name)
        if o is None:
            raise self.raise_ext("AttributeError")
        raise EngineLimit("attribute %s of %r" % (name, o))

    def raise_ext(self, name: str, why: str = ""):
        from .symexec import PyRaise
        import traceback

        e = ExcVal(V.ExtClass(name))
        fr = traceback.extract_stack(limit=3)[0]
        e.fields["__origin__"] = why or ("library model %s:%d (%s)" % (fr.filename.split("/")[-1], fr.lineno, fr.name))
        return PyRaise(e)

    def exc_attr(self, ctx, exc: ExcVal, name: str):
        if name in exc.fields:
            return exc.fields[name]
        if name in ("set_error_location_if_unknown",):
            m = exc.cls.lookup(name) if hasattr(exc.cls, "lookup") else None
            if m is not None:
                return V.Builtin("exc." + name, bound=exc)
        if name == "text":
            return V.Opaque("exc.text")
        raise EngineLimit("exception attribute %s" % name)

    def ext_super_call(self, ctx, selfv, method, args, kwargs, ext_bases):
        if method == "__init__":
            return None
        raise EngineLimit("super().%s into external base" % method)

    def instantiate_special(self, ctx, cls, args, kwargs):
        return NotImplemented

    # ------------------------------------------------------------------ isinstance for builtin types
    def isinstance_ext(self, ctx, v, name: str):
        name = name.split(".")[-1]
        from . import dynmodel as _dm

        if isinstance(v, _dm.DynV):
            return _dm.isinstance_dyn(v, name)
        if isinstance(v, OptV):
            from .symexec import speclib_and

            return speclib_and(self.e.b_not(v.is_none), self.isinstance_ext(ctx, v.val, name))
        if name == "object":
            return True
        if name == "int":
            if isinstance(v, (int, bool)):
                return True
            return isinstance(v, z3.ExprRef) and (z3.is_int(v) or z3.is_bool(v))
        if name == "bool":
            if isinstance(v, bool):
                return True
            return isinstance(v, z3.ExprRef) and z3.is_bool(v)
        if name == "str":
            return isinstance(v, str) or (isinstance(v, z3.ExprRef) and z3.is_string(v))
        if name == "float":
            return isinstance(v, V.FloatV)
        if name in ("set", "frozenset", "Set", "FrozenSet"):
            return isinstance(v, (SymSet, PySet))
        if name in ("list", "List"):
            return isinstance(v, (PyList, SymSeq))
        if name == "tuple":
            return isinstance(v, (tuple, RecV))
        if name == "dict":
            return isinstance(v, (PyDict, SymMap))
        if name == "Fraction":
            return isinstance(v, V.FractionV)
        if name in ("Path", "PurePath"):
            return isinstance(v, V.PathV) or (isinstance(v, V.Opaque) and v.what.startswith("path"))
        if name in ("bytes", "bytearray", "memoryview"):
            if isinstance(v, V.BytesV):
                return name == ("bytearray" if v.mutable else "bytes")
            return False
        raise EngineLimit("isinstance against external class %s" % name)

    # ------------------------------------------------------------------ arithmetic
    def binop(self, ctx, op, a, b):
        e = self.e
        if isinstance(op, ast.Mod) and (isinstance(a, str) or (isinstance(a, z3.ExprRef) and z3.is_string(a))):
            return V.Opaque("formatted string")
        # Optional operands: None does not support arithmetic (TypeError); otherwise the value is used
        if isinstance(a, OptV) or isinstance(b, OptV):
            def narrow(x):
                if not isinstance(x, OptV):
                    return x
                if ctx.decide(x.is_none if not isinstance(x.is_none, bool) else x.is_none):
                    raise self.raise_ext("TypeError", "arithmetic on None")
                return x.val

            return self.binop(ctx, op, narrow(a), narrow(b))
        # operator dispatch to repository classes
        if isinstance(a, Obj) or isinstance(b, Obj):
            return self.obj_binop(ctx, op, a, b)
        if isinstance(a, V.Opaque) or isinstance(b, V.Opaque):
            if ctx.opaque_ok:
                return V.Opaque("binop")
            if isinstance(op, ast.Add) and all(
                    (isinstance(x, V.Opaque) and x.what.startswith("formatted")) or isinstance(x, str)
                    or (isinstance(x, z3.ExprRef) and z3.is_string(x)) for x in (a, b)):
                return V.Opaque("formatted string")  # concatenation of message texts: a string nobody inspects
            raise EngineLimit("arithmetic on opaque value")
        if isinstance(a, str) and isinstance(op, ast.Mod):
            return V.Opaque("formatted string")
        if isinstance(a, z3.ExprRef) and z3.is_string(a) and isinstance(op, ast.Mod):
            return V.Opaque("formatted string")
        if isinstance(a, V.BytesV) or isinstance(b, V.BytesV):
            from . import bytesmodel

            return bytesmodel.bytes_binop(self, ctx, op, a, b)
        if isinstance(a, (PyList,)) and isinstance(b, (PyList,)) and isinstance(op, ast.Add):
            return PyList(a.items + b.items)
        if isinstance(a, tuple) and isinstance(b, tuple) and isinstance(op, ast.Add):
            return a + b
        if isinstance(a, PyList) and isinstance(b, int) and isinstance(op, ast.Mult):
            return PyList(a.items * b)
        if isinstance(op, ast.Add) and (isinstance(a, SymSeq) or isinstance(b, SymSeq)):
            return self.seq_concat(ctx, a, b)
        if isinstance(a, (SymSet, PySet)) and isinstance(b, (SymSet, PySet)):
            return self.set_binop(ctx, op, a, b)
        if isinstance(a, V.FloatV) or isinstance(b, V.FloatV):
            if isinstance(a, V.FloatV) and isinstance(b, V.FloatV):
                return V.FloatV(self.py_arith(op, a.value, b.value))
            raise EngineLimit("float arithmetic")
        if isinstance(a, V.FractionV) or isinstance(b, V.FractionV):
            return self.frac_binop(ctx, op, a, b)
        if isinstance(a, (int, bool)) and isinstance(b, (int, bool)):
            if isinstance(op, ast.Pow) and (abs(int(b)) > 4096 or abs(int(a)) > 2 ** 64):
                raise EngineLimit("huge concrete power")
            if isinstance(op, (ast.FloorDiv, ast.Mod, ast.Div)) and int(b) == 0:
                raise self.raise_ext("ZeroDivisionError")
            if isinstance(op, ast.Div):
                raise EngineLimit("true division of ints (float result)")
            return self.py_arith(op, int(a), int(b))
        if isinstance(a, str) and isinstance(b, str) and isinstance(op, ast.Add):
            return a + b
        ta, tb = e.coerce_pair(a, b)
        if ta is None:
            raise EngineLimit("binary operator %s on %r, %r" % (type(op).__name__, a, b))
        if z3.is_string(ta):
            if isinstance(op, ast.Add):
                return z3.Concat(ta, tb)
            if isinstance(op, ast.Div):
                # pathlib.Path values are represented by strings that are only passed around and compared
                ASSUMED.setdefault("pathlib./", "Path / x is some path, a function of both operands (never raises)")
                return self.e.uf("path!join", z3.StringSort(), z3.StringSort(), z3.StringSort())(ta, tb)
            raise EngineLimit("string operator")
        ta, tb = e.to_num(ta), e.to_num(tb)
        if isinstance(op, ast.Add):
            return ta + tb
        if isinstance(op, ast.Sub):
            r = ta - tb
            if isinstance(b, int) and not isinstance(b, bool) and b == 1 and getattr(ctx, "bitinfo", None):
                from . import bytesmodel

                bytesmodel.note_mask(ctx, ta, r)
            return r
        if isinstance(op, ast.Mult):
            return ta * tb
        if isinstance(op, (ast.FloorDiv, ast.Mod)):
            return self.floordivmod(ctx, op, ta, tb)
        if isinstance(op, ast.Pow):
            return self.power(ctx, a, b)
        if isinstance(op, (ast.LShift, ast.RShift, ast.BitOr)) or (isinstance(op, ast.BitAnd) and not any(
                isinstance(y, int) and not isinstance(y, bool) and y >= 0 and (y & (y + 1)) == 0 for y in (a, b))):
            from . import bytesmodel

            return bytesmodel.int_bitop(self, ctx, op, a, b, ta, tb)
        if isinstance(op, ast.BitAnd):
            for x, y in ((a, b), (b, a)):
                if isinstance(y, int) and y >= 0 and (y & (y + 1)) == 0:
                    return self.floordivmod(ctx, ast.Mod(), e.to_num(x), z3.IntVal(y + 1))
            raise EngineLimit("bitwise and with a non-mask operand")
        raise EngineLimit("binary operator %s" % type(op).__name__)

    @staticmethod
    def py_arith(op, a, b):
        import operator as o

        table = {ast.Add: o.add, ast.Sub: o.sub, ast.Mult: o.mul, ast.FloorDiv: o.floordiv, ast.Mod: o.mod,
                 ast.Pow: o.pow, ast.LShift: o.lshift, ast.RShift: o.rshift, ast.BitAnd: o.and_, ast.BitOr: o.or_,
                 ast.BitXor: o.xor, ast.Div: o.truediv}
        return table[type(op)](a, b)

    def floordivmod(self, ctx, op, ta, tb):
        """Python floor semantics; raises ZeroDivisionError iff the divisor is 0."""
        if z3.is_real(ta) or z3.is_real(tb):
            raise EngineLimit("// or % on reals")
        tbs = z3.simplify(tb)
        if z3.is_int_value(tbs):
            d = tbs.as_long()
            if d == 0:
                raise self.raise_ext("ZeroDivisionError")
            if d > 0:
                return (ta / tbs) if isinstance(op, ast.FloorDiv) else (ta % tbs)
        if ctx.decide(tb == 0):
            raise self.raise_ext("ZeroDivisionError")
        if isinstance(op, ast.Mod) and not self.e.feasible(ctx, tb < 0):
            from . import settheory

            ctx.assume(tb > 0)
            return settheory.pmod(ta, tb)
        if self.e.feasible(ctx, tb < 0):
            # z3 div/mod are Euclidean; convert to floor semantics for a negative divisor
            q = z3.If(tb > 0, ta / tb, (-ta) / (-tb))
            if isinstance(op, ast.FloorDiv):
                return q
            return ta - tb * q
        ctx.assume(tb > 0)
        return (ta / tb) if isinstance(op, ast.FloorDiv) else (ta % tb)

    def pow2_of(self, ctx, n):
        if isinstance(n, int):
            if n < 0:
                raise self.raise_ext("ValueError")
            return 2 ** n
        return self.pow2(n)

    def power(self, ctx, a, b):
        if isinstance(a, int) and a == 2:
            return self.pow2_of(ctx, b)
        if isinstance(b, int) and 0 <= b <= 8:
            r = z3.IntVal(1)
            for _ in range(b):
                r = r * self.e.to_num(a)
            return r
        raise EngineLimit("symbolic power")

    def frac_binop(self, ctx, op, a, b):
        def t(x):
            if isinstance(x, V.FractionV):
                return x.term
            return V.Real.unwrap(x)

        ta, tb = t(a), t(b)
        if isinstance(op, ast.Add):
            return V.FractionV(ta + tb)
        if isinstance(op, ast.Sub):
            return V.FractionV(ta - tb)
        if isinstance(op, ast.Mult):
            return V.FractionV(ta * tb)
        if isinstance(op, ast.Div):
            if ctx.decide(tb == 0):
                raise self.raise_ext("ZeroDivisionError")
            return V.FractionV(ta / tb)
        if isinstance(op, ast.Pow):
            if isinstance(b, V.FractionV):
                tbs = z3.simplify(tb)
                if z3.is_rational_value(tbs) and tbs.denominator_as_long() == 1:
                    n = tbs.numerator_as_long()
                    tas = z3.simplify(ta)
                    if z3.is_rational_value(tas) and abs(n) <= 4096:
                        import fractions

                        r = fractions.Fraction(tas.numerator_as_long(), tas.denominator_as_long()) ** n
                        return V.FractionV(z3.RealVal(str(r.numerator)) / z3.RealVal(str(r.denominator)))
            raise EngineLimit("symbolic rational power")
        raise EngineLimit("Fraction operator %s" % type(op).__name__)

    def obj_binop(self, ctx, op, a, b):
        names = {ast.Add: ("__add__", "__radd__"), ast.BitOr: ("__or__", "__ror__"), ast.Mod: ("__mod__", "__rmod__"),
                 ast.Sub: ("__sub__", "__rsub__"), ast.Mult: ("__mul__", "__rmul__")}
        if type(op) not in names:
            raise EngineLimit("operator %s on objects" % type(op).__name__)
        fwd, rev = names[type(op)]
        if isinstance(a, Obj):
            m = a.cls.lookup(fwd)
            if m is not None:
                return self.e.call_function(ctx, m, [a, b], {}, dynamic=True)
        if isinstance(b, Obj):
            m = b.cls.lookup(rev)
            if m is not None:
                return self.e.call_function(ctx, m, [b, a], {}, dynamic=True)
        raise self.raise_ext("TypeError")

    def set_binop(self, ctx, op, a, b):
        sa, sb = self.e.to_symset(ctx, a), self.e.to_symset(ctx, b)
        x = z3.FreshConst(sa.elem_sort, "x")
        if isinstance(op, ast.BitOr):
            return SymSet(z3.Lambda([x], z3.Or(z3.Select(sa.term, x), z3.Select(sb.term, x))), fresh=True)
        if isinstance(op, ast.BitAnd):
            return SymSet(z3.Lambda([x], z3.And(z3.Select(sa.term, x), z3.Select(sb.term, x))), fresh=True)
        if isinstance(op, ast.Sub):
            return SymSet(z3.Lambda([x], z3.And(z3.Select(sa.term, x), z3.Not(z3.Select(sb.term, x)))), fresh=True)
        raise EngineLimit("set operator")

    def seq_concat(self, ctx, a, b):
        other = a if isinstance(a, SymSeq) else b  # the symbolic operand (gives the element kind of a literal operand)

        def as_seq(v):
            if isinstance(v, SymSeq):
                return v
            if isinstance(v, PyList):
                from .loops import kind_of_value

                kind = other.kind
                arr = z3.K(z3.IntSort(), kind.unwrap(v.items[0])) if v.items else other.arr
                for k_, it in enumerate(v.items):
                    arr = z3.Store(arr, k_, kind.unwrap(it))
                return SymSeq(arr, z3.IntVal(len(v.items)), kind, fresh=True)
            raise EngineLimit("concatenation of a symbolic list with %r" % (v,))

        if isinstance(a, SymSeq) and isinstance(b, PyList) and a.kind is V.Str:
            # xs + [y, ...] for a list of strings: the appended elements are stored behind the last one (same sequence as
            # the general form below, but a term the solvers handle without beta-reduction)
            arr = a.arr
            for k_, it in enumerate(b.items):
                arr = z3.Store(arr, a.length + k_, V.Str.unwrap(it))
            return SymSeq(arr, a.length + len(b.items), a.kind, fresh=True)
        a, b = as_seq(a), as_seq(b)
        i = z3.FreshConst(z3.IntSort(), "i")
        arr = z3.Lambda([i], z3.If(i < a.length, z3.Select(a.arr, i), z3.Select(b.arr, i - a.length)))
        kind = a.kind
        if isinstance(a.kind, V.ObjOf) and isinstance(b.kind, V.ObjOf) and a.kind.clsname != b.kind.clsname:
            # lists of objects of different classes: the elements of the result are of the nearest common base class
            ca, cb = self.e.repo.cls(a.kind.clsname), self.e.repo.cls(b.kind.clsname)
            common = [c for c in ca.mro() if c in cb.mro()]
            if not common:
                raise EngineLimit("concatenation of lists of unrelated classes")
            kind = V.ObjOf(common[0].qualname)
        return SymSeq(arr, a.length + b.length, kind, fresh=True)

    # ------------------------------------------------------------------ comparisons
    def order(self, ctx, op, a, b):
        if isinstance(a, OptV) or isinstance(b, OptV):
            # None is not orderable (TypeError); a present value compares as itself
            vals = []
            for x in (a, b):
                if isinstance(x, OptV):
                    if ctx.decide(lift(self.e, ctx, x.is_none)):
                        raise self.raise_ext("TypeError")
                    x = x.val
                vals.append(x)
            a, b = vals
        if isinstance(a, V.Opaque) or isinstance(b, V.Opaque):
            raise EngineLimit("ordering comparison with an unmodelled value")
        if isinstance(a, V.FractionV) or isinstance(b, V.FractionV):
            def _fl(v):
                if isinstance(v, V.FloatV):
                    import fractions

                    fr = fractions.Fraction(v.value)
                    return z3.RealVal(str(fr.numerator)) / z3.RealVal(str(fr.denominator))
                return v.term if isinstance(v, V.FractionV) else V.Real.unwrap(v)

            ta, tb = _fl(a), _fl(b)
        elif isinstance(a, (int, bool)) and isinstance(b, (int, bool)):
            ta, tb = int(a), int(b)
        elif isinstance(a, V.FloatV) and isinstance(b, V.FloatV):
            ta, tb = a.value, b.value
        elif isinstance(a, str) and isinstance(b, str):
            ta, tb = a, b
        else:
            ta, tb = self.e.coerce_pair(a, b)
            if ta is None:
                raise EngineLimit("ordering of %r and %r" % (a, b))
            if z3.is_string(ta):
                if isinstance(op, ast.Lt):
                    return ta < tb
                if isinstance(op, ast.LtE):
                    return ta <= tb
                if isinstance(op, ast.Gt):
                    return tb < ta
                return tb <= ta
            ta, tb = self.e.to_num(ta), self.e.to_num(tb)
        if isinstance(op, ast.Lt):
            return ta < tb
        if isinstance(op, ast.LtE):
            return ta <= tb
        if isinstance(op, ast.Gt):
            return ta > tb
        if isinstance(op, ast.GtE):
            return ta >= tb
        raise EngineLimit("comparison operator")

    def contains(self, ctx, container, item):
        from .symexec import speclib_or

        if type(container).__name__ == "DynV":
            from . import dynmodel as _dm

            return _dm.contains(self, ctx, container, item)
        if isinstance(container, PyDict) and getattr(container, "opaque", False):
            raise EngineLimit("read of a dict whose contents are not tracked (symbolic keys)")

        if isinstance(container, SymSet):
            return z3.Select(container.term, container_elem(container, item))
        if isinstance(container, (PySet, PyList, tuple)):
            items = container.items if not isinstance(container, tuple) else list(container)
            return speclib_or(*[lift(self.e, ctx, self.e.py_eq(ctx, item, x)) for x in items])
        if isinstance(container, PyDict):
            return speclib_or(*[lift(self.e, ctx, self.e.py_eq(ctx, item, k)) for k in container.items.keys()])
        if isinstance(container, SymMap):
            return z3.Select(container.has, container.kkind.unwrap(item))
        if isinstance(container, str):
            if isinstance(item, str):
                return item in container
            from . import strmodel as _sm

            if _sm.ENABLED:
                r = _sm.char_in_concrete(self.e, ctx, container, item)
                if r is not None:
                    return r
            return z3.Contains(z3.StringVal(container), item)
        if isinstance(container, z3.ExprRef) and z3.is_string(container):
            return z3.Contains(container, V.Str.unwrap(item))
        if isinstance(container, SymSeq):
            i = z3.FreshConst(z3.IntSort(), "i")
            return z3.Exists([i], z3.And(0 <= i, i < container.length,
                                         z3.Select(container.arr, i) == container.kind.unwrap(item)))
        raise EngineLimit("`in` on %r" % (container,))

    # ------------------------------------------------------------------ subscripts
    def getitem(self, ctx, o, k):
        if type(o).__name__ == "DynV":
            from . import dynmodel as _dm

            return _dm.getitem(self, ctx, o, k)
        if isinstance(o, PyDict) and getattr(o, "opaque", False):
            raise EngineLimit("read of a dict whose contents are not tracked (symbolic keys)")
        if isinstance(o, V.BytesV):
            from . import bytesmodel

            return bytesmodel.bytes_getitem(self, ctx, o, k)
        if isinstance(o, V.GroupDict):
            return V.GroupSlot(o, k)
        if isinstance(o, PyList) or isinstance(o, tuple):
            items = o.items if isinstance(o, PyList) else list(o)
            if isinstance(k, bool):
                k = int(k)
            if isinstance(k, int):
                try:
                    return items[k]
                except IndexError:
                    raise self.raise_ext("IndexError")
            raise EngineLimit("symbolic index into a concrete list")
        if isinstance(o, RecV):
            vals = list(o.comps.values())
            if isinstance(k, int):
                return vals[k]
        if isinstance(o, SymSeq):
            kt = V.Int.unwrap(k)
            idx = z3.If(kt < 0, kt + o.length, kt)
            if isinstance(k, int) and not isinstance(k, bool):
                idx = (o.length + k) if k < 0 else z3.IntVal(k)  # the same index without an if-then-else term
            if ctx.decide(z3.Or(idx < 0, idx >= o.length)):
                raise self.raise_ext("IndexError")
            return o.at(ctx, idx)
        if isinstance(o, PyDict):
            hk = self.e.hashable(k) if not isinstance(k, z3.ExprRef) else None
            if hk is not None:
                if hk in o.items:
                    return o.items[hk]
                raise self.raise_ext("KeyError")
            # symbolic key against concrete keys
            for ck, cv in o.items.items():
                if ctx.decide(lift(self.e, ctx, self.e.py_eq(ctx, k, ck))):
                    return cv
            raise self.raise_ext("KeyError")
        if isinstance(o, SymMap):
            kt = o.kkind.unwrap(k)
            if ctx.decide(z3.Select(o.has, kt)):
                return o.vkind.wrap(ctx, z3.Select(o.val, kt))
            raise self.raise_ext("KeyError")
        if isinstance(o, Obj):
            m = o.cls.lookup("__getitem__")
            if m is not None:
                return self.e.call_function(ctx, m, [o, k], {}, dynamic=True)
        if isinstance(o, str) and isinstance(k, int):
            try:
                return o[k]
            except IndexError:
                raise self.raise_ext("IndexError")
        if isinstance(o, z3.ExprRef) and z3.is_string(o):
            from . import strmodel as _sm

            if _sm.ENABLED:
                r = _sm.first_char(self.e, ctx, o, k)
                if r is not None:
                    return r
            kt = V.Int.unwrap(k)
            n = z3.Length(o)
            idx = z3.If(kt < 0, kt + n, kt)
            if ctx.decide(z3.Or(idx < 0, idx >= n)):
                raise self.raise_ext("IndexError")
            return z3.SubString(o, idx, 1)
        if isinstance(o, V.Builtin) and (o.name.startswith("typing.") or (o.bound is None and o.name in TYPE_NAMES)):
            return o  # a type expression such as list[int]
        raise EngineLimit("subscript of %r" % (o,))

    def getslice(self, ctx, o, lo, hi):
        if isinstance(o, V.BytesV):
            from . import bytesmodel

            return bytesmodel.bytes_getslice(self, ctx, o, lo, hi)
        if isinstance(o, (PyList, tuple)):
            items = o.items if isinstance(o, PyList) else list(o)
            if (lo is None or isinstance(lo, int)) and (hi is None or isinstance(hi, int)):
                r = items[lo:hi]
                return PyList(r) if isinstance(o, PyList) else tuple(r)
            raise EngineLimit("symbolic slice of a concrete list")
        if isinstance(o, SymSeq):
            if lo is None and hi is None:
                return SymSeq(o.arr, o.length, o.kind, fresh=True)  # x[:] - a fresh copy with the same elements
            lo_t = z3.IntVal(0) if lo is None else V.Int.unwrap(lo)
            hi_t = o.length if hi is None else V.Int.unwrap(hi)
            lo_n = z3.If(lo_t < 0, z3.If(lo_t + o.length < 0, 0, lo_t + o.length), z3.If(lo_t > o.length, o.length, lo_t))
            hi_n = z3.If(hi_t < 0, z3.If(hi_t + o.length < 0, 0, hi_t + o.length), z3.If(hi_t > o.length, o.length, hi_t))
            i = z3.FreshConst(z3.IntSort(), "i")
            arr = z3.Lambda([i], z3.Select(o.arr, i + lo_n))
            ln = z3.If(hi_n > lo_n, hi_n - lo_n, 0)
            return SymSeq(arr, ln, o.kind, fresh=True)
        if isinstance(o, str):
            return o[lo:hi]
        if isinstance(o, z3.ExprRef) and z3.is_string(o) and hi is None and isinstance(lo, int) and lo >= 0:
            # s[k:] for a constant k >= 0: the suffix after the first k characters (empty if shorter)
            return z3.SubString(o, z3.IntVal(lo), z3.Length(o))
        raise EngineLimit("slice of %r" % (o,))

    def setitem(self, ctx, o, k, v):
        if isinstance(o, V.BytesV):
            from . import bytesmodel

            return bytesmodel.bytes_setitem(self, ctx, o, k, v)
        if isinstance(o, PyDict):
            try:
                o.items[self.e.hashable(k)] = v
            except EngineLimit:
                o.opaque = True  # symbolic key: the contents of this dict are no longer tracked
            return
        if isinstance(o, V.Opaque) and o.what.startswith("container built in a loop"):
            return
        if isinstance(o, SymMap):
            kt = o.kkind.unwrap(k)
            o.has = z3.Store(o.has, kt, z3.BoolVal(True))
            o.val = z3.Store(o.val, kt, o.vkind.unwrap(v))
            return
        if isinstance(o, PyList) and isinstance(k, int):
            o.items[k] = v
            return
        raise EngineLimit("subscript store on %r" % (o,))

    # ------------------------------------------------------------------ builtin calls
    def call_ext_class(self, ctx, cls, args, kwargs):
        from .symexec import EXT_EXC_BASES

        if cls.name in EXT_EXC_BASES:
            return ExcVal(cls, args, kwargs)
        raise EngineLimit("instantiation of external class %s" % cls.name)

    def call_builtin(self, ctx, b: V.Builtin, args, kwargs):
        name = b.name
        if name.startswith("method."):
            return self.call_method(ctx, b.bound, name[len("method."):], args, kwargs)
        if name.startswith("exc."):
            return self.call_exc_method(ctx, b.bound, name[len("exc."):], args, kwargs)
        self._lib_pre(ctx, name, args, kwargs)
        fn = getattr(self, "bi_" + name.replace(".", "_"), None)
        if fn is None:
            from . import bytesmodel

            fn2 = getattr(bytesmodel, "bi_" + name.replace(".", "_"), None)
            if fn2 is None:
                from . import dynmodel

                fn2 = getattr(dynmodel, "bi_" + name.replace(".", "_"), None)
            if fn2 is not None:
                return fn2(self, ctx, *args, **kwargs)
        if fn is None:
            if name.startswith("typing."):
                return V.Opaque(name)
            raise EngineLimit("call of external function %s" % name)
        return fn(ctx, *args, **kwargs)

    def _lib_pre(self, ctx, name, args, kwargs):
        """Assert-style obligations on the arguments of a library call made by the function under verification:
           the contract declares `lib_pre = {"<library function>": fn(s, args) -> dict label -> clause}`; each clause is
           obligated under the path condition at the call (inside a set-building loop: for an arbitrary iteration)."""
        c = getattr(ctx, "top_contract", None)
        if c is None or ctx.spec_mode or ctx.inline_depth:
            return
        table = getattr(c, "lib_pre", None) or getattr(c.impl, "lib_pre", None)
        if not table or name not in table:
            return
        from .symexec import short, lift_bool

        r = self.e.run_spec(ctx, table[name], ctx.top_ns, list(args))
        for label, clause in (r or {}).items():
            ctx.oblige("%s/lib-pre#%s#%s" % (short(ctx.func), name.split(".")[-1], label), lift_bool(clause), kind="assert")

    def call_exc_method(self, ctx, exc, name, args, kwargs):
        if name == "set_error_location_if_unknown":
            # pydsdl.Error.set_error_location_if_unknown only fills the exception's own path / line attributes
            # (location bookkeeping of error objects is not modelled: no contract here mentions it)
            return None
        raise EngineLimit("exception method %s" % name)

    # -- simple ones
    def utf8_len(self, ctx, s):
        n = self.e.uf("utf8len", z3.StringSort(), z3.IntSort())(s)
        first = z3.StrToCode(z3.SubString(s, 0, 1))
        ctx.assume(z3.And(n >= z3.Length(s), n <= 4 * z3.Length(s),
                          (n == 1) == z3.And(z3.Length(s) == 1, first < 128)))
        return n

    def bi_len(self, ctx, x):
        if isinstance(x, PyDict) and getattr(x, "opaque", False):
            raise EngineLimit("read of a dict whose contents are not tracked (symbolic keys)")
        if isinstance(x, V.BytesV):
            return x.length
        if type(x).__name__ == "DynV":
            from . import dynmodel as _dm

            return _dm.length(self, ctx, x)
        if isinstance(x, V.BytesOf):
            return self.utf8_len(ctx, x.s)
        if isinstance(x, PyList):
            return len(x.items)
        if isinstance(x, (tuple, str)):
            return len(x)
        if isinstance(x, PySet):
            return len(x.items)
        if isinstance(x, PyDict):
            return len(x.items)
        if isinstance(x, SymSeq):
            return x.length
        if isinstance(x, RecV):
            return len(x.comps)
        if isinstance(x, z3.ExprRef) and z3.is_string(x):
            return z3.Length(x)
        if isinstance(x, Obj):
            m = x.cls.lookup("__len__")
            if m is not None:
                return self.e.call_function(ctx, m, [x], {}, dynamic=True)
        if isinstance(x, SymSet):
            return self.set_card(ctx, x)
        raise EngineLimit("len of %r" % (x,))

    def set_card(self, ctx, s: SymSet):
        card = self.e.uf("card", V.IntSetSort, z3.IntSort())
        c = card(s.term)
        ctx.assume(c >= 0)
        # ASSUMED: len() of a set that has an element is at least 1
        ASSUMED.setdefault("len(set)", "len(s) >= 0, and len(s) >= 1 for a set that has an element")
        x = z3.FreshConst(s.elem_sort, "x")
        try:
            ctx.assume(z3.ForAll([x], z3.Implies(z3.Select(s.term, x), c >= 1), patterns=[z3.Select(s.term, x)]))
        except z3.Z3Exception:
            ctx.assume(z3.ForAll([x], z3.Implies(z3.Select(s.term, x), c >= 1)))
        return c

    def bi_isinstance(self, ctx, v, cls):
        from .symexec import speclib_or

        classes = list(cls) if isinstance(cls, tuple) else [cls]
        return speclib_or(*[lift(self.e, ctx, self.e.isinstance_of(ctx, v, c)) for c in classes])

    def bi_issubclass(self, ctx, c, base):
        if isinstance(c, V.ClassVal) and isinstance(base, V.ClassVal):
            return c.cls.is_subclass_of(base.cls)
        raise EngineLimit("issubclass")

    def bi_callable(self, ctx, v):
        return isinstance(v, (V.Closure, V.BoundMethod, V.Builtin, V.ClassVal, V.Partial, V.Recorder, V.SymClosure))

    def bi_int(self, ctx, x=0, base=None):
        if isinstance(x, bool):
            return int(x)
        if isinstance(x, int):
            return x
        if isinstance(x, z3.ExprRef):
            if z3.is_int(x):
                return x
            if z3.is_bool(x):
                return z3.If(x, 1, 0)
        if isinstance(x, V.FractionV):
            # int(Fraction) truncates toward zero
            t = x.term
            return z3.If(t >= 0, z3.ToInt(t), -z3.ToInt(-t))
        if isinstance(x, OptV):
            # int(None) raises TypeError
            if ctx.decide(lift(self.e, ctx, x.is_none)):
                raise self.raise_ext("TypeError")
            return self.bi_int(ctx, x.val, base)
        if isinstance(x, z3.ExprRef) and z3.is_string(x) and base is None:
            from . import strmodel as _sm

            if _sm.ENABLED:
                ok, val = _sm.py_int_of_str(self.e, ctx, x)
                if ctx.decide(z3.Not(ok)):
                    raise self.raise_ext("ValueError", "int() of a string that is not an integer literal")
                return val
        if isinstance(x, str):
            try:
                return int(x) if base is None else int(x, base)
            except ValueError:
                raise self.raise_ext("ValueError")
        raise EngineLimit("int(%r)" % (x,))

    def bi_bool(self, ctx, x=False):
        return self.e.truth(ctx, x)

    def bi_str(self, ctx, x=""):
        if isinstance(x, OptV) and not isinstance(x.is_none, bool) and not self.e.feasible(ctx, x.is_none):
            x = x.val  # the path condition excludes None
        if isinstance(x, str):
            return x
        if isinstance(x, z3.ExprRef) and z3.is_string(x):
            return x
        if isinstance(x, Obj):
            m = x.cls.lookup("__str__")
            if m is not None and not m.is_abstract:
                c = self.e.find_contract(m, x)
                if c is not None:
                    return self.e.call_function(ctx, m, [x], {}, dynamic=True)
            f = self.e.uf("str!of", V.RefSort, z3.StringSort())
            return f(x.ref)
        if isinstance(x, int) and not isinstance(x, bool):
            return str(x)
        if isinstance(x, z3.ExprRef) and z3.is_int(x):
            return z3.IntToStr(x)
        return V.Opaque("str()")

    def bi_repr(self, ctx, x):
        return V.Opaque("repr()")

    def bi_float(self, ctx, x=0.0):
        if isinstance(x, str):
            return V.FloatV(float(x))
        raise EngineLimit("float()")

    def bi_abs(self, ctx, x):
        if isinstance(x, int):
            return abs(x)
        return z3.If(x >= 0, x, -x)

    def bi_type(self, ctx, x):
        if isinstance(x, Obj):
            if x.exact:
                return V.ClassVal(x.cls)
            return V.ClassTagV(self.e.tag_fn(x.ref))
        if isinstance(x, ExcVal):
            return V.ClassVal(x.cls) if not isinstance(x.cls, V.ExtClass) else x.cls
        if x is None:
            return V.ExtClass("NoneType")
        if isinstance(x, bool) or (isinstance(x, z3.ExprRef) and z3.is_bool(x)):
            return V.ExtClass("bool")
        if isinstance(x, int) or (isinstance(x, z3.ExprRef) and z3.is_int(x)):
            return V.ExtClass("int")
        if isinstance(x, str) or (isinstance(x, z3.ExprRef) and z3.is_string(x)):
            return V.ExtClass("str")
        raise EngineLimit("type(%r)" % (x,))

    def bi_hasattr(self, ctx, o, name):
        if isinstance(o, Obj) and isinstance(name, str):
            if o.cls.lookup(name) is not None or o.cls.lookup_attr(name) is not None:
                return True
            k, _ = self.e.field_kind(o.cls, name)
            if k is not None:
                return True
        if isinstance(o, V.ClassVal) and isinstance(name, str):
            return o.cls.lookup(name) is not None or o.cls.lookup_attr(name) is not None
        raise EngineLimit("hasattr")

    def bi_getattr(self, ctx, o, name, *default):
        if not isinstance(name, str):
            raise EngineLimit("getattr with a non-constant name")
        if default and isinstance(o, Obj):
            # getattr(obj, name, default): the class index decides whether the attribute exists
            k, _ = self.e.field_kind(o.cls, name)
            exists = (o.cls.lookup(name) is not None or o.cls.lookup_attr(name) is not None or k is not None
                      or (o.fields is not None and name in o.fields))
            if not exists:
                return default[0]
        return self.e.getattr(ctx, o, name)

    def bi_print(self, ctx, *a, **k):
        return None

    def bi_id(self, ctx, x):
        return V.Opaque("id")

    def bi_hash(self, ctx, x):
        if isinstance(x, Obj):
            m = x.cls.lookup("__hash__")
            if m is not None:
                return self.e.call_function(ctx, m, [x], {}, dynamic=True)
        return self.hash_of(ctx, x)

    def hash_of(self, ctx, x):
        """hash() of builtin values: an uninterpreted function of the value (equal values => equal hashes)."""
        if hasattr(x, "term") and type(x).__name__ == "_RawHash":
            return x.term  # spec side: a tuple component whose hash is given directly
        if isinstance(x, tuple):
            h = self.e.uf("hash!tuple%d" % len(x), *([z3.IntSort()] * len(x)), z3.IntSort())
            return h(*[V.Int.unwrap(self.bi_hash(ctx, c)) for c in x])
        if isinstance(x, RecV):
            return self.hash_of(ctx, tuple(x.comps.values()))
        if isinstance(x, (int, bool)):
            return self.e.uf("hash!int", z3.IntSort(), z3.IntSort())(z3.IntVal(int(x)))
        if isinstance(x, str):
            return self.e.uf("hash!str", z3.StringSort(), z3.IntSort())(z3.StringVal(x))
        if isinstance(x, z3.ExprRef):
            if z3.is_int(x):
                return self.e.uf("hash!int", z3.IntSort(), z3.IntSort())(x)
            if z3.is_bool(x):
                return self.e.uf("hash!int", z3.IntSort(), z3.IntSort())(z3.If(x, 1, 0))
            if z3.is_string(x):
                return self.e.uf("hash!str", z3.StringSort(), z3.IntSort())(x)
            if z3.is_real(x):
                return self.e.uf("hash!real", z3.RealSort(), z3.IntSort())(x)
            if x.sort() == V.PyValSort:
                return self.e.uf("hash!val", V.PyValSort, z3.IntSort())(x)
        if isinstance(x, V.FractionV):
            return self.e.uf("hash!real", z3.RealSort(), z3.IntSort())(x.term)
        if isinstance(x, SymSet):
            return self.e.uf("hash!set", x.term.sort(), z3.IntSort())(x.term)
        if isinstance(x, OptV):
            inner = self.hash_of(ctx, x.val) if not isinstance(x.val, Obj) else self.bi_hash(ctx, x.val)
            return z3.If(x.is_none, self.e.uf("hash!none", z3.IntSort())(), V.Int.unwrap(inner))
        if x is None:
            return self.e.uf("hash!none", z3.IntSort())()
        raise EngineLimit("hash(%r)" % (x,))

    def bi_set(self, ctx, it=None):
        if it is None:
            return SymSet(z3.K(z3.IntSort(), z3.BoolVal(False)), fresh=True)
        it = self.e.iter_to_set(ctx, it)
        if isinstance(it, SymSet):
            return SymSet(it.term, it.elem_sort, fresh=True)
        if isinstance(it, PySet):
            return PySet(list(it.items))
        if isinstance(it, (PyList, tuple)):
            items = it.items if isinstance(it, PyList) else list(it)
            if all(isinstance(x, (int, str)) and not isinstance(x, bool) for x in items):
                return PySet(list(dict.fromkeys(items)))
            if all(isinstance(x, int) or (isinstance(x, z3.ExprRef) and z3.is_int(x)) for x in items):
                return self.e.to_symset(ctx, items)
            return V.ValueSet(items)
        if isinstance(it, V.MappedIter):
            from .loops import image_of_mapped

            return image_of_mapped(self.e, ctx, it)
        if isinstance(it, SymSeq) and it.kind is V.Int:
            x = z3.FreshConst(z3.IntSort(), "x")
            i = z3.FreshConst(z3.IntSort(), "i")
            body = z3.Exists([i], z3.And(0 <= i, i < it.length, z3.Select(it.arr, i) == x))
            return SymSet(z3.Lambda([x], body), fresh=True)
        raise EngineLimit("set(%r)" % (it,))

    bi_frozenset = bi_set

    def bi_list(self, ctx, it=None):
        if it is None:
            return PyList([])
        if type(it).__name__ == "DynV":
            from . import dynmodel as _dm

            return _dm.to_list(self, ctx, it)
        if isinstance(it, SymSeq):
            return SymSeq(it.arr, it.length, it.kind, fresh=True)
        if isinstance(it, V.MappedIter):
            from .loops import list_of_mapped

            return list_of_mapped(self.e, ctx, it)
        return PyList(self.e.iter_concrete(ctx, it))

    def bi_tuple(self, ctx, it=()):
        if isinstance(it, SymSeq):
            return it
        return tuple(self.e.iter_concrete(ctx, it))

    def bi_dict(self, ctx, *a, **k):
        if a or k:
            raise EngineLimit("dict(...) with arguments")
        return PyDict()

    def bi_range(self, ctx, a, b=None, step=1):
        if b is None:
            return V.RangeV(0, a, step)
        return V.RangeV(a, b, step)

    def bi_sorted(self, ctx, it, key=None, reverse=False):
        """ASSUMED (CPython list.sort / sorted): the result is a permutation of the input, ordered by the key
           (non-decreasing, lexicographic on tuples) and stable (elements with equal keys keep their input order)."""
        from .loops import symbolic_template, mk_forall

        if isinstance(it, V.MappedIter):
            from .loops import list_of_mapped

            it = list_of_mapped(self.e, ctx, it)
        if not isinstance(it, SymSeq) or key is None or reverse is not False:
            raise EngineLimit("sorted() of %r (only sorted(<symbolic sequence>, key=f) is modelled)" % (it,))
        ASSUMED.setdefault("sorted", "sorted(seq, key=f) returns a permutation of seq that is non-decreasing in f "
                           "(tuples compare lexicographically, str by code points) and stable")
        n = it.length
        out = SymSeq(ctx.fresh("sorted!arr", it.arr.sort()), n, it.kind, fresh=True)
        ctx.counter += 1
        perm = z3.Function("sorted!perm!%d" % ctx.counter, z3.IntSort(), z3.IntSort())
        inv = z3.Function("sorted!inv!%d" % ctx.counter, z3.IntSort(), z3.IntSort())
        j, k, i = z3.Ints("sj sk si")
        sel = z3.Select
        ctx.assume(mk_forall([j], z3.Implies(z3.And(0 <= j, j < n),
                                             z3.And(0 <= perm(j), perm(j) < n, sel(out.arr, j) == sel(it.arr, perm(j)),
                                                    inv(perm(j)) == j)), patterns=[sel(out.arr, j)]))
        ctx.assume(mk_forall([i], z3.Implies(z3.And(0 <= i, i < n),
                                             z3.And(0 <= inv(i), inv(i) < n, perm(inv(i)) == i,
                                                    sel(out.arr, inv(i)) == sel(it.arr, i))), patterns=[sel(it.arr, i)]))
        b, v, gs, src = symbolic_template(self.e, ctx, V.MappedIter(key, out))
        comps = list(v) if isinstance(v, tuple) else [v]
        terms = []
        for c in comps:
            if isinstance(c, str):
                c = z3.StringVal(c)
            elif isinstance(c, (int, bool)):
                c = z3.IntVal(int(c))
            terms.append(c)
        at = lambda t, idx: z3.substitute(t, (b.consts[0], idx))

        def lex_le(a, c):
            if not a:
                return z3.BoolVal(True)
            return z3.Or(a[0] < c[0], z3.And(a[0] == c[0], lex_le(a[1:], c[1:])))

        kj, kk = [at(t, j) for t in terms], [at(t, k) for t in terms]
        same = z3.And(*[x == y for x, y in zip(kj, kk)])
        ctx.assume(mk_forall([j, k], z3.Implies(z3.And(0 <= j, j < k, k < n),
                                                z3.And(lex_le(kj, kk), z3.Implies(same, perm(j) < perm(k)))),
                             patterns=[z3.MultiPattern(sel(out.arr, j), sel(out.arr, k))]))
        return out

    def bi_enumerate(self, ctx, it, start=0):
        if isinstance(it, SymSeq):
            return V.EnumSeq(it, start)
        items = self.e.iter_concrete(ctx, it)
        return PyList([(i + start, x) for i, x in enumerate(items)])

    def bi_zip(self, ctx, *its):
        if len(its) == 2 and isinstance(its[0], V.PairProduct) and isinstance(its[1], V.RepeatV):
            return V.ZipPairsRepeat(its[0], its[1])
        lists = [self.e.iter_concrete(ctx, i) for i in its]
        return PyList([tuple(t) for t in zip(*lists)])

    def bi_reversed(self, ctx, it):
        return PyList(list(reversed(self.e.iter_concrete(ctx, it))))

    def bi_map(self, ctx, fn, it):
        return V.MappedIter(fn, it)

    def bi_filter(self, ctx, fn, it):
        from .loops import filter_iter

        if isinstance(it, V.ZipPairsRepeat):
            return V.LazyFilter(fn, it)

        return filter_iter(self.e, ctx, fn, it)

    def bi_all(self, ctx, it):
        from .loops import quantify_iter

        return quantify_iter(self.e, ctx, it, True)

    def bi_any(self, ctx, it):
        from .loops import quantify_iter

        return quantify_iter(self.e, ctx, it, False)

    def bi_iter(self, ctx, it):
        if isinstance(it, (PyList, tuple, PySet, PyDict)):
            return V.ConcreteIter(self.e.iter_concrete(ctx, it))
        if isinstance(it, SymSet):
            return it
        if isinstance(it, SymSeq):
            return V.SeqIter(it)
        if type(it).__name__ == "DynV":
            from . import dynmodel as _dm

            if ctx.decide(_dm.tag_f(it.term) == _dm.T_DICT):
                return V.SeqIter(_dm.keys_seq(ctx, it))
            raise EngineLimit("iter() of a non-dict dynamic value")
        raise EngineLimit("iter(%r)" % (it,))

    def find_first(self, ctx, lf, default):
        """next(filter(pred, zip(product(A, B), repeat(cell))), default): either no pair satisfies the predicate (the
        predicate is summarised for an arbitrary pair; it must not change `cell` on a path where it rejects) and the default
        is returned, or SOME satisfying pair is returned - which one is the first depends on the iteration order of the
        sets, so an arbitrary satisfying pair over-approximates it - together with the shared `cell` as the predicate left
        it for that pair."""
        from .loops import summarise_block, Binding, mk_forall
        from .symexec import PathEnd

        src = lf.src
        if not (isinstance(src, V.ZipPairsRepeat) and isinstance(src.rep.item, PyList)):
            raise EngineLimit("next(filter(...)) over %r" % (src,))
        A, B = src.prod.a, src.prod.b
        cell = src.rep.item
        if any(not isinstance(x, (int, bool, str)) for x in cell.items):
            raise EngineLimit("find-first with a non-literal shared cell")
        e = self.e
        if ctx.choose(2) == 0:
            a = ctx.fresh("first.a", A.elem_sort)
            b = ctx.fresh("first.b", B.elem_sort)
            ctx.assume(z3.And(z3.Select(A.term, a), z3.Select(B.term, b)))
            elem = ((self.wrap_elem(A, a), self.wrap_elem(B, b)), cell)
            r = e.call(ctx, lf.fn, [elem], {})
            if not ctx.decide(lift(e, ctx, e.truth(ctx, r))):
                raise PathEnd()
            return elem
        ctx.counter += 1
        a = z3.Const("pair.a!%d" % ctx.counter, A.elem_sort)
        b = z3.Const("pair.b!%d" % ctx.counter, B.elem_sort)
        guards = [z3.Select(A.term, a), z3.Select(B.term, b)]
        bind = Binding(None, guards, [a, b], list(guards))
        before = list(cell.items)

        def run():
            copy = PyList(list(before))
            r = e.call(ctx, lf.fn, [((self.wrap_elem(A, a), self.wrap_elem(B, b)), copy)], {})
            if ctx.decide(lift(e, ctx, e.truth(ctx, r))):
                raise PathEnd()  # this pair satisfies the predicate: not a path of "no pair does"
            if copy.items != before:
                raise EngineLimit("the predicate of a find-first changes shared state on a path where it rejects")

        normal = summarise_block(e, ctx, bind, run, lambda: None)
        va, vb = z3.FreshConst(A.elem_sort, "a"), z3.FreshConst(B.elem_sort, "b")
        sub = [(a, va), (b, vb)]
        body = z3.substitute(z3.Or(*normal) if normal else z3.BoolVal(False), *sub)
        g = z3.And(*[z3.substitute(x, *sub) for x in guards])
        ctx.assume(mk_forall([va, vb], z3.Implies(g, body),
                             patterns=[z3.MultiPattern(*[z3.substitute(x, *sub) for x in guards])]))
        return default

    @staticmethod
    def wrap_elem(s, term):
        return V.PathV(term) if s.elem_sort == V.PathSort else term

    def bi_itertools_repeat(self, ctx, item, times=None):
        if times is not None:
            raise EngineLimit("itertools.repeat with a count")
        return V.RepeatV(item)

    bi_repeat = bi_itertools_repeat

    def bi_next(self, ctx, it, *default):
        if isinstance(it, V.LazyFilter):
            if not default:
                raise EngineLimit("next(filter(...)) without a default")
            return self.find_first(ctx, it, default[0])
        if isinstance(it, V.SeqIter):
            if ctx.decide(it.seq.length > it.pos):
                it.pos += 1
                return it.seq.at(ctx, z3.IntVal(it.pos - 1))
            if default:
                return default[0]
            raise self.raise_ext("StopIteration")
        if isinstance(it, V.ConcreteIter):
            if it.pos < len(it.items):
                it.pos += 1
                return it.items[it.pos - 1]
            if default:
                return default[0]
            raise self.raise_ext("StopIteration")
        raise EngineLimit("next(%r)" % (it,))

    def bi_min(self, ctx, *args, **kw):
        return self.minmax(ctx, args, kw, True)

    def bi_max(self, ctx, *args, **kw):
        return self.minmax(ctx, args, kw, False)

    def minmax(self, ctx, args, kw, is_min):
        from .loops import minmax_iter

        if kw:
            if set(kw) == {"key"} and len(args) == 1:
                from .loops import argminmax_iter

                return argminmax_iter(self.e, ctx, args[0], kw["key"], is_min)
            raise EngineLimit("min/max with key/default")
        if len(args) == 1:
            return minmax_iter(self.e, ctx, args[0], is_min)
        items = list(args)
        return self.fold_minmax(ctx, items, is_min)

    def fold_minmax(self, ctx, items, is_min):
        if not items:
            raise self.raise_ext("ValueError")
        if all(isinstance(x, (int, bool)) for x in items):
            return min(items) if is_min else max(items)
        acc = V.Int.unwrap(items[0]) if not isinstance(items[0], V.FractionV) else items[0].term
        for x in items[1:]:
            t = V.Int.unwrap(x) if not isinstance(x, V.FractionV) else x.term
            ta, tb = self.e.coerce_pair(acc, t)
            ta, tb = self.e.to_num(ta), self.e.to_num(tb)
            acc = z3.If(tb < ta, tb, ta) if is_min else z3.If(tb > ta, tb, ta)
        return acc

    def bi_sum(self, ctx, it, start=0):
        from .loops import sum_iter

        return sum_iter(self.e, ctx, it, start)

    def bi_divmod(self, ctx, a, b):
        q = self.binop(ctx, ast.FloorDiv(), a, b)
        r = self.binop(ctx, ast.Mod(), a, b)
        return (q, r)

    def bi_ord(self, ctx, c):
        if isinstance(c, str) and len(c) == 1:
            return ord(c)
        if isinstance(c, V.BytesOf):
            # ord(bytes) requires a single byte (TypeError otherwise); a single byte is an ASCII code point
            n = self.utf8_len(ctx, c.s)
            if ctx.decide(n != 1):
                raise self.raise_ext("TypeError")
            return z3.StrToCode(z3.SubString(c.s, 0, 1))
        if isinstance(c, z3.ExprRef) and z3.is_string(c):
            if ctx.decide(z3.Length(c) != 1):
                raise self.raise_ext("TypeError")
            return z3.StrToCode(c)
        raise EngineLimit("ord")

    def bi_chr(self, ctx, i):
        if isinstance(i, int):
            try:
                return chr(i)
            except (ValueError, OverflowError):
                raise self.raise_ext("ValueError")
        raise EngineLimit("chr")

    # -- math / itertools / functools
    def bi_math_lcm(self, ctx, a, b):
        from . import settheory

        return settheory.lcm_term(ctx, V.Int.unwrap(a), V.Int.unwrap(b))

    def bi_math_ceil(self, ctx, x):
        if isinstance(x, V.FloatV):
            return math.ceil(x.value)
        if isinstance(x, int):
            return x
        if isinstance(x, Log2V):
            return self.ceil_log2(ctx, x.arg)
        raise EngineLimit("math.ceil of a symbolic value")

    _LOG2_CLASSES = 8

    def ceil_log2(self, ctx, x):
        """ceil(log2(x)) for a symbolic integer x >= 1: class e = 0..8 is `2**(e-1) < x <= 2**e` (checked against the
        running math module for every x <= 256 - a table, not an assumption); x > 256: some e >= 9 (ASSUMED monotonicity
        of math.log2) with pow2(e-1) < x <= pow2(e)."""
        top = self._LOG2_CLASSES
        if not getattr(self, "_log2_table_ok", False):
            for e in range(0, top + 1):
                lo = 1 if e == 0 else 2 ** (e - 1) + 1
                for xv in range(lo, 2 ** e + 1):
                    if math.ceil(math.log2(xv)) != e:
                        raise EngineLimit("math.ceil(math.log2(%d)) != %d on the running interpreter" % (xv, e))
            self._log2_table_ok = True
        conds = []
        for e in range(0, top + 1):
            lo = 1 if e == 0 else 2 ** (e - 1) + 1
            conds.append((e, z3.And(x >= lo, x <= 2 ** e)))
        conds.append((None, x > 2 ** top))
        feas = [(e, c) for e, c in conds if self.e.feasible(ctx, c)]
        if not feas:
            from .symexec import PathEnd

            raise PathEnd()
        k = ctx.choose(len(feas)) if len(feas) > 1 else 0
        e, c = feas[k]
        ctx.pc.append(c)
        if e is not None:
            return e
        ev = ctx.fresh("ceillog2", z3.IntSort())
        ctx.assume(z3.And(ev >= top + 1, self.pow2(ev) >= x, self.pow2(ev - 1) < x, self.pow2(ev) >= 2 ** (top + 1)))
        return ev

    def concretize(self, ctx, t, limit=140):
        """Case split a symbolic integer whose range under the path condition is small (finite instantiation):
        all feasible values are enumerated once (cached per path condition), then one unconditional n-way fork."""
        if isinstance(t, int):
            return t
        from .symexec import has_quantifier, PathEnd

        cache = self.e.__dict__.setdefault("_concretize_cache", {})
        qf = [p for p in ctx.pc if not has_quantifier(p)]
        key = (tuple(p.get_id() for p in qf), t.get_id())
        if key not in cache:
            s = z3.Solver()
            s.set("timeout", 5000)
            for p in qf:
                s.add(p)
            vals = []
            status = "ok"
            while True:
                r = s.check()
                if r == z3.unsat:
                    break
                if r != z3.sat:
                    status = "unknown"
                    break
                v = s.model().eval(t, model_completion=True)
                if not z3.is_int_value(v):
                    status = "nonint"
                    break
                vals.append(v.as_long())
                if len(vals) > limit:
                    status = "toomany"
                    break
                s.add(t != v)
            cache[key] = (sorted(vals), status, qf, t)
        vals, status = cache[key][0], cache[key][1]
        if status == "toomany" or status == "nonint":
            raise EngineLimit("value of %s is not confined to a small range at a point where a concrete integer is needed" % t)
        if status == "unknown":
            raise EngineLimit("cannot enumerate the values of %s (solver unknown)" % t)
        if not vals:
            raise PathEnd()
        k = ctx.choose(len(vals)) if len(vals) > 1 else 0
        ctx.pc.append(t == vals[k])
        return vals[k]

    def bi_math_log2(self, ctx, x):
        if isinstance(x, V.FloatV):
            return V.FloatV(math.log2(x.value))
        if isinstance(x, int):
            if x > 0:
                return V.FloatV(math.log2(x))
            raise self.raise_ext("ValueError", "math.log2 of a non-positive number")
        if ctx.decide(x <= 0):
            raise self.raise_ext("ValueError", "math.log2 of a non-positive number")
        return Log2V(x)

    def bi_round(self, ctx, x, nd=None):
        if isinstance(x, Log2V) and nd is None:
            v = self.concretize(ctx, x.arg)  # finite instantiation over the (small) range of the argument
            return round(math.log2(v))
        if isinstance(x, V.FloatV) and nd is None:
            return round(x.value)
        if isinstance(x, int):
            return x
        raise EngineLimit("round of a symbolic value")

    def bi_itertools_product(self, ctx, *args):
        if len(args) == 2 and all(isinstance(x, SymSet) and x.elem_sort != z3.IntSort() for x in args):
            return V.PairProduct(args[0], args[1])
        if len(args) == 1 and isinstance(args[0], V.StarArgs):
            return V.Product(args[0].seq)
        return V.Product(PyList(list(args)))

    def bi_itertools_combinations_with_replacement(self, ctx, s, k):
        s = self.e.iter_to_set(ctx, s)
        if isinstance(s, PySet):
            s = self.e.to_symset(ctx, s)
        if not isinstance(s, SymSet):
            raise EngineLimit("combinations_with_replacement over %r" % (s,))
        return V.Combos(s, k)

    def bi_collections_defaultdict(self, ctx, factory=None):
        if isinstance(factory, V.Builtin) and factory.name == "list":
            return V.GroupDict()
        raise EngineLimit("defaultdict with a factory other than list")

    def bi_time_monotonic(self, ctx):
        # ASSUMED: time.monotonic() returns some real number (wall time is not modelled)
        return V.FractionV(ctx.fresh("monotonic", z3.RealSort()))

    bi_monotonic = bi_time_monotonic

    def bi_functools_partial(self, ctx, fn, *args, **kwargs):
        return V.Partial(fn, args, kwargs)

    def bi_fractions_Fraction(self, ctx, num=0, den=None):
        if den is not None:
            raise EngineLimit("Fraction(n, d)")
        if isinstance(num, V.FractionV):
            return num
        if isinstance(num, (int, bool)):
            return V.FractionV(z3.RealVal(int(num)))
        if isinstance(num, z3.ExprRef) and z3.is_int(num):
            return V.FractionV(z3.ToReal(num))
        if isinstance(num, z3.ExprRef) and z3.is_real(num):
            return V.FractionV(num)
        if isinstance(num, str):
            import fractions

            try:
                fr = fractions.Fraction(num)
            except (ValueError, ZeroDivisionError):
                raise self.raise_ext("ValueError", "Fraction(%r)" % num)
            return V.FractionV(z3.RealVal(str(fr.numerator)) / z3.RealVal(str(fr.denominator)))
        if isinstance(num, V.FloatV):
            import fractions

            try:
                fr = fractions.Fraction(num.value)
            except (ValueError, OverflowError) as ex:
                raise self.raise_ext(type(ex).__name__, "Fraction(float)")
            return V.FractionV(z3.RealVal(str(fr.numerator)) / z3.RealVal(str(fr.denominator)))
        raise EngineLimit("Fraction(%r)" % (num,))

    bi_Fraction = bi_fractions_Fraction
    bi_frac = bi_fractions_Fraction

    def bi_pathlib_Path(self, ctx, p):
        if isinstance(p, V.PathV):
            return p
        if isinstance(p, str) or (isinstance(p, z3.ExprRef) and z3.is_string(p)):
            # ASSUMED: Path(s) is a function of the string (pure path construction; no file-system access)
            return V.PathV(self.e.uf("path!of-str", z3.StringSort(), V.PathSort)(V.Str.unwrap(p)))
        raise EngineLimit("Path(%r)" % (p,))

    bi_Path = bi_pathlib_Path
    bi_pathlib_PurePath = bi_pathlib_Path

    def path_attr(self, ctx, o, name):
        if name in getattr(o, "attrs", {}):
            return o.attrs[name]
        if name in ("resolve", "samefile", "relative_to", "is_relative_to"):
            return V.Builtin("method." + name, bound=o)
        P, S, I_ = V.PathSort, z3.StringSort(), z3.IntSort()
        if name == "parent":
            return V.PathV(self.e.uf("path!parent", P, P)(o.term))
        if name in ("stem", "name", "suffix"):
            return self.e.uf("path!" + name, P, S)(o.term)
        if name == "parts":
            ln = self.e.uf("path!nparts", P, I_)(o.term)
            ctx.assume(ln >= 0)
            return SymSeq(self.e.uf("path!parts", P, z3.ArraySort(I_, S))(o.term), ln, V.Str)
        raise EngineLimit("path attribute %s" % name)

    def bi_typing_cast(self, ctx, t, v):
        return v

    def bi_typing_NamedTuple(self, ctx, name, fields):
        names = [f[0] for f in self.e.iter_concrete(ctx, fields)]
        return V.RecClass(name, names)

    bi_NamedTuple = bi_typing_NamedTuple

    # ------------------------------------------------------------------ methods of builtin values
    def call_method(self, ctx, o, name, args, kwargs):
        if isinstance(o, PyDict) and getattr(o, "opaque", False):
            raise EngineLimit("read of a dict whose contents are not tracked (symbolic keys)")
        fn = getattr(self, "m_%s_%s" % (self.kind_of(o), name), None)
        if fn is None:
            from . import bytesmodel

            fn2 = getattr(bytesmodel, "m_%s_%s" % (self.kind_of(o), name), None)
            if fn2 is None:
                from . import dynmodel

                fn2 = getattr(dynmodel, "m_%s_%s" % (self.kind_of(o), name), None)
            if fn2 is not None:
                return fn2(self, ctx, o, *args, **kwargs)
            raise EngineLimit("method %s of %r" % (name, o))
        return fn(ctx, o, *args, **kwargs)

    @staticmethod
    def kind_of(o):
        if isinstance(o, V.BytesV):
            return "bytes"
        if type(o).__name__ == "DynV":
            return "dyn"
        from . import strmodel as _sm

        if isinstance(o, _sm.RegexV):
            return "regex"
        if isinstance(o, V.PathV):
            return "path"
        if isinstance(o, V.GroupSlot):
            return "groupslot"
        if isinstance(o, V.GroupDict):
            return "groupdict"
        if isinstance(o, PyList):
            return "list"
        if isinstance(o, (SymSet, PySet)):
            return "set"
        if isinstance(o, (PyDict, SymMap)):
            return "dict"
        if isinstance(o, SymSeq):
            return "seq"
        if isinstance(o, str) or (isinstance(o, z3.ExprRef) and z3.is_string(o)):
            return "str"
        if isinstance(o, int) or (isinstance(o, z3.ExprRef) and z3.is_int(o)):
            return "int"
        if isinstance(o, tuple):
            return "tuple"
        if isinstance(o, V.FractionV):
            return "frac"
        return "other"

    def _mutating(self, ctx, o):
        from .symexec import short

        if not getattr(o, "fresh", True):
            ctx.oblige("%s/frame#aliased-mutation" % short(ctx.func), False, kind="frame")

    def m_groupslot_append(self, ctx, o, x):
        d = o.d
        if not ctx.bindings or not isinstance(ctx.bindings[-1].source, SymSeq):
            raise EngineLimit("defaultdict(list) filled outside the grouping idiom `for t in seq: d[key(t)].append(t)`")
        b = ctx.bindings[-1]
        if d.src is not None:
            raise EngineLimit("defaultdict(list) filled by more than one loop / append")
        if not (isinstance(x, Obj) and isinstance(b.value, Obj) and x.ref.eq(b.value.ref)):
            raise EngineLimit("grouping idiom must append the loop element itself")
        kt = o.key
        if isinstance(kt, str):
            kt = z3.StringVal(kt)
        elif isinstance(kt, int):
            kt = z3.IntVal(kt)
        d.src, d.key, d.const = b.source, kt, b.consts[0]

    def m_groupdict_values(self, ctx, o):
        return V.GroupValues(o)

    def m_other_append(self, ctx, o, x):
        if isinstance(o, V.Opaque) and o.what.startswith("container built in a loop"):
            return None
        raise EngineLimit("append on %r" % (o,))

    def m_list_append(self, ctx, o, x):
        self._mutating(ctx, o)
        o.items.append(x)

    def m_seq_append(self, ctx, o, x):
        """list.append on a symbolic list that the receiver object owns (a field of a materialised mutable object)."""
        from .symexec import short
        from . import mutstate

        if not (getattr(o, "owned", False) or o.fresh):
            ctx.oblige("%s/frame#aliased-mutation" % short(ctx.func), False, kind="frame")
        if isinstance(x, Obj) and x.fields is not None:
            mutstate.publish(self.e, ctx, x)
        o.arr = z3.Store(o.arr, o.length, o.kind.unwrap(x))
        o.length = o.length + 1

    def m_seq_insert(self, ctx, o, i, x):
        """list.insert(i, x) on an owned symbolic list, for 0 <= i <= len (the other index forms are not modelled)."""
        from .symexec import short
        from . import mutstate

        if not (getattr(o, "owned", False) or o.fresh):
            ctx.oblige("%s/frame#aliased-mutation" % short(ctx.func), False, kind="frame")
        it = V.Int.unwrap(i)
        if ctx.decide(z3.Or(it < 0, it > o.length)):
            raise EngineLimit("list.insert with a negative / out-of-range index")
        if isinstance(x, Obj) and x.fields is not None:
            mutstate.publish(self.e, ctx, x)
        j = z3.FreshConst(z3.IntSort(), "j")
        old = o.arr
        o.arr = z3.Lambda([j], z3.If(j < it, z3.Select(old, j), z3.If(j == it, o.kind.unwrap(x), z3.Select(old, j - 1))))
        o.length = o.length + 1

    def m_list_extend(self, ctx, o, xs):
        self._mutating(ctx, o)
        o.items.extend(self.e.iter_concrete(ctx, xs))

    def m_list_copy(self, ctx, o):
        return PyList(list(o.items))

    def m_list_index(self, ctx, o, x):
        for i, it in enumerate(o.items):
            if ctx.decide(lift(self.e, ctx, self.e.py_eq(ctx, it, x))):
                return i
        raise self.raise_ext("ValueError")

    def m_set_add(self, ctx, o, x):
        self._mutating(ctx, o)
        if isinstance(o, PySet):
            if isinstance(x, (int, str)) and all(isinstance(i, (int, str)) for i in o.items):
                if x not in o.items:
                    o.items.append(x)
                return
            raise EngineLimit("add of a symbolic element to a concrete set")
        if ctx.collector is not None and ctx.collector.owns(o):
            ctx.collector.add(ctx, o, x)
            return
        if o.elem_sort == z3.IntSort() and (isinstance(x, str) or (isinstance(x, z3.ExprRef) and z3.is_string(x))):
            from .loops import _is_empty_set

            if not _is_empty_set(o.term):
                raise EngineLimit("string added to a set of integers")
            o.term = z3.K(z3.StringSort(), z3.BoolVal(False))  # `set()` literal: element type fixed by the first add
            o.elem_sort = z3.StringSort()
        o.term = z3.Store(o.term, container_elem(o, x), z3.BoolVal(True))

    def m_set_issuperset(self, ctx, o, other):
        raise EngineLimit("issuperset")

    def m_dict_get(self, ctx, o, k, default=None):
        if isinstance(o, PyDict):
            hk = self.e.hashable(k)
            return o.items.get(hk, default)
        raise EngineLimit("dict.get on a symbolic dict")

    def m_dict_values(self, ctx, o):
        if isinstance(o, PyDict):
            return PyList(list(o.items.values()))
        raise EngineLimit("values() of a symbolic dict")

    def m_dict_keys(self, ctx, o):
        if isinstance(o, PyDict):
            return PyList(list(o.items.keys()))
        raise EngineLimit("keys() of a symbolic dict")

    def m_dict_items(self, ctx, o):
        if isinstance(o, PyDict):
            return PyList([(k, v) for k, v in o.items.items()])
        raise EngineLimit("items() of a symbolic dict")

    def m_int_bit_length(self, ctx, o):
        if isinstance(o, int):
            return o.bit_length()
        from . import settheory

        return settheory.bit_length_term(ctx, self, o)

    def m_str_lower(self, ctx, o):
        return self.e.str_lower(ctx, o)

    def m_str_strip(self, ctx, o):
        if isinstance(o, str):
            return o.strip()
        return self.e.uf("str.strip", z3.StringSort(), z3.StringSort())(o)

    def m_str_startswith(self, ctx, o, p):
        if isinstance(o, str) and isinstance(p, str):
            return o.startswith(p)
        return z3.PrefixOf(V.Str.unwrap(p), V.Str.unwrap(o))

    def m_str_endswith(self, ctx, o, p):
        if isinstance(o, str) and isinstance(p, str):
            return o.endswith(p)
        return z3.SuffixOf(V.Str.unwrap(p), V.Str.unwrap(o))

    def m_str_join(self, ctx, o, items):
        if isinstance(items, SymSeq) and items.kind is V.Str and isinstance(o, str) and len(o) == 1:
            return self.join_seq(ctx, o, items)
        xs = self.e.iter_concrete(ctx, items) if not isinstance(items, V.MappedIter) else None
        if xs is None:
            return V.Opaque("joined string")
        if all(isinstance(x, str) for x in xs) and isinstance(o, str):
            return o.join(xs)
        if not xs:
            return ""
        if any(isinstance(x, V.Opaque) for x in xs):
            return V.Opaque("joined string")
        acc = V.Str.unwrap(xs[0])
        for x in xs[1:]:
            acc = z3.Concat(acc, V.Str.unwrap(o), V.Str.unwrap(x))
        return acc

    # ASSUMED contracts of pathlib (the file system is not modelled): uninterpreted relations over pure path values
    def m_path_resolve(self, ctx, o, strict=False):
        return V.PathV(self.e.uf("path!resolve", V.PathSort, V.PathSort)(o.term))

    def _path_rel(self, ctx, name, a, b, symmetric=False):
        f = self.e.uf(name, V.PathSort, V.PathSort, z3.BoolSort())
        p, q = z3.Const("p!refl", V.PathSort), z3.Const("q!sym", V.PathSort)
        ctx.add_axiom(z3.ForAll([p], f(p, p), patterns=[f(p, p)]))  # a path is the same file as / relative to itself
        if symmetric:
            ctx.add_axiom(z3.ForAll([p, q], f(p, q) == f(q, p), patterns=[f(p, q)]))  # "the same file" is symmetric
        return f(a.term, b.term)

    def m_path_samefile(self, ctx, o, other):
        if not isinstance(other, V.PathV):
            raise EngineLimit("samefile(%r)" % (other,))
        return self._path_rel(ctx, "path!samefile", o, other, symmetric=True)

    def m_path_is_relative_to(self, ctx, o, other):
        if not isinstance(other, V.PathV):
            raise EngineLimit("is_relative_to(%r)" % (other,))
        return self._path_rel(ctx, "path!is-relative-to", o, other)

    def m_path_relative_to(self, ctx, o, other):
        if not isinstance(other, V.PathV):
            raise EngineLimit("relative_to(%r)" % (other,))
        if ctx.decide(z3.Not(self._path_rel(ctx, "path!is-relative-to", o, other))):
            raise self.raise_ext("ValueError", "relative_to: not a sub-path")
        return V.PathV(self.e.uf("path!relative", V.PathSort, V.PathSort, V.PathSort)(o.term, other.term))

    def m_str_isascii(self, ctx, o):
        if isinstance(o, str):
            return o.isascii()
        from . import strmodel as _sm

        return _sm.str_isascii(o)

    def m_str_isdigit(self, ctx, o):
        if isinstance(o, str):
            return o.isdigit()
        from . import strmodel as _sm

        return _sm.str_isdigit(o)

    def m_other_split(self, ctx, o, sep=None):
        if isinstance(o, V.JoinedStr) and isinstance(sep, str) and sep == o.sep:
            return PyList(list(o.parts))
        raise EngineLimit("split of %r" % (o,))

    def m_str_split(self, ctx, o, sep=None):
        if isinstance(o, str) and isinstance(sep, str):
            return PyList(o.split(sep))
        if isinstance(o, z3.ExprRef) and z3.is_string(o) and isinstance(sep, str) and sep:
            from . import strmodel as _sm

            if _sm.ENABLED and len(sep) == 1:
                return self.split_seq(ctx, o, sep)  # the string-model encoding (specs that call strmodel.enable())
            return self.split_symbolic(ctx, o, sep)
        raise EngineLimit("split of a symbolic string")

    def split_symbolic(self, ctx, s, sep: str):
        """ASSUMED (CPython str.split with a non-empty separator): the result is a non-empty list of strings that
           contain no separator; it is a function of (s, sep); it has one element, s itself, iff s does not contain sep;
           the first component is a prefix of s."""
        ASSUMED.setdefault("str.split", "s.split(sep), sep non-empty: a non-empty list, a function of (s, sep), of strings "
                           "not containing sep; [s] iff sep does not occur in s; the first component is a prefix of s")
        sv = z3.StringVal(sep)
        arr = self.e.uf("str.split!arr", z3.StringSort(), z3.StringSort(), z3.ArraySort(z3.IntSort(), z3.StringSort()))(s, sv)
        n = self.e.uf("str.split!len", z3.StringSort(), z3.StringSort(), z3.IntSort())(s, sv)
        ctx.assume(n >= 1)
        ctx.assume((n == 1) == z3.Not(z3.Contains(s, sv)))
        ctx.assume(z3.Implies(n == 1, z3.Select(arr, 0) == s))
        ctx.assume(z3.PrefixOf(z3.Select(arr, 0), s))
        ctx.assume(z3.Not(z3.Contains(z3.Select(arr, 0), sv)))
        return SymSeq(arr, n, V.Str, fresh=True)

    def join_seq(self, ctx, sep: str, items: SymSeq):
        """<one character>.join(seq of str): a string determined by the sequence, with the ASSUMED characteristic fact
        that splitting it at the separator gives the sequence back when the sequence is non-empty and no element
        contains the separator (str.join / str.split are mutually inverse there)."""
        from .loops import mk_forall as _mkf

        tag = "%x" % ord(sep)
        S, I_ = z3.StringSort(), z3.IntSort()
        j = self.e.uf("join!%s" % tag, z3.ArraySort(I_, S), I_, S)(items.arr, items.length)
        sp = self.split_seq(ctx, j, sep)
        k = z3.FreshConst(I_, "k")
        sv = z3.StringVal(sep)
        clean = _mkf([k], z3.Implies(z3.And(0 <= k, k < items.length), z3.Not(z3.Contains(z3.Select(items.arr, k), sv))))
        same = _mkf([k], z3.Implies(z3.And(0 <= k, k < items.length), z3.Select(sp.arr, k) == z3.Select(items.arr, k)),
                         patterns=[z3.Select(sp.arr, k)])
        ctx.assume(z3.Implies(z3.And(items.length >= 1, clean), z3.And(sp.length == items.length, same)))
        return j

    def split_seq(self, ctx, o, sep: str):
        """s.split(<one character>): canonical sequence split!<sep>(s) (a function of s) with the characteristic facts
        ASSUMED from the definition of str.split: at least one component; no component contains the separator; exactly
        one component iff s does not contain the separator, and then it is s; the separator count is len - 1;
        s is the join of the components (stated for the first and the last component: s starts with c[0] and ends with
        c[-1], each followed / preceded by the separator when there are several)."""
        from .loops import mk_forall as _mkf

        tag = "%x" % ord(sep)
        S, I_ = z3.StringSort(), z3.IntSort()
        arr = self.e.uf("split!%s!arr" % tag, S, z3.ArraySort(I_, S))(o)
        ln = self.e.uf("split!%s!len" % tag, S, I_)(o)
        sv = z3.StringVal(sep)
        k = z3.FreshConst(I_, "k")
        ctx.assume(ln >= 1)
        ctx.assume((ln == 1) == z3.Not(z3.Contains(o, sv)))
        ctx.assume(z3.Implies(ln == 1, z3.Select(arr, 0) == o))
        ctx.add_axiom(_mkf([k], z3.Implies(z3.And(0 <= k, k < ln), z3.Not(z3.Contains(z3.Select(arr, k), sv))),
                                patterns=[z3.Select(arr, k)]))
        ctx.assume(z3.Implies(ln > 1, z3.And(z3.PrefixOf(z3.Concat(z3.Select(arr, 0), sv), o),
                                             z3.SuffixOf(z3.Concat(sv, z3.Select(arr, ln - 1)), o))))
        ctx.assume(z3.Length(o) >= ln - 1)
        return SymSeq(arr, ln, V.Str, fresh=True)

    def m_str_encode(self, ctx, o, enc="utf8", errors="strict"):
        if errors != "strict":
            # ASSUMED (CPython): with errors='ignore' the unencodable code points (surrogates) are dropped and nothing is
            # raised; modelled as the encoding of SOME string without surrogates that is not longer than the original and
            # equals it when the original has no surrogate (over-approximation: which characters survive is not tracked)
            if errors != "ignore" or not isinstance(errors, str):
                raise EngineLimit("str.encode with errors=%r" % (errors,))
            ot = z3.StringVal(o) if isinstance(o, str) else o
            kept = ctx.fresh("encoded_ignoring_errors", z3.StringSort())
            j = z3.FreshConst(z3.IntSort(), "cj")
            cd = lambda t, k: z3.StrToCode(z3.SubString(t, k, 1))
            sur = lambda t: z3.Exists([j], z3.And(0 <= j, j < z3.Length(t), cd(t, j) >= 0xD800, cd(t, j) <= 0xDFFF))
            ctx.assume(z3.Length(kept) <= z3.Length(ot))
            ctx.assume(z3.Not(sur(kept)))
            ctx.assume(z3.Implies(z3.Not(sur(ot)), kept == ot))
            return V.BytesOf(kept)
        # ASSUMED (CPython): str.encode('utf8') raises UnicodeEncodeError iff the string contains a surrogate
        # code point (U+D800..U+DFFF); otherwise every code point < 0x80 becomes exactly one byte, others 2..4 bytes.
        if isinstance(o, str):
            try:
                o.encode(enc)
            except UnicodeEncodeError:
                raise self.raise_ext("UnicodeEncodeError")
            return V.BytesOf(z3.StringVal(o))
        i = z3.FreshConst(z3.IntSort(), "ci")
        code = lambda k: z3.StrToCode(z3.SubString(o, k, 1))
        has_surrogate = z3.Exists([i], z3.And(0 <= i, i < z3.Length(o), code(i) >= 0xD800, code(i) <= 0xDFFF))
        if ctx.decide(has_surrogate):
            raise self.raise_ext("UnicodeEncodeError")
        return V.BytesOf(o)

    def m_str_format(self, ctx, o, *a, **k):
        return V.Opaque("formatted")

    def bi_re_compile(self, ctx, pattern, flags=0):
        from . import strmodel as _sm

        if not isinstance(pattern, str) or not isinstance(flags, int):
            raise EngineLimit("re.compile of a non-constant pattern")
        return _sm.compile_pattern(pattern, flags)

    def m_regex_match(self, ctx, o, subject):
        # a match object is truthy, None is not: modelled as an Optional whose presence is the match condition
        from . import strmodel as _sm

        c = _sm.match_term(self.e, ctx, o, subject)
        if isinstance(c, bool):
            return True if c else None
        return OptV(z3.Not(c), True)

    def m_frac___pow__(self, ctx, o, x):
        raise EngineLimit("Fraction power")


def container_elem(s: SymSet, item):
    if s.elem_sort == z3.IntSort():
        return V.Int.unwrap(item)
    if s.elem_sort == z3.StringSort():
        return V.Str.unwrap(item)
    if isinstance(item, Obj):
        return item.ref
    return item


def lift(engine, ctx, v):
    if isinstance(v, (bool, z3.BoolRef)):
        return v
    return engine.truth(ctx, v)
