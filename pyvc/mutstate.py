"""
Mutable object graphs (additive extension used by the builder / parser properties C03, C17).

 * snapshot(v): deep copy of the materialised part of a value (pre-state `s.old` of contracts on mutable receivers),
 * identical(a, b): reference / term identity of two values (no user-defined __eq__),
 * publish(ctx, obj): a freshly constructed object of an immutable model class escapes into a symbolic container:
   its field values become facts about the field functions of its reference (immutable after __init__),
 * closure_view(v, sites): (tag, slots) of a value stored in a closure-valued field (None, a real closure created on this
   path, or a symbolic SymClosure),
 * call_symclosure: application of a SymClosure = case split over the sites, inlining the real lambda of the site.
"""
from __future__ import annotations
import ast
import z3
from typing import Any, Dict, List

from . import values as V
from .values import Obj, SymSeq, OptV, RecV, PyList, EngineLimit


def snapshot(v, memo=None):
    memo = {} if memo is None else memo
    if id(v) in memo:
        return memo[id(v)]
    if isinstance(v, Obj) and v.fields is not None:
        o = Obj(v.cls, v.exact, v.ref, {}, v.ctx)
        memo[id(v)] = o
        for k, x in v.fields.items():
            o.fields[k] = snapshot(x, memo)
        return o
    if isinstance(v, PyList):
        p = PyList([], fresh=v.fresh)
        memo[id(v)] = p
        p.items = [snapshot(x, memo) for x in v.items]
        return p
    if isinstance(v, SymSeq):
        s = SymSeq(v.arr, v.length, v.kind, v.fresh)
        if getattr(v, "owned", False):
            s.owned = True
        return s
    if isinstance(v, V.BytesV) and v.mutable:
        return V.BytesV(v.arr, v.length, mutable=True, view=v.view, concrete=v.concrete, fresh=v.fresh)
    if isinstance(v, OptV):
        return OptV(v.is_none, snapshot(v.val, memo))
    if isinstance(v, RecV):
        return RecV(v.name, {k: snapshot(x, memo) for k, x in v.comps.items()})
    if isinstance(v, V.Recorder):
        r = V.Recorder(v.name)
        r.calls = PyList(list(v.calls.items))
        return r
    if isinstance(v, V.SymClosure):
        c = V.SymClosure(v.tag, v.sites, v.slots, None)
        memo[id(v)] = c
        c.owner = snapshot(v.owner, memo) if v.owner is not None else None
        return c
    return v


def identical(engine, ctx, a, b):
    """`a is b` for references, equality of terms for immutable values."""
    from .symexec import speclib_and

    if isinstance(a, Obj) and isinstance(b, Obj):
        return a.ref == b.ref
    if isinstance(a, OptV) or isinstance(b, OptV):
        if not isinstance(a, OptV):
            a, b = b, a
        if b is None:
            return a.is_none
        if isinstance(b, OptV):
            return z3.Or(z3.And(_b(a.is_none), _b(b.is_none)),
                         z3.And(z3.Not(_b(a.is_none)), z3.Not(_b(b.is_none)), _b(identical(engine, ctx, a.val, b.val))))
        return speclib_and(engine.b_not(a.is_none), identical(engine, ctx, a.val, b))
    if isinstance(a, RecV) and isinstance(b, RecV):
        return speclib_and(*[identical(engine, ctx, x, y) for x, y in zip(a.comps.values(), b.comps.values())])
    if isinstance(a, V.FractionV) and isinstance(b, V.FractionV):
        return a.term == b.term
    if isinstance(a, V.EnumV) and isinstance(b, V.EnumV):
        return a.term == b.term
    if a is None or b is None:
        return a is None and b is None
    ta, tb = engine.coerce_pair(a, b)
    if ta is not None:
        return ta == tb
    if isinstance(a, SymSeq) and isinstance(b, SymSeq):
        return z3.And(a.arr == b.arr, a.length == b.length)
    raise EngineLimit("identity of %r and %r" % (a, b))


def _b(x):
    return z3.BoolVal(x) if isinstance(x, bool) else x


def publish(engine, ctx, obj: Obj, depth=0):
    """Facts `field(ref) == value` for a freshly constructed object of an immutable model class."""
    if obj.fields is None or depth > 4:
        return
    done = ctx.global_cache.setdefault("published", {})
    if id(obj) in done:
        return
    done[id(obj)] = obj  # keeps the object alive so that its id stays unique
    abstract = Obj(obj.cls, True, obj.ref, None, ctx)
    for n, k in engine.all_field_kinds(obj.cls).items():
        if n not in obj.fields:
            continue
        val = obj.fields[n]
        if isinstance(val, Obj) and val.fields is not None:
            publish(engine, ctx, val, depth + 1)
        try:
            av = engine.abstract_field(ctx, abstract, n)
            fact = identical(engine, ctx, av, val)
        except EngineLimit:
            continue
        if isinstance(fact, bool):
            if not fact:
                raise EngineLimit("cannot publish field %s.%s" % (obj.cls.name, n))
            continue
        ctx.assume(fact)


# ------------------------------------------------------------------------------------------------ closures in fields
def site_lambda(engine, site_qualname: str):
    """The FuncInfo of the (single) lambda inside the site function, and the site's FuncInfo."""
    from .frontend import FuncInfo

    fi = engine.repo.functions[site_qualname if site_qualname.startswith("pydsdl.") else "pydsdl." + site_qualname]
    lambdas = [n for n in ast.walk(fi.node) if isinstance(n, ast.Lambda)]
    if len(lambdas) != 1:
        raise EngineLimit("closure site %s must contain exactly one lambda (found %d)" % (site_qualname, len(lambdas)))
    return FuncInfo(fi.qualname + ".<lambda>", lambdas[0], fi.module, None), fi


def site_params(fi) -> List[str]:
    ps = fi.params
    return ps[1:] if fi.cls is not None and not fi.is_static else ps


def closure_view(engine, v, sites: List[str]):
    """(tag, slots, owner): tag is a python int or a z3 Int; slots[i] is the value captured for the i-th non-self
    parameter of the site function (None where the site has fewer parameters)."""
    nslots = max(len(site_params(site_lambda(engine, s)[1])) for s in sites)
    if v is None:
        return 0, [None] * nslots, None
    if isinstance(v, V.SymClosure):
        return v.tag, list(v.slots) + [None] * (nslots - len(v.slots)), v.owner
    if isinstance(v, V.Closure) and v.env is not None and v.env.finfo is not None:
        q = v.env.finfo.qualname
        for k, s in enumerate(sites):
            sq = s if s.startswith("pydsdl.") else "pydsdl." + s
            if q == sq and isinstance(v.finfo.node, ast.Lambda):
                names = site_params(v.env.finfo)
                slots = []
                for n in names:
                    found, val = v.env.lookup(n)
                    slots.append(val if found else None)
                owner = None
                if v.env.finfo.cls is not None:
                    found, owner = v.env.lookup(v.env.finfo.params[0])
                return k + 1, slots + [None] * (nslots - len(slots)), owner
    raise EngineLimit("closure-valued field holds %r, which is not a closure of one of the declared sites" % (v,))


def call_symclosure(engine, ctx, c: V.SymClosure, args, kwargs):
    from .symexec import Env, PyRaise
    from .values import ExcVal

    for k, s in enumerate(c.sites):
        if ctx.decide(c.tag == k + 1):
            lam, site = site_lambda(engine, s)
            env = Env(site.module, None, site)
            names = site_params(site)
            for n, val in zip(names, c.slots):
                env.vars[n] = val
            if site.cls is not None and not site.is_static:
                if c.owner is None:
                    raise EngineLimit("symbolic closure without an owner")
                env.vars[site.params[0]] = c.owner
            return engine.call_function(ctx, lam, args, kwargs, closure=V.Closure(lam, env))
    # tag 0: calling None
    raise PyRaise(ExcVal(V.ExtClass("TypeError")))
