"""
Library model of bytes / bytearray and of the integer bit operations `<< >> | & ~` (ASSUMED contracts of CPython, each
entry listed in libmodel.ASSUMED).  bytes values are `values.BytesV` (z3 array Int -> Int plus a length).  Results of
operations are fresh arrays with ground / pointwise defining facts; what the serdes bit layer needs to know about the
*value* of a byte string as a bit string is stated through pyvc.bittheory (ground instances of Lean-proved lemmas).
"""
from __future__ import annotations
import ast
import z3

from . import values as V
from .values import EngineLimit, BytesV
from . import bittheory as bt
from . import libmodel

libmodel.ASSUMED.update({
    "bytes": "bytes/bytearray are finite sequences of integers 0..255; len, indexing (negative indices from the end, "
             "IndexError when out of range), slicing (clamped, fresh copy), +, * (repetition of a literal byte), "
             "bytes(x) (immutable copy), iteration in index order",
    "bytearray": "bytearray.append(b) / extend(bs) append at the end; ba[i] = b stores one byte "
                 "(ValueError unless 0 <= b <= 255); ba[a:b] = bs replaces the slice",
    "int.from_bytes": "int.from_bytes(b, 'little') is the base-256 little-endian value of b (Lean Bits.fromBytesLE_eq_bitsval)",
    "int.to_bytes": "v.to_bytes(n, 'little') for 0 <= v < 256**n is the n-byte string whose little-endian value is v; "
                    "OverflowError otherwise",
    "int bit operations": "x << n = x * 2**n, x >> n = floor(x / 2**n) (ValueError for n < 0); x & (2**n - 1) = x mod 2**n; "
                          "x | (b << i) = x + b * 2**i when 0 <= x < 2**i (Lean Bits.or_disjoint); "
                          "x & ~(1 << k) = x - ((x >> k) & 1) * 2**k (Lean Bits.and_not_bit); ~x = -x - 1",
    "struct.pack/unpack": "struct.pack('<e|<f|<d', x) returns 2/4/8 bytes or raises OverflowError (e, f); struct.unpack "
                          "on a buffer of exactly that size returns a 1-tuple holding a float (IEEE 754 packing is trusted)",
})

I = z3.IntSort()


def _fresh_arr(ctx, base="bytes"):
    return ctx.fresh(base, z3.ArraySort(I, I))


def _named(ctx, t, base="len"):
    """A constant standing for the term (terms with `ite` / `store` cannot be used inside quantifier patterns)."""
    t = V.Int.unwrap(t) if not z3.is_array(t) else t
    if z3.is_const(t):
        return t
    c = ctx.fresh(base, t.sort())
    ctx.pc.append(c == t)
    return c


def from_concrete(ctx, b: bytes, mutable=False) -> BytesV:
    arr = z3.K(I, z3.IntVal(0))
    for i, x in enumerate(b):
        arr = z3.Store(arr, i, z3.IntVal(x))
    return BytesV(arr, z3.IntVal(len(b)), mutable=mutable, concrete=bytes(b))


def byte_range_fact(ctx, arr, idx):
    ctx.pc.append(z3.And(z3.Select(arr, idx) >= 0, z3.Select(arr, idx) <= 255))


def _len_is_zero(v: BytesV) -> bool:
    s = z3.simplify(V.Int.unwrap(v.length))
    return z3.is_int_value(s) and s.as_long() == 0


# ---------------------------------------------------------------------------------------------- bit info side table
def _bitinfo(ctx):
    if not hasattr(ctx, "bitinfo"):
        ctx.bitinfo = {}
    return ctx.bitinfo


def note(ctx, term, kind, x, n):
    if isinstance(term, z3.ExprRef):
        _bitinfo(ctx)[term.get_id()] = (kind, x, n, term)


def info(ctx, term):
    if isinstance(term, z3.ExprRef):
        r = getattr(ctx, "bitinfo", {}).get(term.get_id())
        if r is not None and r[3].eq(term):
            return r
    return None


def note_mask(ctx, left, result):
    r = info(ctx, left)
    if r is not None and r[0] == "shl" and _is_one(r[1]):
        note(ctx, result, "mask", None, r[2])


def note_invert(ctx, operand, result):
    r = info(ctx, operand)
    if r is not None and r[0] == "shl" and _is_one(r[1]):
        note(ctx, result, "notbit", None, r[2])


def _is_one(t):
    t = z3.simplify(t) if isinstance(t, z3.ExprRef) else t
    return (isinstance(t, int) and t == 1) or (isinstance(t, z3.ExprRef) and z3.is_int_value(t) and t.as_long() == 1)


def _in_spec(ctx, fn):
    from . import speclib

    old = speclib.CTX
    speclib.CTX = ctx
    try:
        return fn()
    finally:
        speclib.CTX = old


# ---------------------------------------------------------------------------------------------- integer bit operators
def int_bitop(lib, ctx, op, a, b, ta, tb):
    """`<<`, `>>`, `|`, and `&` with a non-literal mask on (symbolic) integers."""
    e = lib.e
    if isinstance(op, (ast.LShift, ast.RShift)):
        if isinstance(b, (int, bool)):
            if int(b) < 0:
                raise lib.raise_ext("ValueError", "negative shift count")
            if isinstance(op, ast.LShift):
                r = ta * (2 ** int(b))
                note(ctx, r, "shl", ta, z3.IntVal(int(b)))
                return r
            return lib.floordivmod(ctx, ast.FloorDiv(), ta, e.to_num(2 ** int(b)))
        if ctx.decide(tb < 0):
            raise lib.raise_ext("ValueError", "negative shift count")
        _in_spec(ctx, lambda: bt.pow2_facts(tb))
        p = bt.pow2(tb)
        if isinstance(op, ast.LShift):
            r = ta * p
            note(ctx, r, "shl", ta, tb)
            return r
        return ta / p
    if isinstance(op, ast.BitOr):
        for x, y in ((ta, tb), (tb, ta)):
            ys = z3.simplify(y)
            if z3.is_int_value(ys) and ys.as_long() == 0:
                return x
        for x, y in ((ta, tb), (tb, ta)):
            r = info(ctx, y)
            if r is not None and r[0] == "shl":
                _, v, n, _t = r
                res = e.uf("orshl", I, I, I, I)(x, v, n)
                bt.USED.add("or-disjoint")
                _in_spec(ctx, lambda: bt.pow2_facts(n))
                ctx.pc.append(z3.Implies(z3.And(x >= 0, x < bt.pow2(n), v >= 0, n >= 0), res == x + v * bt.pow2(n)))
                note(ctx, res, "setbit", (x, v), n)
                return res
        raise EngineLimit("bitwise or of general operands")  # (pyvc.ext_expr turns this into its uninterpreted BITOR)
    if isinstance(op, ast.BitAnd):
        for x, y in ((ta, tb), (tb, ta)):
            r = info(ctx, y)
            if r is not None and r[0] == "mask":
                return _in_spec(ctx, lambda: bt.lsb_term(x, r[2]))
            if r is not None and r[0] == "notbit":
                k = r[2]
                bit = _in_spec(ctx, lambda: bt.bitof_term(x, k))
                res = x - bit * bt.pow2(k)
                note(ctx, res, "clearbit", (x, z3.IntVal(0)), k)
                return res
        raise EngineLimit("bitwise and with a non-mask operand")
    raise EngineLimit("bit operator %s" % type(op).__name__)


# ---------------------------------------------------------------------------------------------- bytes operators
def bytes_binop(lib, ctx, op, a, b):
    if isinstance(op, ast.Add) and isinstance(a, BytesV) and isinstance(b, BytesV):
        return concat(lib, ctx, a, b)
    if isinstance(op, ast.Mult):
        x, k = (a, b) if isinstance(a, BytesV) else (b, a)
        if isinstance(k, BytesV):
            raise lib.raise_ext("TypeError")
        if x.concrete is not None and isinstance(k, int):
            return from_concrete(ctx, x.concrete * k)
        if x.concrete == b"\x00":
            kt = V.Int.unwrap(k)
            n = _named(ctx, z3.If(kt > 0, kt, 0))
            out = BytesV(z3.K(I, z3.IntVal(0)), n, concrete=None)
            out.zeros = True
            return out
        raise EngineLimit("repetition of a non-literal bytes value")
    raise EngineLimit("operator %s on bytes" % type(op).__name__)


def is_zeros(v: BytesV) -> bool:
    return getattr(v, "zeros", False)


def concat(lib, ctx, a: BytesV, b: BytesV) -> BytesV:
    """a + b (a fresh value).  Zero padding keeps the provenance view of `a`."""
    la, lb = V.Int.unwrap(a.length), V.Int.unwrap(b.length)
    arr = _fresh_arr(ctx, "concat")
    i = z3.FreshConst(I, "i")
    ctx.add_axiom(z3.ForAll([i], z3.Select(arr, i) == z3.If(i < la, z3.Select(a.arr, i), z3.Select(b.arr, i - la)),
                            patterns=[z3.Select(arr, i)]))
    view = None
    if is_zeros(b) and a.view is not None:
        view = a.view  # zero padding: the zero-extended content is unchanged
    out = BytesV(arr, _named(ctx, la + lb), mutable=a.mutable, view=view)
    out.parts = (a, b)
    return out


def bytes_getitem(lib, ctx, o: BytesV, k):
    kt = V.Int.unwrap(k)
    n = V.Int.unwrap(o.length)
    if lib.e.feasible(ctx, kt < 0):
        idx = z3.If(kt < 0, kt + n, kt)
    else:
        idx = kt
    if ctx.decide(z3.Or(idx < 0, idx >= n)):
        raise lib.raise_ext("IndexError", "bytes index out of range")
    byte_range_fact(ctx, o.arr, idx)
    return z3.Select(o.arr, idx)


def _norm_bound(t, n):
    return z3.If(t < 0, z3.If(t + n < 0, 0, t + n), z3.If(t > n, n, t))


def bytes_getslice(lib, ctx, o: BytesV, lo, hi):
    n = V.Int.unwrap(o.length)
    lo_t = z3.IntVal(0) if lo is None else V.Int.unwrap(lo)
    hi_t = n if hi is None else V.Int.unwrap(hi)
    lo_n, hi_n = _norm_bound(lo_t, n), _norm_bound(hi_t, n)
    ln = z3.If(hi_n > lo_n, hi_n - lo_n, 0)
    arr = _fresh_arr(ctx, "slice")
    i = z3.FreshConst(I, "i")
    ctx.add_axiom(z3.ForAll([i], z3.Select(arr, i) == z3.Select(o.arr, i + lo_n), patterns=[z3.Select(arr, i)]))
    view = None
    if lo is not None and hi is not None and not lib.e.feasible(ctx, lo_t < 0) and not lib.e.feasible(ctx, hi_t < lo_t):
        # 0 <= lo <= hi: zero-extended byte i of the slice equals zero-extended byte lo + i of the source for i < hi - lo
        view = (o.arr, n, lo_t, hi_t - lo_t)
    return BytesV(arr, _named(ctx, ln), mutable=o.mutable, view=view)


def bytes_setitem(lib, ctx, o: BytesV, k, v):
    if not o.mutable:
        raise lib.raise_ext("TypeError", "bytes does not support item assignment")
    lib._mutating(ctx, o)
    if isinstance(k, tuple) and len(k) == 3 and k[0] == "slice":
        raise EngineLimit("slice assignment on a bytearray")
    kt = V.Int.unwrap(k)
    n = V.Int.unwrap(o.length)
    idx = z3.If(kt < 0, kt + n, kt) if lib.e.feasible(ctx, kt < 0) else kt
    if ctx.decide(z3.Or(idx < 0, idx >= n)):
        raise lib.raise_ext("IndexError", "bytearray index out of range")
    vt = V.Int.unwrap(v)
    old_arr = o.arr
    new_arr = _named(ctx, z3.Store(o.arr, idx, vt), "stored")
    r = info(ctx, vt)
    if r is not None and r[0] in ("setbit", "clearbit") and z3.is_select(r[1][0]) and r[1][0].arg(0).eq(old_arr) \
            and z3.simplify(r[1][0].arg(1) == idx).eq(z3.BoolVal(True)):
        setbit_facts(lib, ctx, old_arr, new_arr, n, idx, r[2], r[1][1] if r[0] == "setbit" else z3.IntVal(0), vt)
    if ctx.decide(z3.Or(vt < 0, vt > 255)):
        raise lib.raise_ext("ValueError", "byte must be in range(0, 256)")
    o.arr = new_arr
    o.view = None


def setbit_facts(lib, ctx, d, d2, n, q, r, b, v):
    """d2 = d with byte q replaced by  d[q] | (b << r)  (b = 1)  or  d[q] & ~(1 << r)  (b = 0), where every bit of d from
       position p = 8q + r upwards (inside the buffer) is zero.  Lean Bits.set_bit_read / set_bit_below / set_bit_tail /
       set_bit_byte_range: the new byte is a byte; a read that ends with bit p gains b * 2^(k-1); reads that end at or
       before p are unchanged; every bit above p is still zero."""
    p = 8 * q + r
    hyp = z3.And(q >= 0, q < n, r >= 0, r <= 7, z3.Or(b == 0, b == 1), z3.Select(d, q) >= 0, z3.Select(d, q) <= 255,
                 bt.bitsval_f(d, n, p, 8 * n - p) == 0)
    bt.USED.add("bitsval-setbit")
    off, k = z3.FreshConst(I, "off"), z3.FreshConst(I, "k")
    ctx.pc.append(z3.Implies(hyp, z3.And(v >= 0, v <= 255)))
    ctx.add_axiom(z3.ForAll([off, k], z3.Implies(z3.And(hyp, off >= 0, k >= 1, off + k == p + 1),
                                                 bt.bitsval_f(d2, n, off, k) == bt.bitsval_f(d, n, off, k - 1) + b * bt.pow2_f(k - 1)),
                            patterns=[bt.bitsval_f(d2, n, off, k)]))
    ctx.add_axiom(z3.ForAll([off, k], z3.Implies(z3.And(hyp, off >= 0, k >= 0, off + k <= p),
                                                 bt.bitsval_f(d2, n, off, k) == bt.bitsval_f(d, n, off, k)),
                            patterns=[bt.bitsval_f(d2, n, off, k)]))
    ctx.pc.append(z3.Implies(hyp, bt.bitsval_f(d2, n, p + 1, 8 * n - p - 1) == 0))


# ---------------------------------------------------------------------------------------------- constructors
def bi_bytes(lib, ctx, x=None, *a):
    if x is None:
        return from_concrete(ctx, b"")
    if isinstance(x, BytesV):
        return BytesV(x.arr, x.length, mutable=False, view=x.view, concrete=x.concrete)
    if isinstance(x, V.PyList):
        return list_to_bytes(lib, ctx, x.items, False)
    if isinstance(x, V.Opaque) and x.what.startswith("container built in a loop"):
        # ASSUMED: the list holds integers; bytes() raises ValueError unless all of them are in 0..255
        if ctx.choose(2) == 1:
            raise lib.raise_ext("ValueError", "bytes must be in range(0, 256)")
        kind = V.Bytes
        return ctx.fresh_kind("bytes_of_list", kind)
    raise EngineLimit("bytes(%r)" % (x,))


def bi_bytearray(lib, ctx, x=None, *a):
    if x is None:
        return from_concrete(ctx, b"", mutable=True)
    if isinstance(x, BytesV):
        return BytesV(x.arr, x.length, mutable=True, view=x.view)
    raise EngineLimit("bytearray(%r)" % (x,))


def bi_memoryview(lib, ctx, x):
    raise EngineLimit("memoryview()")


def list_to_bytes(lib, ctx, items, mutable):
    arr = z3.K(I, z3.IntVal(0))
    for i, x in enumerate(items):
        xt = V.Int.unwrap(x)
        if ctx.decide(z3.Or(xt < 0, xt > 255)):
            raise lib.raise_ext("ValueError", "bytes must be in range(0, 256)")
        arr = z3.Store(arr, i, xt)
    return BytesV(arr, z3.IntVal(len(items)), mutable=mutable)


# ---------------------------------------------------------------------------------------------- int <-> bytes
def bi_int_from_bytes(lib, ctx, b, byteorder="big", *, signed=False):
    if byteorder != "little" or signed is not False:
        raise EngineLimit("int.from_bytes other than unsigned little-endian")
    if not isinstance(b, BytesV):
        raise EngineLimit("int.from_bytes(%r)" % (b,))
    n = V.Int.unwrap(b.length)
    t = _in_spec(ctx, lambda: bt.bitsval_term(b.arr, n, z3.IntVal(0), 8 * n, unfold=False))
    bt.USED.add("from-bytes")
    if b.view is not None:
        base, blen, start, span = b.view
        src = _in_spec(ctx, lambda: bt.bitsval_term(base, blen, 8 * start, 8 * n, unfold=False))
        bt.USED.add("bitsval-view")
        ctx.pc.append(z3.Implies(z3.And(start >= 0, n <= span), t == src))
    return t


def m_int_to_bytes(lib, ctx, v, length=1, byteorder="big", *, signed=False):
    if byteorder != "little" or signed is not False:
        raise EngineLimit("int.to_bytes other than unsigned little-endian")
    vt, lt = V.Int.unwrap(v), V.Int.unwrap(length)
    if ctx.decide(lt < 0):
        raise lib.raise_ext("ValueError", "length argument must be non-negative")
    _in_spec(ctx, lambda: bt.pow2_facts(8 * lt))
    if ctx.decide(z3.Or(vt < 0, vt >= bt.pow2(z3.simplify(8 * lt)))):
        raise lib.raise_ext("OverflowError", "int too big to convert / negative")
    arr = _fresh_arr(ctx, "to_bytes")
    t = _in_spec(ctx, lambda: bt.bitsval_term(arr, lt, z3.IntVal(0), 8 * lt, unfold=False))
    bt.USED.add("from-bytes")
    ctx.pc.append(t == vt)
    i = z3.FreshConst(I, "i")
    ctx.add_axiom(z3.ForAll([i], z3.And(z3.Select(arr, i) >= 0, z3.Select(arr, i) <= 255), patterns=[z3.Select(arr, i)]))
    return BytesV(arr, lt)


# ---------------------------------------------------------------------------------------------- bytearray methods
def m_bytes_append(lib, ctx, o: BytesV, x):
    if not o.mutable:
        raise lib.raise_ext("AttributeError")
    lib._mutating(ctx, o)
    xt = V.Int.unwrap(x)
    if ctx.decide(z3.Or(xt < 0, xt > 255)):
        raise lib.raise_ext("ValueError", "byte must be in range(0, 256)")
    n = V.Int.unwrap(o.length)
    old = (o.arr, n)
    o.arr = _named(ctx, z3.Store(o.arr, n, xt), "appended")
    o.length = _named(ctx, n + 1)
    o.view = None
    is_zero = z3.is_int_value(z3.simplify(xt)) and z3.simplify(xt).as_long() == 0
    append_facts(lib, ctx, old, (o.arr, o.length), n, z3.IntVal(1), z3.Store(z3.K(I, z3.IntVal(0)), 0, xt), zeros=is_zero)


def m_bytes_extend(lib, ctx, o: BytesV, xs):
    if not o.mutable:
        raise lib.raise_ext("AttributeError")
    lib._mutating(ctx, o)
    if not isinstance(xs, BytesV):
        raise EngineLimit("bytearray.extend(%r)" % (xs,))
    n = V.Int.unwrap(o.length)
    m = V.Int.unwrap(xs.length)
    if _len_is_zero(xs):
        return
    old = (o.arr, n)
    arr = _fresh_arr(ctx, "extended")
    i = z3.FreshConst(I, "i")
    ctx.add_axiom(z3.ForAll([i], z3.Select(arr, i) == z3.If(i < n, z3.Select(o.arr, i), z3.Select(xs.arr, i - n)),
                            patterns=[z3.Select(arr, i)]))
    o.arr = arr
    o.length = _named(ctx, n + m)
    o.view = None
    append_facts(lib, ctx, old, (o.arr, o.length), n, m, xs.arr, zeros=is_zeros(xs))


def append_facts(lib, ctx, old, new, n, m, tail_arr, zeros=False):
    """Ground/pointwise consequences of new = old ++ tail (Lean Bits.bitsval_append_left / _right / zero_ext):
         reads that end inside the old bytes are unchanged; a read of 8*m bits at the old end reads the tail."""
    oarr, olen = old
    narr, nlen = new
    p, k = z3.FreshConst(I, "p"), z3.FreshConst(I, "k")
    bt.USED.add("bitsval-append")
    inside = z3.And(p >= 0, k >= 0) if zeros else z3.And(p >= 0, k >= 0, p + k <= 8 * olen)
    ctx.add_axiom(z3.ForAll([p, k], z3.Implies(inside, bt.bitsval_f(narr, nlen, p, k) == bt.bitsval_f(oarr, olen, p, k)),
                            patterns=[bt.bitsval_f(narr, nlen, p, k)]))
    if not zeros:
        ctx.pc.append(z3.Implies(m >= 0, bt.bitsval_f(narr, nlen, 8 * olen, 8 * m) == bt.bitsval_f(tail_arr, m, z3.IntVal(0), 8 * m)))


def m_bytes_decode(lib, ctx, o: BytesV, enc="utf-8"):
    # ASSUMED: bytes.decode('utf-8') returns a str or raises UnicodeDecodeError (a ValueError)
    if ctx.choose(2) == 1:
        raise lib.raise_ext("UnicodeDecodeError")
    return ctx.fresh("decoded", z3.StringSort())
