"""
Discharging obligations: each obligation becomes one SMT-LIB query (prelude + path axioms + path condition + negated
goal); `unsat` = discharged.  Queries run in a pool of external solver processes (z3 5.1 first; `unknown`/timeouts are
retried with cvc5 1.0 and z3 4.8); the thorough tier re-checks every query with a second back end.
"""
from __future__ import annotations
import hashlib
import os
import subprocess
import tempfile
import time
import z3
from concurrent.futures import ThreadPoolExecutor
from typing import Any, Dict, List, Optional, Tuple

CACHE = os.path.join(os.path.dirname(os.path.dirname(os.path.abspath(__file__))), ".cache", "smt")

Z3_NEW = "z3-new"
Z3_OLD = "/usr/bin/z3"
CVC5 = "/usr/bin/cvc5"


class Result:
    __slots__ = ("name", "status", "backend", "time", "detail", "smt2_path", "func", "kind", "info", "path", "attempts")

    def __init__(self, name):
        self.name = name
        self.status = "unknown"
        self.backend = ""
        self.time = 0.0
        self.detail = ""
        self.smt2_path = ""
        self.func = ""
        self.kind = ""
        self.info = {}
        self.path = []
        self.attempts = []

    @property
    def discharged(self):
        return self.status == "unsat"


def to_smt2(prelude, ob) -> str:
    s = z3.Solver()
    if hasattr(prelude, "relevant_prelude"):
        prelude = prelude.relevant_prelude(list(ob.axioms) + list(ob.pc) + [ob.goal])
    for a in prelude:
        s.add(a)
    for a in ob.axioms:
        s.add(a)
    for p in ob.pc:
        s.add(p)
    s.add(z3.Not(ob.goal))
    return s.to_smt2()


def _run(cmd: List[str], timeout: float) -> Tuple[str, str, float]:
    t0 = time.time()
    try:
        p = subprocess.run(cmd, stdout=subprocess.PIPE, stderr=subprocess.PIPE, timeout=timeout + 5, text=True,
                           close_fds=False)
        out = p.stdout.strip()
        err = p.stderr.strip()
    except subprocess.TimeoutExpired:
        return "timeout", "", time.time() - t0
    first = out.splitlines()[0].strip() if out else ""
    if first in ("sat", "unsat", "unknown"):
        return first, out[:400], time.time() - t0
    if "timeout" in out or "timeout" in err:
        return "timeout", (out + err)[:400], time.time() - t0
    return "error", (out + " " + err)[:400], time.time() - t0


def solve_file(path: str, timeout: float, backends: List[str]) -> Tuple[str, str, float, str, list]:
    attempts = []
    final = ("unknown", "", 0.0, "")
    for be in backends:
        if be == "z3":
            cmd = [Z3_NEW, "-T:%d" % int(timeout), path]
        elif be == "z3-4.8":
            cmd = [Z3_OLD, "-T:%d" % int(timeout), path]
        elif be == "cvc5":
            cmd = [CVC5, "--tlimit=%d" % int(timeout * 1000), "--full-saturate-quant", path]
        else:
            continue
        st, detail, t = _run(cmd, timeout)
        attempts.append((be, st, round(t, 3)))
        if st in ("unsat", "sat"):
            return st, be, t, detail, attempts
        final = (st, be, t, detail)
    return final[0], final[1], final[2], final[3], attempts


def discharge(prelude: List[Any], obligations: List[Any], timeout: float = 10.0, jobs: int = 16,
              backends: Optional[List[str]] = None, tag: str = "run") -> List[Result]:
    backends = backends or ["z3", "cvc5", "z3-4.8"]
    outdir = os.path.join(CACHE, tag)
    os.makedirs(outdir, exist_ok=True)
    results: List[Result] = []
    work = []
    seen: Dict[str, Result] = {}
    for idx, ob in enumerate(obligations):
        r = Result(ob.name)
        r.func, r.kind, r.info, r.path = ob.func, ob.kind, ob.info, ob.path
        results.append(r)
        goal = z3.simplify(ob.goal)
        if z3.is_true(goal):
            r.status, r.backend = "unsat", "trivial"
            continue
        text = to_smt2(prelude, ob)
        h = hashlib.sha256(text.encode()).hexdigest()[:20]
        if h in seen:
            r.status = None  # filled from the twin afterwards
            r.detail = h
            continue
        seen[h] = r
        path = os.path.join(outdir, "%s.smt2" % h)
        with open(path, "w") as f:
            f.write(text)
        r.smt2_path = path
        r.detail = h
        work.append((r, path))

    def job(item):
        r, path = item
        st, be, t, detail, attempts = solve_file(path, timeout, backends)
        r.status, r.backend, r.time, r.attempts = st, be, t, attempts
        if st != "unsat":
            r.detail = detail
        return r

    if work:
        with ThreadPoolExecutor(max_workers=jobs) as ex:
            list(ex.map(job, work))
    for r in results:
        if r.status is None:
            twin = seen[r.detail]
            r.status, r.backend, r.time, r.smt2_path = twin.status, twin.backend + "(dup)", 0.0, twin.smt2_path
            r.attempts = twin.attempts
    return results


def model_for(prelude: List[Any], ob, timeout_ms: int = 10000):
    """Re-solve in process to obtain a model of a failed obligation (counterexample candidate)."""
    s = z3.Solver()
    s.set("timeout", timeout_ms)
    if hasattr(prelude, "relevant_prelude"):
        prelude = prelude.relevant_prelude(list(ob.axioms) + list(ob.pc) + [ob.goal])
    for a in prelude:
        s.add(a)
    for a in ob.axioms:
        s.add(a)
    for p in ob.pc:
        s.add(p)
    s.add(z3.Not(ob.goal))
    r = s.check()
    if r == z3.sat:
        return "sat", s.model()
    return str(r), None
