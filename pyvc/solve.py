"""
Discharging obligations: each obligation becomes one SMT-LIB query (prelude + path axioms + path condition + negated
goal); `unsat` = discharged.  Queries run in a pool of external solver processes (z3 5.1 first; `unknown`/timeouts are
retried with cvc5 1.0 and z3 4.8); the thorough tier re-checks every query with a second back end.
"""
from __future__ import annotations
import hashlib
import os
import subprocess
import tempfile
import time
import z3
from concurrent.futures import ThreadPoolExecutor
from typing import Any, Dict, List, Optional, Tuple

CACHE = os.path.join(os.path.dirname(os.path.dirname(os.path.abspath(__file__))), ".cache", "smt")

Z3_NEW = "z3-new"
Z3_OLD = "/usr/bin/z3"
CVC5 = "/usr/bin/cvc5"


class Result:
    __slots__ = ("name", "status", "backend", "time", "detail", "smt2_path", "func", "kind", "info", "path", "attempts")

    def __init__(self, name):
        self.name = name
        self.status = "unknown"
        self.backend = ""
        self.time = 0.0
        self.detail = ""
        self.smt2_path = ""
        self.func = ""
        self.kind = ""
        self.info = {}
        self.path = []
        self.attempts = []

    @property
    def discharged(self):
        return self.status == "unsat"


def _consts_and_funcs(t):
    from .symexec import symbols_of

    out = set(symbols_of(t))
    seen = set()
    stack = [t]
    while stack:
        x = stack.pop()
        if x.get_id() in seen:
            continue
        seen.add(x.get_id())
        if z3.is_quantifier(x):
            stack.append(x.body())
            continue
        if z3.is_const(x) and x.decl().kind() == z3.Z3_OP_UNINTERPRETED:
            out.add("c:" + x.decl().name())
        stack.extend(x.children())
    return out


_CF_CACHE = {}


def consts_and_funcs(t):
    k = t.get_id()
    if k not in _CF_CACHE:
        _CF_CACHE[k] = (_consts_and_funcs(t), t)
    return _CF_CACHE[k][0]


def slice_pc_strict(ob):
    """Tight slice: only those conjuncts whose function symbols all occur in the goal already (plain arithmetic facts
       about the goal's constants, and facts about the very functions the goal mentions)."""
    gs = consts_and_funcs(ob.goal)
    gfun = set(x for x in gs if not x.startswith("c:"))
    pcs = []
    for p in ob.pc:
        ps = consts_and_funcs(p)
        pf = set(x for x in ps if not x.startswith("c:"))
        if pf <= gfun and (ps & gs) and not z3.is_quantifier(p):
            pcs.append(p)
    return pcs, []


def slice_pc_quant(ob, depth=2):
    """Quantifier-directed slice: the quantified path facts / axioms that (within `depth` steps) share a function symbol
       with the goal, plus the ground conjuncts that only speak about the function symbols collected that way.  The
       prelude is then restricted to what these formulas can trigger.  (Dropping assumptions only weakens the query.)"""
    gs = consts_and_funcs(ob.goal)
    funs = set(x for x in gs if not x.startswith("c:"))
    quant = [p for p in list(ob.pc) + list(ob.axioms) if z3.is_quantifier(p)]
    chosen = []
    chosen_ids = set()
    for _ in range(depth):
        new = set()
        for qf in quant:
            if qf.get_id() in chosen_ids:
                continue
            fs = set(x for x in consts_and_funcs(qf) if not x.startswith("c:"))
            if fs & funs:
                chosen.append(qf)
                chosen_ids.add(qf.get_id())
                new |= fs
        if not new - funs:
            funs |= new
            break
        funs |= new
    syms = set(gs)
    for qf in chosen:
        syms |= consts_and_funcs(qf)
    pcs = []
    for p in ob.pc:
        if z3.is_quantifier(p):
            continue
        ps = consts_and_funcs(p)
        pf = set(x for x in ps if not x.startswith("c:"))
        if pf <= funs and (ps & syms):
            pcs.append(p)
    pc_q = [qf for qf in chosen if any(qf.get_id() == p.get_id() for p in ob.pc)]
    ax_q = [qf for qf in chosen if not any(qf.get_id() == p.get_id() for p in ob.pc)]
    return pcs + pc_q, ax_q


def slice_pc(ob):
    """Goal-directed slice of the path condition: conjuncts (transitively) sharing uninterpreted symbols with the goal.
       Dropping assumptions only weakens the query, so `unsat` of the slice is a valid discharge."""
    syms = set(consts_and_funcs(ob.goal))
    items = [(p, consts_and_funcs(p)) for p in list(ob.pc) + list(ob.axioms)]
    chosen = [False] * len(items)
    changed = True
    while changed:
        changed = False
        for i, (p, ps) in enumerate(items):
            if not chosen[i] and (ps & syms):
                chosen[i] = True
                if not z3.is_quantifier(p):
                    new = ps - syms
                    if new:
                        syms |= new
                        changed = True
    pcs = [p for (p, _), c in zip(items[:len(ob.pc)], chosen[:len(ob.pc)]) if c]
    axs = [p for (p, _), c in zip(items[len(ob.pc):], chosen[len(ob.pc):]) if c]
    return pcs, axs


_STR_CACHE = {}


def _has_string(t) -> bool:
    k = t.get_id()
    if k in _STR_CACHE:
        return _STR_CACHE[k][0]
    r = False
    seen, stack = set(), [t]
    while stack:
        x = stack.pop()
        if x.get_id() in seen:
            continue
        seen.add(x.get_id())
        if z3.is_quantifier(x):
            stack.append(x.body())
            continue
        try:
            sk = x.sort().kind()
        except z3.Z3Exception:  # pragma: no cover
            sk = None
        if sk in (z3.Z3_SEQ_SORT, z3.Z3_RE_SORT):
            r = True
            break
        stack.extend(x.children())
    _STR_CACHE[k] = (r, t)
    return r


def has_string_terms(ob) -> bool:
    """Does the goal or the path condition of an obligation mention a string / regular-expression term?"""
    return _has_string(ob.goal) or any(_has_string(p) for p in ob.pc)


def to_smt2(prelude, ob, sliced=False) -> str:
    s = z3.Solver()
    pc, axioms = (list(ob.pc), list(ob.axioms))
    if sliced == "ground":
        # quantifier-free part of the path condition only, no prelude: pure ground reasoning (congruence + arithmetic)
        from .symexec import has_quantifier

        sg = z3.Solver()
        for p in list(ob.pc) + list(ob.axioms):
            if not has_quantifier(p):
                sg.add(p)
        sg.add(z3.Not(ob.goal))
        return sg.to_smt2()
    if sliced == "quant":
        pc, axioms = slice_pc_quant(ob)
    elif sliced == "strict":
        pc, axioms = slice_pc_strict(ob)
    elif sliced:
        pc, axioms = slice_pc(ob)
    if hasattr(prelude, "relevant_prelude"):
        prelude = prelude.relevant_prelude(axioms + pc + [ob.goal])
    weighted = []
    for a in prelude:
        if z3.is_quantifier(a) and a.weight() != 1:
            weighted.append(a)  # the benchmark printer drops :weight annotations: these are printed separately
        else:
            s.add(a)
    for a in axioms:
        s.add(a)
    for p in pc:
        s.add(p)
    s.add(z3.Not(ob.goal))
    return with_weighted(s.to_smt2(), weighted)


def with_weighted(text: str, weighted) -> str:
    """Append quantified axioms that carry a :weight annotation (printed with sexpr, which keeps the annotation) to an
    SMT-LIB benchmark text, declaring the function symbols that only they use."""
    if not weighted:
        return text
    import re

    declared = set(re.findall(r"\(declare-fun ([^ ]+) ", text))
    decls, asserts = [], []
    for a in weighted:
        seen, stack = set(), [a.body()]
        while stack:
            t = stack.pop()
            if t.get_id() in seen:
                continue
            seen.add(t.get_id())
            if z3.is_app(t) and t.decl().kind() == z3.Z3_OP_UNINTERPRETED:
                nm = t.decl().name()
                if nm not in declared and "|%s|" % nm not in declared:
                    declared.add(nm)
                    decls.append(t.decl().sexpr())
            if z3.is_quantifier(t):
                stack.append(t.body())
            else:
                stack.extend(t.children())
        asserts.append("(assert %s)" % a.sexpr())
    idx = text.rfind("(check-sat)")
    return text[:idx] + "\n".join(decls + asserts) + "\n" + text[idx:]


def _run(cmd: List[str], timeout: float) -> Tuple[str, str, float]:
    t0 = time.time()
    try:
        p = subprocess.run(cmd, stdout=subprocess.PIPE, stderr=subprocess.PIPE, timeout=timeout + 5, text=True,
                           close_fds=False)
        out = p.stdout.strip()
        err = p.stderr.strip()
    except subprocess.TimeoutExpired:
        return "timeout", "", time.time() - t0
    first = out.splitlines()[0].strip() if out else ""
    if first in ("sat", "unsat", "unknown"):
        return first, out[:400], time.time() - t0
    if "timeout" in out or "timeout" in err:
        return "timeout", (out + err)[:400], time.time() - t0
    return "error", (out + " " + err)[:400], time.time() - t0


def solve_file(path: str, timeout: float, backends: List[str]) -> Tuple[str, str, float, str, list]:
    attempts = []
    final = ("unknown", "", 0.0, "")
    for be in backends:
        if be == "z3":
            cmd = [Z3_NEW, "-T:%d" % int(timeout), path]
        elif be == "z3-4.8":
            cmd = [Z3_OLD, "-T:%d" % int(timeout), path]
        elif be == "cvc5":
            cmd = [CVC5, "--tlimit=%d" % int(timeout * 1000), "--full-saturate-quant", "--strings-exp", path]
        else:
            continue
        st, detail, t = _run(cmd, timeout)
        attempts.append((be, st, round(t, 3)))
        if st in ("unsat", "sat"):
            return st, be, t, detail, attempts
        final = (st, be, t, detail)
    return final[0], final[1], final[2], final[3], attempts


def discharge(prelude: List[Any], obligations: List[Any], timeout: float = 10.0, jobs: int = 16,
              backends: Optional[List[str]] = None, tag: str = "run", drop_portfolio: bool = True) -> List[Result]:
    """Rounds: (1) strict goal-directed slice, (2) symbol-closure slice, (3) full query on the back-end portfolio,
       (4) for the stubborn ones a portfolio of weakened queries (one prelude axiom dropped).  Slices and weakened
       variants only drop assumptions, so their `unsat` is a valid discharge; `sat` is only believed for the full query."""
    backends = backends or ["z3", "cvc5", "z3-4.8"]
    jobs = int(os.environ.get("PYVC_JOBS", jobs))
    if os.environ.get("PYVC_REPO"):
        # runs on a scratch copy (mutants, patched trees) keep their queries apart from the runs on /repo
        tag = "%s@%s" % (tag, os.path.basename(os.environ["PYVC_REPO"].rstrip("/")))
    outdir = os.path.join(CACHE, tag)
    if os.path.isdir(outdir):
        import shutil

        shutil.rmtree(outdir, ignore_errors=True)
    os.makedirs(outdir, exist_ok=True)
    results: List[Result] = []
    open_items = []
    for idx, ob in enumerate(obligations):
        r = Result(ob.name)
        r.func, r.kind, r.info, r.path = ob.func, ob.kind, ob.info, ob.path
        results.append(r)
        goal = z3.simplify(ob.goal)
        if z3.is_true(goal):
            r.status, r.backend = "unsat", "trivial"
            continue
        open_items.append((idx, r, ob))

    def write(idx, text, suffix):
        path = os.path.join(outdir, "%05d%s.smt2" % (idx, suffix))
        with open(path, "w") as f:
            f.write(text)
        return path

    def run_round(items, mode, per_timeout, bes, label):
        work = []
        for idx, r, ob in items:
            text = to_smt2(prelude, ob, sliced=mode)
            work.append((idx, r, ob, write(idx, text, {"ground": ".ground", "strict": ".strict", "quant": ".quant", True: ".sliced", False: ""}[mode])))

        def job(item):
            idx, r, ob, path = item
            st, be, t, detail, attempts = solve_file(path, per_timeout, bes)
            r.attempts = list(r.attempts) + attempts
            r.time += t
            if st == "unsat":
                r.status, r.backend = "unsat", be + label
            elif mode is False:
                r.status, r.backend, r.detail = st, be, detail
                r.smt2_path = path
            return r

        if work:
            with ThreadPoolExecutor(max_workers=jobs) as ex:
                list(ex.map(job, work))
        return [(idx, r, ob) for idx, r, ob, _ in work if r.status != "unsat"]

    vac_items = [it for it in open_items if it[1].kind.startswith("vacuity")]
    open_items = [it for it in open_items if not it[1].kind.startswith("vacuity")]
    # vacuity guards (goal False): only a contradiction (`unsat`) matters; one quick full query each
    run_round(vac_items, False, min(timeout, 2.0), backends[:1], "")
    direct = []
    if os.environ.get("PYVC_NO_SLICING") == "1":
        remaining = open_items
    else:
        remaining = run_round(open_items, "ground", min(timeout, 1.0), backends[:1], "(ground-slice)")
        if os.environ.get("PYVC_STRING_DIRECT") == "1":
            # obligations over strings / regular expressions: the symbol-directed slices drop the membership facts that
            # make them easy (and then run into their time limit); after the ground round they go straight to the full query
            direct = [it for it in remaining if has_string_terms(it[2])]
            remaining = [it for it in remaining if not has_string_terms(it[2])]
        remaining = run_round(remaining, "strict", min(timeout, 1.5), backends[:1], "(strict-slice)")
        remaining = run_round(remaining, "quant", min(timeout, 2.5), backends[:1], "(quantifier-slice)")
        remaining = run_round(remaining, True, min(timeout, 4.0), [b for b in backends if b in ("z3", "cvc5")], "(sliced)")
    remaining = run_round(direct + remaining, False, timeout, backends, "")
    for idx, r, ob in open_items:
        if not r.smt2_path:
            for suf in ("", ".sliced", ".strict"):
                pth = os.path.join(outdir, "%05d%s.smt2" % (idx, suf))
                if os.path.exists(pth):
                    r.smt2_path = pth
                    break
    stubborn = [(idx, r, ob) for idx, r, ob in remaining if r.status not in ("unsat", "sat")]
    if os.environ.get("PYVC_STRING_DIRECT") == "1":
        # the weakened variants help when a set-theory / class axiom misleads the instantiation; they do not help string
        # obligations, where they only multiply the time an open obligation costs
        stubborn = [it for it in stubborn if not has_string_terms(it[2])]
    # budget: the weakened-query portfolio costs minutes per obligation; when many obligations are open the tree has a real
    # problem and the portfolio is pointless - it is run for at most PYVC_DROP_MAX (default 4) of them
    stubborn = stubborn[:int(os.environ.get("PYVC_DROP_MAX", "4"))]
    if stubborn and drop_portfolio and os.environ.get("PYVC_NO_DROP") != "1":
        variants = []
        for idx, r, ob in stubborn:
            pre = prelude.relevant_prelude(list(ob.axioms) + list(ob.pc) + [ob.goal]) \
                if hasattr(prelude, "relevant_prelude") else list(prelude)
            for k in range(len(pre)):
                sv = z3.Solver()
                wv = []
                for j, a in enumerate(pre):
                    if j != k:
                        if z3.is_quantifier(a) and a.weight() != 1:
                            wv.append(a)
                        else:
                            sv.add(a)
                for a in ob.axioms:
                    sv.add(a)
                for pz in ob.pc:
                    sv.add(pz)
                sv.add(z3.Not(ob.goal))
                variants.append((r, write(idx, with_weighted(sv.to_smt2(), wv), ".drop%d" % k), k))

        def vjob(item):
            r, vp, k = item
            if r.status == "unsat":
                return
            st, be, t, detail, attempts = solve_file(vp, min(timeout, 5.0), ["z3", "cvc5"])
            if st == "unsat" and r.status != "unsat":
                r.status, r.backend = "unsat", be + "(weakened: one prelude axiom dropped)"
                r.attempts = list(r.attempts) + attempts

        with ThreadPoolExecutor(max_workers=jobs) as ex:
            list(ex.map(vjob, variants))
    return results


def model_for(prelude: List[Any], ob, timeout_ms: int = 10000):
    """Re-solve in process to obtain a model of a failed obligation (counterexample candidate)."""
    s = z3.Solver()
    s.set("timeout", timeout_ms)
    if hasattr(prelude, "relevant_prelude"):
        prelude = prelude.relevant_prelude(list(ob.axioms) + list(ob.pc) + [ob.goal])
    for a in prelude:
        s.add(a)
    for a in ob.axioms:
        s.add(a)
    for p in ob.pc:
        s.add(p)
    s.add(z3.Not(ob.goal))
    r = s.check()
    if r == z3.sat:
        return "sat", s.model()
    return str(r), None
