#!/usr/bin/env python3
"""usage: tools/harmless_eval.py <dir with k.diff files> [out.json]
For every behaviour-preserving patch: applies it to a scratch copy of /repo and runs the checks of the properties anchored in
the files it touches (properties.jsonl anchors); a check must exit 0 (exit 1 = false alarm, exit 2 = undecided)."""
import glob
import json
import os
import re
import shutil
import subprocess
import sys
import tempfile

ROOT = os.path.dirname(os.path.dirname(os.path.abspath(__file__)))
props = [json.loads(l) for l in open(os.path.join(ROOT, "properties.jsonl"))]
claimed = {c["property_id"] for c in json.load(open(os.path.join(ROOT, "MANIFEST.json")))["checks"]}
src = sys.argv[1]
out_path = sys.argv[2] if len(sys.argv) > 2 else os.path.join(ROOT, "seeded", "harmless_results.json")
results = []
for diff in sorted(glob.glob(os.path.join(src, "*.diff")), key=lambda p: int(re.sub(r"\D", "", os.path.basename(p)) or 0)):
    files = re.findall(r"^\+\+\+ b/(\S+)", open(diff).read(), re.M)
    todo = sorted(p["id"] for p in props if p["id"] in claimed and any(f in p["anchors"].get("files", []) for f in files))
    d = tempfile.mkdtemp(prefix="harmless-")
    shutil.copytree("/repo/pydsdl", os.path.join(d, "pydsdl"))
    r = subprocess.run(["patch", "-s", "-p1", "-i", diff], cwd=d)
    entry = {"patch": os.path.basename(diff), "files": files, "checks": {}}
    if r.returncode != 0:
        entry["error"] = "patch does not apply"
    else:
        for pid in todo:
            env = dict(os.environ, PYVC_REPO=d)
            p = subprocess.run(["./check", pid, "--tier", "quick"], cwd=ROOT, env=env, stdout=subprocess.PIPE,
                               stderr=subprocess.STDOUT, text=True, timeout=3000)
            lines = [l for l in p.stdout.splitlines() if l.startswith(("VIOLATION", "UNDECIDED", "ENGINE-LIMIT", "BROKEN"))]
            entry["checks"][pid] = {"exit": p.returncode, "lines": [l[:260] for l in lines[:4]]}
            print(os.path.basename(diff), pid, "exit", p.returncode, flush=True)
    shutil.rmtree(d, ignore_errors=True)
    results.append(entry)
    json.dump(results, open(out_path, "w"), indent=1)
bad = [(e["patch"], k, v["exit"]) for e in results for k, v in e["checks"].items() if v["exit"] != 0]
print("non-zero:", bad)
