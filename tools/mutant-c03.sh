#!/bin/bash
# usage: tools/mutant-c03.sh PROP file 'sed-expression' [lines]  -> runs the check of THIS worktree on a scratch copy of /repo
set -u
PROP=$1; FILE=$2; EXPR=$3
ROOT="$(cd "$(dirname "$0")/.." && pwd)"
D=$(mktemp -d /tmp/c03-mut.XXXXXX)
cp -r /repo/pydsdl $D/
sed -i "$EXPR" $D/pydsdl/$FILE
if diff -q /repo/pydsdl/$FILE $D/pydsdl/$FILE >/dev/null; then echo "MUTATION DID NOT APPLY"; rm -rf $D; exit 9; fi
cd "$ROOT" && PYVC_JOBS=${PYVC_JOBS:-5} PYVC_REPO=$D timeout 900 ./check $PROP --timeout ${MUT_TIMEOUT:-3} 2>&1 | grep -v "^WARNING" | grep "VIOLATION\|UNDECIDED\|ENGINE-LIMIT\|BROKEN\|KNOWN\|: [0-9]*/[0-9]* obl" | cut -c1-220 | head -${4:-6}
rm -rf $D
