#!/bin/bash
cd "$(dirname "$0")/.."
export PYVC_JOBS=${PYVC_JOBS:-5}
# Spellings of the selection in resolve_versioned_data_type: HARMLESS must exit 0, MUST-FAIL must exit 1.
variant() {  # name replacement-text checks...
  D=$(mktemp -d /tmp/c09-var.XXXXXX); cp -r /repo/pydsdl $D/
  python3 - "$D" "$2" <<'PY'
import sys
D, new = sys.argv[1], sys.argv[2]
p=D+"/pydsdl/_data_type_builder.py"; s=open(p).read()
i=s.index('        found = list(\n            filter(')
j=s.index('        if not found:', i)
s=s[:i]+new.replace("\\n","\n")+s[j:]
open(p,"w").write(s)
PY
  echo "--- $1"
  for c in $3; do PYVC_REPO=$D timeout 900 ./check $c 2>&1 | grep -v "^WARNING\|^VACUOUS\|^UNDECIDED: baseline" | tail -3 | cut -c1-210; done
  rm -rf $D
}
variant "HARMLESS list comprehension with if" '        found = [d for d in self._lookup_definitions if d.full_name.lower() == full_name.lower() and d.version == version]\n' "C19 C09"
variant "HARMLESS for loop appending under if" '        found = []\n        for cand in self._lookup_definitions:\n            if cand.version == version and cand.full_name.lower() == full_name.lower():\n                found.append(cand)\n' "C19"
variant "HARMLESS generator + list" '        found = list(d for d in self._lookup_definitions if d.full_name.lower() == full_name.lower() and d.version == version)\n' "C19"
variant "HARMLESS two if clauses" '        found = [d for d in self._lookup_definitions if d.full_name.lower() == full_name.lower() if d.version == version]\n' "C19 C09"
variant "MUST-FAIL predicate on the name only" '        found = [d for d in self._lookup_definitions if d.full_name.lower() == full_name.lower()]\n' "C19 C09"
variant "MUST-FAIL no predicate" '        found = [d for d in self._lookup_definitions]\n' "C19"
variant "MUST-FAIL filter on name only" '        found = list(filter(lambda d: d.full_name.lower() == full_name.lower(), self._lookup_definitions))\n' "C19"
variant "MUST-FAIL disjunction" '        found = [d for d in self._lookup_definitions if d.full_name.lower() == full_name.lower() or d.version == version]\n' "C19"
# next() over a generator with the selecting predicate (C19 only: it drops the ambiguity check, so it is not harmless for C09)
D=$(mktemp -d /tmp/c09-var.XXXXXX); cp -r /repo/pydsdl $D/
sed -i 's/^        target_definition = found\[0\]$/        target_definition = next(d for d in self._lookup_definitions if d.full_name.lower() == full_name.lower() and d.version == version)/' $D/pydsdl/_data_type_builder.py
echo "--- HARMLESS (C19) next() over a generator with the selecting predicate"
PYVC_REPO=$D timeout 900 ./check C19 2>&1 | grep -v "^WARNING\|^VACUOUS\|^UNDECIDED: baseline" | tail -2 | cut -c1-210
sed -i 's/ and d.version == version)$/)/' $D/pydsdl/_data_type_builder.py
echo "--- MUST-FAIL (C19) next() over a generator with a name-only predicate"
PYVC_REPO=$D timeout 900 ./check C19 2>&1 | grep -v "^WARNING\|^VACUOUS\|^UNDECIDED: baseline" | tail -2 | cut -c1-210
rm -rf $D
