#!/bin/bash
# usage: tools/seed_check.sh <dir with patch.diff> <PROP> [extra args of pyvc.cli, e.g. --debug fn --timeout 10]
# Runs ./check <PROP> against a scratch COPY of /repo/pydsdl with the patch applied (PYVC_REPO); /repo is not touched.
set -u
ROOT=$(cd "$(dirname "$0")/.." && pwd)
SEED=$(cd "$1" && pwd); PROP=$2; shift 2
D=$(mktemp -d /tmp/seedrepo.XXXXXX)
cp -r /repo/pydsdl "$D/"
( cd "$D" && patch -s -p1 < "$SEED/patch.diff" ) || { echo "patch does not apply"; rm -rf "$D"; exit 9; }
cd "$ROOT"
PYVC_REPO=$D PYVC_CACHE_TAG=seedchk-$$ timeout 3000 ./check $PROP "$@" 2>&1 | grep -v "^WARNING"; rc=${PIPESTATUS[0]}
rm -rf "$D"
echo "check exit=$rc"
exit $rc
