#!/bin/bash
# usage: tools/seed_recheck.sh <seed id under /verif/seeded> [PROP]
# Re-runs the property's check against a scratch copy of /repo with seeded/<id>/patch.diff applied and refreshes
# seeded/<id>/check_output.txt and the check_result of seeded/<id>/meta.json (confirmation data is left as it is).
set -u
ROOT=$(cd "$(dirname "$0")/.." && pwd)
ID=$1; DEST=$ROOT/seeded/$ID
PROP=${2:-$(python3 -c "import json;print(json.load(open('$DEST/meta.json'))['property'])")}
D=$(mktemp -d /tmp/seedrepo.XXXXXX)
cp -r /repo/pydsdl "$D/"
( cd "$D" && patch -s -p1 < "$DEST/patch.diff" ) || { echo "$ID: patch does not apply"; rm -rf "$D"; exit 9; }
cd "$ROOT"
out=$(PYVC_REPO=$D PYVC_CACHE_TAG=seed-$ID timeout 3000 ./check $PROP 2>&1); rc=$?
rm -rf "$D"
echo "$out" | grep -v "^WARNING" | grep "VIOLATION\|UNDECIDED\|ENGINE-LIMIT\|BROKEN\|obligations discharged" | cut -c1-400 | head -12 > "$DEST/check_output.txt"
python3 - "$DEST/meta.json" "$rc" "$PROP" <<'PY'
import json,sys
p,rc,prop=sys.argv[1:4]
m=json.load(open(p)); m["check_result"]={"property":prop,"exit":int(rc)}
json.dump(m,open(p,"w"),indent=1)
PY
echo "$ID $PROP exit=$rc $(head -1 $DEST/check_output.txt | cut -c1-200)"
