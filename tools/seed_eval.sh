#!/bin/bash
# usage: tools/seed_eval.sh <seed_dir> <PROP> <dest_id> <worktree>
# 1. confirms the seeded change in the scratch worktree (demo fails with it, passes without, test suite passes with it)
# 2. applies it to /repo, runs ./check <PROP>, undoes it
# 3. stores patch.diff, demo.py, meta.json (+ what we ran) under /verif/seeded/<dest_id>/
set -u
SEED=$1; PROP=$2; DEST=/verif/seeded/$3; WT=$4
mkdir -p "$DEST"
cd "$WT" || exit 9
git checkout -q -- . 
PYTHONPATH=$WT /venv/bin/python "$SEED/demo.py" >/dev/null 2>&1; clean_rc=$?
git apply "$SEED/patch.diff" || { echo "patch does not apply"; exit 9; }
PYTHONPATH=$WT /venv/bin/python "$SEED/demo.py" >/dev/null 2>&1; mut_rc=$?
tests=$(PYTHONPATH=$WT /venv/bin/python -m pytest -q -p no:cacheprovider --timeout=900 pydsdl 2>&1 | tail -1)
git checkout -q -- .
echo "demo clean rc=$clean_rc mutated rc=$mut_rc tests: $tests"
cd /verif
git -C /repo apply "$SEED/patch.diff" || { echo "patch does not apply to /repo"; exit 9; }
out=$(./check $PROP 2>&1); rc=$?; out=$(echo "$out" | grep -v "^WARNING")
git -C /repo checkout -q -- .
echo "$out" | tail -6
echo "check exit=$rc"
cp "$SEED/patch.diff" "$SEED/demo.py" "$DEST/" 
python3 - "$SEED/meta.json" "$DEST/meta.json" "$clean_rc" "$mut_rc" "$tests" "$rc" "$PROP" <<'PY'
import json,sys
src,dst,clean,mut,tests,rc,prop=sys.argv[1:8]
try: m=json.load(open(src))
except Exception: m={}
m.update({"confirmed":{"demo_exit_clean":int(clean),"demo_exit_with_change":int(mut),"test_suite_with_change":tests,
 "commands":["git apply patch.diff (scratch worktree)","PYTHONPATH=<wt> /venv/bin/python demo.py","PYTHONPATH=<wt> /venv/bin/python -m pytest -q pydsdl",
 "git -C /repo apply patch.diff; ./check %s; git -C /repo checkout -- ."%prop]},
 "check_result":{"property":prop,"exit":int(sys.argv[6])}})
json.dump(m,open(dst,"w"),indent=1)
PY
