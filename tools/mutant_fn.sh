#!/bin/bash
# usage: tools/mutant_fn.sh PROP file 'sed-expression' func-suffix
#   -> verifies only the named function(s) on a mutated scratch copy (fast variant of tools/mutant.sh for the working loop);
#      prints DETECTED (some obligation is not discharged) or SURVIVED.  MUTANT_BASE: tree to mutate (default /repo).
set -u
PROP=$1; FILE=$2; EXPR=$3; FUNC=$4; BASE=${MUTANT_BASE:-/repo}
D=$(mktemp -d /tmp/${PYVC_WORKER:-mut}-mutfn.XXXXXX)
cp -r $BASE/pydsdl $D/
sed -i "$EXPR" $D/pydsdl/$FILE
if diff -q $BASE/pydsdl/$FILE $D/pydsdl/$FILE >/dev/null; then echo "MUTATION DID NOT APPLY"; rm -rf $D; exit 9; fi
cd "$(dirname "$0")/.." || exit 3
OUT=$(PYVC_REPO=$D PYTHONPATH=$PWD:$D timeout 900 python3-vt -m pyvc.cli $PROP --debug "$FUNC" --timeout ${MUTANT_TIMEOUT:-5} 2>&1 | grep -v "^WARNING")
rm -rf $D
N=$(echo "$OUT" | grep -c "FAIL\|LIMIT")
S=$(echo "$OUT" | grep -c " sat ")
if [ "$N" -gt 0 ]; then
  echo "DETECTED ($N failing obligations, $S with a model): $(echo "$OUT" | grep "FAIL\|LIMIT" | head -2 | cut -c1-150 | tr '\n' '|')"
else
  echo "SURVIVED: $(echo "$OUT" | grep '^==' | cut -c1-120)"
fi
