#!/bin/bash
# usage: tools/seed_eval2.sh <seed_out_dir> <PROP> <dest_id> <worktree>
# Confirms a seeded change in its scratch worktree (demo passes clean, fails with the change, test suite passes with it),
# then runs ./check <PROP> against a scratch COPY of /repo with the change applied (PYVC_REPO; /repo itself is not touched),
# and stores patch.diff, demo.py, meta.json (+ what was run and the verdict) under /verif/seeded/<dest_id>/.
set -u
ROOT=$(cd "$(dirname "$0")/.." && pwd)
SEED=$1; PROP=$2; DEST=/verif/seeded/$3; WT=$4
mkdir -p "$DEST"
cd "$WT" || exit 9
git checkout -q -- .
PYTHONPATH=$WT timeout 600 /venv/bin/python "$SEED/demo.py" >/dev/null 2>&1; clean_rc=$?
git apply "$SEED/patch.diff" || { echo "patch does not apply"; exit 9; }
PYTHONPATH=$WT timeout 600 /venv/bin/python "$SEED/demo.py" >/dev/null 2>&1; mut_rc=$?
tests=$(PYTHONPATH=$WT timeout 1800 /venv/bin/python -m pytest -q -p no:cacheprovider --timeout=900 pydsdl 2>&1 | tail -1)
git checkout -q -- .
echo "demo clean rc=$clean_rc mutated rc=$mut_rc tests: $tests"
D=$(mktemp -d /tmp/seedrepo.XXXXXX)
cp -r /repo/pydsdl "$D/"
( cd "$D" && git init -q . >/dev/null 2>&1; patch -s -p1 < "$SEED/patch.diff" ) || { echo "patch does not apply to a copy of /repo"; rm -rf "$D"; exit 9; }
cd "$ROOT"
out=$(PYVC_REPO=$D PYVC_CACHE_TAG=seed-$3 timeout 3000 ./check $PROP 2>&1); rc=$?; out=$(echo "$out" | grep -v "^WARNING")
rm -rf "$D"
echo "$out" | grep "VIOLATION\|UNDECIDED\|ENGINE-LIMIT\|BROKEN\|obligations discharged" | cut -c1-260 | head -8
echo "check exit=$rc"
cp "$SEED/patch.diff" "$SEED/demo.py" "$DEST/"
echo "$out" | grep "VIOLATION\|UNDECIDED\|ENGINE-LIMIT\|BROKEN\|obligations discharged" | cut -c1-400 | head -12 > "$DEST/check_output.txt"
python3 - "$SEED/meta.json" "$DEST/meta.json" "$clean_rc" "$mut_rc" "$tests" "$rc" "$PROP" <<'PY'
import json,sys
src,dst,clean,mut,tests,rc,prop=sys.argv[1:8]
try: m=json.load(open(src))
except Exception: m={}
m.update({"confirmed":{"demo_exit_clean":int(clean),"demo_exit_with_change":int(mut),"test_suite_with_change":tests,
 "commands":["git apply patch.diff (scratch worktree)","PYTHONPATH=<wt> /venv/bin/python demo.py","PYTHONPATH=<wt> /venv/bin/python -m pytest -q pydsdl",
 "cp -r /repo/pydsdl <copy>; patch -p1 < patch.diff; PYVC_REPO=<copy> ./check %s   (same as: git -C /repo apply patch.diff; ./check %s; git -C /repo checkout -- .)"%(prop,prop)]},
 "check_result":{"property":prop,"exit":int(rc)}})
json.dump(m,open(dst,"w"),indent=1)
PY
