import os, shutil, subprocess, sys, tempfile

def run(name, edits, checks):
    D = tempfile.mkdtemp(prefix="c09-var.", dir="/tmp")
    shutil.copytree("/repo/pydsdl", D + "/pydsdl")
    for rel, fn in edits:
        p = D + "/pydsdl/" + rel
        s = open(p).read()
        s2 = fn(s)
        assert s2 != s, "edit did not apply: " + name
        open(p, "w").write(s2)
    print("--- " + name, flush=True)
    for c in checks:
        env = dict(os.environ, PYVC_REPO=D, PYVC_JOBS=os.environ.get("PYVC_JOBS", "5"))
        out = subprocess.run(["./check", c], cwd=os.path.dirname(os.path.dirname(os.path.abspath(__file__))), env=env, stdout=subprocess.PIPE, stderr=subprocess.STDOUT, text=True, timeout=1500).stdout
        lines = [l for l in out.splitlines() if not l.startswith(("WARNING", "VACUOUS", "UNDECIDED: baseline", "KNOWN-FINDING"))]
        print("\n".join(x[:230] for x in lines[-3:]), flush=True)
    shutil.rmtree(D, ignore_errors=True)

def rep(old, new, count=1):
    def f(s):
        assert old in s, old[:60]
        return s.replace(old, new, count)
    return f

def chain(*fs):
    def f(s):
        for g in fs:
            s = g(s)
        return s
    return f

which = sys.argv[1:] or ["all"]
if "all" in which or "h1" in which:
    run("HARMLESS from_first_in: path resolution extracted into a module-level helper", [("_dsdl_definition.py", chain(
        rep("""        if not dsdl_path.is_absolute():
            dsdl_path_resolved = (root_path.parent / dsdl_path).resolve(strict=False)
        else:
            dsdl_path_resolved = dsdl_path.resolve(strict=False)
        return cls(dsdl_path_resolved, root_path)
""", "        return cls(_resolve_dsdl_path_against_root(dsdl_path, root_path), root_path)\n"),
        rep("class DSDLDefinition(ReadableDSDLFile):", """def _resolve_dsdl_path_against_root(dsdl_path: Path, root_path: Path) -> Path:
    if not dsdl_path.is_absolute():
        return (root_path.parent / dsdl_path).resolve(strict=False)
    return dsdl_path.resolve(strict=False)


class DSDLDefinition(ReadableDSDLFile):""")))], ["C19", "C15"])
if "all" in which or "h2" in which:
    run("HARMLESS _read_definitions: registration extracted into _register_composite_type", [("_namespace_reader.py", chain(
        rep("""        if level == 0:

            direct.add(new_composite_type)
            try:
                transitive.remove(new_composite_type)
            except KeyError:
                pass
        else:
            transitive.add(new_composite_type)
""", "        _register_composite_type(new_composite_type, level, direct, transitive)\n"),
        rep("# pylint: disable=too-many-arguments\ndef _read_definitions(", """def _register_composite_type(new_composite_type, level, direct, transitive):  # type: ignore
    if level == 0:
        direct.add(new_composite_type)
        try:
            transitive.remove(new_composite_type)
        except KeyError:
            pass
    else:
        transitive.add(new_composite_type)


# pylint: disable=too-many-arguments
def _read_definitions(""")))], ["C19", "C10"])
if "all" in which or "m1" in which:
    run("MUST-FAIL _complete_read_function calls an extracted helper that reads every lookup definition", [("_namespace.py", chain(
        rep("    definitions = read_definitions(\n", "    _validate_all(lookup_dsdl_definitions, allow_unregulated_fixed_port_id)\n    definitions = read_definitions(\n"),
        rep("def _complete_read_function(", """def _validate_all(defs, allow):  # type: ignore
    for d in defs:
        d.read(defs, [], print, allow)


def _complete_read_function(""")))], ["C19"])
if "all" in which or "m2" in which:
    run("MUST-FAIL from_first_in: extracted helper opens the file", [("_dsdl_definition.py", chain(
        rep("        return cls(dsdl_path_resolved, root_path)\n", "        _peek(dsdl_path_resolved)\n        return cls(dsdl_path_resolved, root_path)\n"),
        rep("class DSDLDefinition(ReadableDSDLFile):", """def _peek(p: Path) -> None:
    with open(p) as f:
        f.read()


class DSDLDefinition(ReadableDSDLFile):""")))], ["C19"])
if "all" in which or "c16" in which:
    run("HARMLESS (C16) resolve_top_level_identifier: Set construction extracted into a private helper", [("_data_type_builder.py", chain(
        rep("            return _expression.Set(map(_expression.Rational, bls))\n        raise UndefinedIdentifierError", "            return _offset_as_set(bls)\n        raise UndefinedIdentifierError"),
        rep("class DataTypeBuilder(_parser.StatementStreamProcessor):", """def _offset_as_set(bls):  # type: ignore
    return _expression.Set(map(_expression.Rational, bls))


class DataTypeBuilder(_parser.StatementStreamProcessor):""")))], ["C16"])
    run("MUST-FAIL (C16) CompositeType.extent through an extracted helper that expands", [("_serializable/_composite.py", chain(
        rep("        return self.bit_length_set.max\n", "        return _largest(self.bit_length_set)\n"),
        rep("class CompositeType(SerializableType):", """def _largest(bls: BitLengthSet) -> int:
    return max(bls)


class CompositeType(SerializableType):""")))], ["C16"])
ANCHOR = "    @property\n    def full_name(self) -> str:"
HELPER = """    def _split_name(self) -> None:
        self._name_components = self._name.split(self.NAME_COMPONENT_SEPARATOR)

"""
SPLIT = "        self._name_components = self._name.split(self.NAME_COMPONENT_SEPARATOR)\n"
if "all" in which or "c18" in which:
    run("HARMLESS (C18) CompositeType.__init__: the name splitting extracted into a private method", [("_serializable/_composite.py", chain(
        rep(SPLIT, "        self._split_name()\n"), rep(ANCHOR, HELPER + ANCHOR)))], ["C18"])
if "c18m" in which:
    run("MUST-FAIL (C18) the private method that assigns a field is also called from a public method", [("_serializable/_composite.py", chain(
        rep(SPLIT, "        self._split_name()\n"),
        rep(ANCHOR, HELPER + "    def refresh(self) -> None:\n        self._split_name()\n\n" + ANCHOR)))], ["C18"])
