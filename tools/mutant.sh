#!/bin/bash
# usage: tools/mutant.sh PROP file 'sed-expression'   -> runs the check on a scratch copy of /repo with the mutation
set -u
PROP=$1; FILE=$2; EXPR=$3
D=$(mktemp -d /tmp/${PYVC_WORKER:-mut}-mut.XXXXXX)
cp -r ${MUTANT_BASE:-/repo}/pydsdl $D/
sed -i "$EXPR" $D/pydsdl/$FILE
if diff -q ${MUTANT_BASE:-/repo}/pydsdl/$FILE $D/pydsdl/$FILE >/dev/null; then echo "MUTATION DID NOT APPLY"; rm -rf $D; exit 9; fi
cd "$(dirname "$0")/.." && PYVC_REPO=$D ./check $PROP 2>&1 | grep -v "^WARNING" | grep "VIOLATION\|UNDECIDED\|ENGINE-LIMIT\|BROKEN\|: [0-9]*/[0-9]* obl" | cut -c1-220 | head -${4:-6}
rm -rf $D
