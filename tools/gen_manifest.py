#!/usr/bin/env python3
"""Regenerates /verif/MANIFEST.json from the table below and validates it against the schema."""
import json
import os
import sys

ROOT = os.path.dirname(os.path.dirname(os.path.abspath(__file__)))
TECH = ("contract-based deductive verification: sidecar contracts on the real functions, VCs generated from the "
        "/repo ASTs by pyvc on every run, discharged by z3/cvc5; Lean 4 lemmas for the number theory")

CLAIMED = {
    "C01": dict(
        category="proof",
        text=("Every method of the seven Operator classes (modulo, min, max, expand, constructors) and every public "
              "operation of BitLengthSet is proved against the ghost abstraction D = the mathematically defined set "
              "(cartesian-product sums, unions, k-fold multiset sums, rounding up to the alignment): min == min D, "
              "max == max D, modulo(d) == {x mod d | x in D} for every d >= 1, is_aligned_at(d) <=> all elements are "
              "multiples of d, fixed_length <=> min == max, iteration/expansion == D, and each composition denotes the "
              "composed set. Operator trees are handled by structural induction (each override is checked against the "
              "interface contract of its children), counts k and divisors are unbounded mathematical integers; the "
              "reductions of repetition counts modulo the divisor rest on Lean 4 theorems (periodicity / stabilisation "
              "of k-fold sumsets in Z/d, padding vs. common multiples, n-ary residues and bounds) re-checked every run."
              " Effect obligations decided on the ASTs (complete for what they state): no function of the anchored modules carries an argument-keyed cache decorator or mutates module-level state. The native (bounded) reading additionally checks after every query that all memo caches reachable "
              "from the receiver still hold answers of their child's set (operands are never changed)."),
        note=("Assumed: the library model (itertools.product / combinations_with_replacement enumerate exactly the "
              "tuples / multisets, math.lcm), hand transcription of Lean theorems into SMT prelude axioms, Python sets "
              "are finite; domain: leaf sets of non-negative ints, k >= 0, alignment >= 1. 'Operands are never "
              "changed' is covered by the frame#aliased-mutation obligations (in-place set mutation only on values "
              "the function allocated) and the immutability of operator fields outside __init__ / memo fields. The "
              "wall-clock assertion in MemoizationOperator.expand is unchecked."),
        design_ref="DESIGN.md section 5 C01, section 11",
    ),
    "C11": dict(
        category="proof",
        text=("All obligations generated from the real bodies of _ensure_no_fixed_port_id_collisions, "
              "_ensure_minor_version_compatibility and _ensure_minor_version_compatibility_pairwise are discharged "
              "against the oracle predicates collide/compat transcribed from the statement: each function raises the "
              "rule-specific InvalidDefinitionError if and only if some pair of definitions violates the rule, for lists "
              "of any length and any pattern of names, versions, kinds, port-IDs, sealing and extents (loop invariants "
              "/ loop-body summaries, no bound). Proof level fits because the property is a per-call input/output "
              "relation over integers, booleans and names. Effect obligations decided on the ASTs (complete for what they state): no function of the anchored modules carries an argument-keyed cache decorator or mutates module-level state."),
        note=("Assumed: class invariants of CompositeType/ServiceType (established by their constructors; the "
              "ServiceType parts-name clause is established by DataTypeBuilder.finalize only), interface contract of "
              "`extent`, closed-world class hierarchy, the library model; the call site in _complete_read_function "
              "is not under contract (file system)."),
        design_ref="DESIGN.md section 5 C11, section 11",
    ),
    "C12": dict(
        category="proof",
        text=("Constant.__init__ is proved to return normally if and only if compliant(type, value) holds - the oracle "
              "transcribed from the statement (boolean for bool; integral rational within the two's complement range; "
              "exact rational within +-largest finite IEEE 754 value; one-character ASCII string only for 8-bit unsigned, "
              "stored as its code point) - for symbolic widths 1..64 and real-valued (not only integer) initializers, so "
              "values arbitrarily close to every boundary are covered; the stored value is the given one. The ranges are "
              "tied to the real inclusive_value_range bodies by finite instantiation over every width and to "
              "FloatType.__init__'s exact magnitude table; PrimitiveType/ArithmeticType/FloatType constructors raise "
              "iff the width is inadmissible. Effect obligations decided on the ASTs (complete for what they state): no function of the anchored modules carries an argument-keyed cache decorator or mutates module-level state."),
        note=("Assumed: Attribute.__init__/check_name (names, C05) may reject independently; str.encode('utf8') "
              "raises iff the string holds a surrogate and a single byte iff one code point < 0x80 (CPython), with "
              "errors='ignore' it drops the surrogates instead; "
              "Fraction is an exact rational; class invariants of the type classes; that the reader passes every "
              "constant statement to Constant.__init__ is C03."),
        design_ref="DESIGN.md section 5 C12, section 11",
    ),
}

NOT_YET = "contract design exists (DESIGN.md section 5) but the machinery is not built yet"


def main():
    props = [json.loads(l)["id"] for l in open(os.path.join(ROOT, "properties.jsonl"))]
    sys.path.insert(0, ROOT)
    try:
        from tools.manifest_extra import NOT_APPLICABLE  # optional overrides: id -> reason
    except Exception:
        NOT_APPLICABLE = {}
    # claims written by the per-property notes (notes/CNN.manifest.json: category, text, note | not_applicable)
    for p in props:
        np_ = os.path.join(ROOT, "notes", "%s.manifest.json" % p)
        if p not in CLAIMED and os.path.exists(np_):
            d = json.load(open(np_))
            if "not_applicable" in d:
                NOT_APPLICABLE.setdefault(p, d["not_applicable"])
            elif os.path.exists(os.path.join(ROOT, "specs", "%s.py" % p.lower())):
                CLAIMED[p] = dict(category=d["category"], text=d["text"], note=d["note"],
                                  design_ref="DESIGN.md section 5 %s, section 12; notes/%s.md" % (p, p))
    checks = []
    for p in props:
        if p in CLAIMED:
            c = CLAIMED[p]
            checks.append({
                "property_id": p,
                "quick_cmd": "./check %s --tier quick" % p,
                "thorough_cmd": "./check %s --tier thorough" % p,
                "evidence_file": "/verif/evidence/%s.json" % p,
                "replay_cmd_template": "./check %s --replay {path}" % p,
                "engine": "pyvc",
                "level_claimed": {"category": c["category"], "text": c["text"], "design_ref": c["design_ref"]},
                "level_note": c["note"],
                "technique": c.get("technique", TECH),
            })
    m = {
        "version": 1,
        "setup_cmd": "./check --setup",
        "hooks": {
            "guard": "PYDSDL_VERIF",
            "enable": "no hooks: contracts live in sidecars under /verif/specs keyed by qualified name; nothing in /repo is instrumented",
            "baseline_off_cmd": "cd /repo && /venv/bin/python -m pytest -ra -q -p no:cacheprovider --timeout=900 --continue-on-collection-errors",
            "source_commits": [],
            "add_only": True,
        },
        "engines": [{
            "name": "pyvc", "path": "pyvc/", "serves_properties": sorted(CLAIMED),
            "kind_free_text": "own VC generator: Python ast of the /repo sources -> z3/cvc5 obligations against sidecar "
                              "contracts (specs/), Lean 4 + Mathlib lemma library (lean/Pydsdl) for the number theory, "
                              "native reading of the same contracts for cross-check / counterexample search / replay",
        }],
        "checks": checks,
        "not_applicable": [{"property_id": p, "reason": NOT_APPLICABLE.get(p, NOT_YET)} for p in props if p not in CLAIMED],
        "notes": "exit codes of ./check: 0 held, 1 violation (VIOLATION line), 2 undecided (engine limit / solver unknown on "
                 "a non-baseline obligation), 3 broken check. Fix commits in /repo are listed in known_findings.txt.",
    }
    path = os.path.join(ROOT, "MANIFEST.json")
    json.dump(m, open(path, "w"), indent=1)
    try:
        import jsonschema
        jsonschema.validate(m, json.load(open("/root/.vp/MANIFEST.schema.json")))
        print("MANIFEST.json valid: %d checks, %d not applicable" % (len(checks), len(m["not_applicable"])))
    except ImportError:
        print("written (jsonschema not available for validation)")


if __name__ == "__main__":
    main()
