"""Bounded native probe of read_files under different spellings of targets and roots (shared by C10 and C15)."""
# ------------------------------------------------------------------------------------------------ bounded: spelling probe
def extra_spelling_probe(eng, tier, seed):
    """Bounded, native, not counted - a stand-in for the part no contract reaches (file-system calls interleaved with the
    root inference): for a small forest - one root namespace contributed to by two file trees, a lookup namespace, the first
    tree also reachable through a symbolic link - read_files must map every target to the name / version / port-ID encoded by
    its path below its root directory and to that file and root, whatever the spelling (absolute, relative to the working
    directory, relative to the root's parent, through the symlink) and order of the targets and root arguments."""
    import itertools
    import os
    import random
    import shutil
    import tempfile
    from pathlib import Path
    import pydsdl

    rng = random.Random(seed)
    top = Path(tempfile.mkdtemp(prefix="c15-spelling-")).resolve()
    origin = os.getcwd()
    violations, calls = [], 0
    files = {  # tree, sub-namespace, basename -> (full name, version, port-ID)
        ("p1", "felines", "Tabby.1.0.dsdl"): ("animals.felines.Tabby", (1, 0), None),
        ("p2", "felines", "7001.Lion.1.2.dsdl"): ("animals.felines.Lion", (1, 2), 7001),
        ("p1", "animals", "Boxer.0.3.dsdl"): ("animals.animals.Boxer", (0, 3), None),  # component repeating the root's name
    }
    # a sibling root namespace whose directory name is a string prefix of the other root's ("ani" / "animals"), listed first
    prefix_root_file = ("p1", "ani", "cats", "Cat.1.0.dsdl", "ani.cats.Cat")
    try:
        for (tree, sub, base) in files:
            d = top / tree / "animals" / sub
            d.mkdir(parents=True, exist_ok=True)
            (d / base).write_text("uint8 x\n@sealed\n")
        (top / "p2" / "animals").mkdir(parents=True, exist_ok=True)
        pd = top / prefix_root_file[0] / prefix_root_file[1] / prefix_root_file[2]
        pd.mkdir(parents=True, exist_ok=True)
        (pd / prefix_root_file[3]).write_text("uint8 x\n@sealed\n")
        os.symlink(top / "p1", top / "link1", target_is_directory=True)
        os.chdir(top)
        trees = {"p1": {"abs": top / "p1" / "animals", "rel": Path("p1/animals"), "link": top / "link1" / "animals"},
                 "p2": {"abs": top / "p2" / "animals", "rel": Path("p2/animals"), "link": top / "p2" / "animals"}}
        keys = sorted(files)
        combos = list(itertools.product(("abs", "rel", "link"), ("abs", "link", "rel-to-root-parent"), (False, True)))
        rng.shuffle(combos)
        combos = combos[: (12 if tier == "quick" else len(combos))]
        # targets spelled relative to the working directory *including* the root directory (the first example in the
        # read_files documentation): a separately named check, because the pinned tree mis-resolves them (known finding)
        combos += [("abs", "rel", False), ("rel", "rel", False)]
        # one representative of every family in every run (the random choice above only varies what else is tried)
        combos += [("rel", "abs", False), ("link", "abs", False), ("abs", "link", True), ("abs", "rel-to-root-parent", False),
                   ("rel", "rel-to-root-parent", True)]
        for root_sp, target_sp, rev in combos:
            roots = [trees["p1"][root_sp], trees["p2"][root_sp]]
            if rev:
                roots.reverse()
            # the prefix-named sibling root comes first, spelled like the others
            ani = {"abs": top / "p1" / "ani", "rel": Path("p1/ani"), "link": top / "link1" / "ani"}[root_sp]
            roots = [ani] + roots
            order = keys[:]
            rng.shuffle(order)
            targets = []
            for (tree, sub, base) in order:
                if target_sp == "rel-to-root-parent":
                    targets.append(Path("animals") / sub / base)
                else:
                    targets.append(trees[tree][target_sp] / sub / base)
            what = {"roots": [str(r) for r in roots], "targets": [str(t) for t in targets]}
            vname = "native/read-files-spelling-independence"
            if target_sp == "rel":
                vname = "native/read-files-cwd-relative-target"
            elif root_sp == "rel" and target_sp in ("abs", "link"):
                vname = "native/read-files-absolute-target-relative-root"
            try:
                direct, transitive = pydsdl.read_files(targets, roots, allow_unregulated_fixed_port_id=True)
            except Exception as ex:
                violations.append({"name": vname, "concrete": what, "detail": "%s: %s" % (type(ex).__name__, str(ex)[:200])})
                continue
            calls += 1
            got = {t.full_name: t for t in direct}
            bad = None
            if transitive or len(direct) != len(keys):
                bad = "direct=%s transitive=%s" % ([str(t) for t in direct], [str(t) for t in transitive])
            else:
                for (tree, sub, base) in keys:
                    name, ver, port = files[(tree, sub, base)]
                    t = got.get(name)
                    f, r = (top / tree / "animals" / sub / base), (top / tree / "animals")
                    if t is None or (t.version.major, t.version.minor) != ver or t.fixed_port_id != port \
                            or Path(t.source_file_path).resolve() != f.resolve() \
                            or Path(t.source_file_path_to_root).resolve() != r.resolve():
                        bad = "%s: got %s" % (name, None if t is None else (str(t), t.fixed_port_id, str(t.source_file_path),
                                                                            str(t.source_file_path_to_root)))
                        break
            if bad:
                violations.append({"name": vname, "concrete": what, "detail": bad})
        # the root namespace designated by its bare NAME (last strategy of the root inference), absolute targets of one tree,
        # one of them below a directory that repeats the root's name: the root is the OUTERMOST directory of that name
        one_tree = [k for k in keys if k[0] == "p1"]
        targets = [top / t / "animals" / sub / base for (t, sub, base) in one_tree]
        what = {"roots": ["animals"], "targets": [str(t) for t in targets]}
        try:
            direct, transitive = pydsdl.read_files(targets, ["animals"], allow_unregulated_fixed_port_id=True)
            calls += 1
            got = {t.full_name: t for t in direct}
            for (tree, sub, base) in one_tree:
                name, ver, port = files[(tree, sub, base)]
                t = got.get(name)
                if t is None or Path(t.source_file_path_to_root).resolve() != (top / tree / "animals").resolve() \
                        or Path(t.source_file_path).resolve() != (top / tree / "animals" / sub / base).resolve():
                    violations.append({"name": "native/read-files-root-by-name", "concrete": what,
                                       "detail": "%s: got %s" % (name, sorted((str(x), str(x.source_file_path_to_root)) for x in direct))})
                    break
        except Exception as ex:
            violations.append({"name": "native/read-files-root-by-name", "concrete": what,
                               "detail": "%s: %s" % (type(ex).__name__, str(ex)[:200])})
    finally:
        os.chdir(origin)
        shutil.rmtree(top, ignore_errors=True)
    return {"check": "read_files maps targets to the identity encoded by their paths under every spelling (bounded, native)",
            "calls": calls, "violations": violations}

