"""
Contracts of the expression layer (`pydsdl/_expression/*.py`), shared by

  C13 - only InvalidDefinitionError subclasses ever leave the evaluation of an expression (exception-class side), and
  C04 - constant expressions evaluate exactly (value side, dispatch table).

Every contract is two-sided where the code is deterministic in terms the engine models: `raises` states *iff*
conditions, `post` states the whole result.  The oracle is the Specification's operator table (CONTRACTS.md, C04), written
here over the mathematical values (`rv` exact rational, `bv` boolean, `sv` string) and never over the code's temporaries.
"""
import fractions
import math
import z3
from pyvc import ext_expr as X  # installs the expression-layer extension of the engine
from pyvc.spec import contract, class_spec, inline_ok
from pyvc.values import Int, Bool, Str, Frac, ObjOf, SeqOf, Opt
from pyvc.speclib import AND, OR, NOT, IMPLIES, IFF, ITE, EQ, ISINST, AS, smt
from pyvc import speclib
from .common import ANY, BOOLEAN_X, RATIONAL_X, STRING_X, SET_X, PRIMITIVE_X, SERIALIZABLE, FRAC

P = ["C13", "C04"]
EX = "pydsdl._expression."
OPMOD = EX + "_operator."
CONTAINER_X = EX + "_container.Container"


# ------------------------------------------------------------------------------------------------ vocabulary
def is_rat(x):
    return ISINST(x, RATIONAL_X)


def is_bool(x):
    return ISINST(x, BOOLEAN_X)


def is_str(x):
    return ISINST(x, STRING_X)


def is_set(x):
    return ISINST(x, SET_X)


def _field(x, cls, sort_ok, default):
    v = AS(x, cls)._value
    if smt():
        from pyvc.values import FractionV

        if isinstance(v, FractionV):
            v = v.term
        if isinstance(v, bool):
            v = z3.BoolVal(v)
        if isinstance(v, str):
            v = z3.StringVal(v)
        if isinstance(v, int):
            v = z3.RealVal(v)
        if not (isinstance(v, z3.ExprRef) and sort_ok(v)):
            return default  # a materialised object of another class: the class guard is concretely false
    return v


def rv(x):
    """the exact rational value of a Rational"""
    v = _field(x, RATIONAL_X, lambda t: z3.is_real(t) or z3.is_int(t), z3.RealVal(0))
    if smt() and z3.is_int(v):
        v = z3.ToReal(v)
    return v


def bv(x):
    return _field(x, BOOLEAN_X, z3.is_bool, z3.BoolVal(False))


def sv(x):
    return _field(x, STRING_X, z3.is_string, z3.StringVal(""))


def IS_INT(q):
    if smt():
        return z3.IsInt(q)
    return fractions.Fraction(q).denominator == 1


def TO_INT(q):
    if smt():
        return z3.ToInt(q)
    return int(q)


def REAL(i):
    """an int as a rational"""
    if smt():
        from pyvc.values import Real

        return Real.unwrap(i)
    return fractions.Fraction(i)


def RMOD(a, b):
    """floored modulo: the result has the sign of the divisor"""
    if smt():
        return X.rmod(a, b)
    return a - b * math.floor(a / b)


def RPOW(a, b):
    """a ** b for an integer b, as a rational (a != 0 or b >= 0)"""
    if smt():
        return X.RPOW(a, b)
    a, n = fractions.Fraction(a), int(b)
    r = fractions.Fraction(1)
    for _ in range(abs(n)):
        r *= a
    return r if n >= 0 else 1 / r


def _float_pow(a, b):
    try:
        r = float(a) ** float(b)
    except OverflowError:
        return "overflow"
    except ZeroDivisionError:
        return "zerodiv"
    if isinstance(r, complex):
        return "complex"
    return r


def FPOW_FAILS(a, b):
    """float(a) ** float(b) overflows, divides zero or leaves the reals (CPython float semantics; uninterpreted in SMT)"""
    if smt():
        return z3.Or(X.FPOW_OVERFLOW(a, b), X.FPOW_ZERODIV(a, b), X.FPOW_COMPLEX(a, b))
    return isinstance(_float_pow(a, b), str)


def FPOW_VALUE(a, b):
    if smt():
        return X.FPOW_VALUE(a, b)
    return fractions.Fraction(_float_pow(a, b))


def BITOP(which, a, b):
    """bitwise operator on the integers a, b (given as rationals with denominator 1)"""
    if smt():
        f = {"or": X.BITOR, "xor": X.BITXOR, "and": X.BITAND}[which]
        return z3.ToReal(f(z3.ToInt(a), z3.ToInt(b)))
    a, b = int(a), int(b)
    return fractions.Fraction({"or": a | b, "xor": a ^ b, "and": a & b}[which])


def NFC(s):
    if smt():
        from pyvc.values import Str as _S

        return X.NFC(_S.unwrap(s))
    import unicodedata

    return unicodedata.normalize("NFC", s)


def CONCAT(a, b):
    if smt():
        from pyvc.values import Str as _S

        return z3.Concat(_S.unwrap(a), _S.unwrap(b))
    return a + b


def BOOL_EQ(a, b):
    return IFF(a, b)


# ------------------------------------------------------------------------------------------------ Any: nothing defined
_ANY_UNARY = ["_logical_not", "_positive", "_negative"]
_ANY_BINARY = ["_logical_or", "_logical_and", "_equal", "_less_or_equal", "_greater_or_equal", "_less", "_greater"] + [
    "_%s%s" % (n, sfx) for n in ("bitwise_or", "bitwise_xor", "bitwise_and", "add", "subtract", "multiply", "divide",
                                 "modulo", "power") for sfx in ("", "_right")]


def _any_default(name):
    class _C:
        """The base class defines no operator: the call never returns."""
        never_returns = True
        raises = {"UndefinedOperatorError": lambda s: True}

    _C.__name__ = "_Any" + name
    if name in _ANY_BINARY:
        _C.params = {("left" if name.endswith("_right") else "right"): ObjOf(ANY)}
    contract(EX + "_any.Any." + name, props=P)(_C)


for _n in _ANY_UNARY + _ANY_BINARY:
    _any_default(_n)


@contract(EX + "_any.Any._attribute", props=P)
class _AnyAttribute:
    params = dict(name=ObjOf(STRING_X))
    never_returns = True
    raises = {"UndefinedAttributeError": lambda s: True}


# ------------------------------------------------------------------------------------------------ Boolean
BOOLR = ObjOf(BOOLEAN_X, exact=True)
RATR = ObjOf(RATIONAL_X, exact=True)
STRR = ObjOf(STRING_X, exact=True)


@contract(BOOLEAN_X + "._logical_not", props=P)
class _BoolNot:
    returns = BOOLR

    def post(s):
        return {"class": is_bool(s.result), "value": BOOL_EQ(bv(s.result), NOT(bv(s.self)))}


def _bool_binary(name, fn):
    class _C:
        params = dict(right=ObjOf(ANY))
        returns = BOOLR
        raises = {"UndefinedOperatorError": lambda s: NOT(is_bool(s.right))}

        def post(s):
            return {"class": is_bool(s.result), "value": BOOL_EQ(bv(s.result), fn(bv(s.self), bv(s.right)))}

    _C.__name__ = "_Bool" + name
    contract(BOOLEAN_X + "." + name, props=P)(_C)


_bool_binary("_logical_and", lambda a, b: AND(a, b))
_bool_binary("_logical_or", lambda a, b: OR(a, b))
_bool_binary("_equal", lambda a, b: IFF(a, b))


# ------------------------------------------------------------------------------------------------ Rational
@contract(RATIONAL_X + ".as_native_integer", props=P)
class _AsNativeInteger:
    returns = Int
    raises = {"InvalidOperandError": lambda s: NOT(IS_INT(rv(s.self)))}

    def post(s):
        return {"value": REAL(s.result) == rv(s.self)}


def _rat_unary(name, fn):
    class _C:
        returns = RATR

        def post(s):
            return {"class": is_rat(s.result), "value": rv(s.result) == fn(rv(s.self))}

    _C.__name__ = "_Rat" + name
    contract(RATIONAL_X + "." + name, props=P)(_C)


_rat_unary("_positive", lambda a: a)
_rat_unary("_negative", lambda a: -a)


def _rat_compare(name, fn):
    class _C:
        params = dict(right=ObjOf(ANY))
        returns = BOOLR
        raises = {"UndefinedOperatorError": lambda s: NOT(is_rat(s.right))}

        def post(s):
            return {"class": is_bool(s.result), "value": BOOL_EQ(bv(s.result), fn(rv(s.self), rv(s.right)))}

    _C.__name__ = "_Rat" + name
    contract(RATIONAL_X + "." + name, props=P)(_C)


_rat_compare("_equal", lambda a, b: a == b)
_rat_compare("_less_or_equal", lambda a, b: a <= b)
_rat_compare("_greater_or_equal", lambda a, b: a >= b)
_rat_compare("_less", lambda a, b: a < b)
_rat_compare("_greater", lambda a, b: a > b)


def _rat_arith(name, value, invalid=None):
    """value(a, b): the mathematical result; invalid(a, b): the operand combinations the Specification leaves undefined."""

    class _C:
        params = dict(right=ObjOf(ANY))
        returns = RATR
        raises = {"UndefinedOperatorError": lambda s: NOT(is_rat(s.right))}

        def post(s):
            return {"class": is_rat(s.result), "value": rv(s.result) == value(rv(s.self), rv(s.right))}

    if invalid is not None:
        _C.raises["InvalidOperandError"] = lambda s: AND(is_rat(s.right), lambda: invalid(rv(s.self), rv(s.right)))
    _C.__name__ = "_Rat" + name
    contract(RATIONAL_X + "." + name, props=P)(_C)


_rat_arith("_add", lambda a, b: a + b)
_rat_arith("_subtract", lambda a, b: a - b)
_rat_arith("_multiply", lambda a, b: a * b)
_rat_arith("_divide", lambda a, b: a / b, invalid=lambda a, b: b == 0)
_rat_arith("_modulo", lambda a, b: RMOD(a, b), invalid=lambda a, b: b == 0)
# ** : exact for integer exponents (0 ** negative is undefined); a non-integer exponent goes through binary floating
# point (CPython fractions.py) and is undefined when that overflows, divides by zero or leaves the reals
_rat_arith("_power",
           lambda a, b: ITE(IS_INT(b), RPOW(a, b), FPOW_VALUE(a, b)) if smt() else (RPOW(a, b) if IS_INT(b) else FPOW_VALUE(a, b)),
           invalid=lambda a, b: OR(AND(IS_INT(b), a == 0, b < 0), AND(NOT(IS_INT(b)), lambda: FPOW_FAILS(a, b))))

_bitwise_invalid = lambda a, b: OR(NOT(IS_INT(a)), NOT(IS_INT(b)))
_rat_arith("_bitwise_or", lambda a, b: BITOP("or", a, b), invalid=_bitwise_invalid)
_rat_arith("_bitwise_xor", lambda a, b: BITOP("xor", a, b), invalid=_bitwise_invalid)
_rat_arith("_bitwise_and", lambda a, b: BITOP("and", a, b), invalid=_bitwise_invalid)


# Rational.__init__ : the conversion of whatever an arithmetic operator of `fractions` returned.
def IS_PY(v, what):
    """Python-level class of a constructor argument (int / float / Fraction / complex / str)."""
    if smt():
        from pyvc.values import FractionV

        if what == "int":
            return isinstance(v, (int, bool)) or (isinstance(v, z3.ExprRef) and (z3.is_int(v) or z3.is_bool(v)))
        if what == "float":
            return isinstance(v, X.SymFloatV)
        if what == "Fraction":
            return isinstance(v, FractionV)
        return False
    return isinstance(v, {"int": int, "float": float, "Fraction": fractions.Fraction}[what])


def FLOAT_NAN(v):
    if smt():
        return v.nan if isinstance(v, X.SymFloatV) else False
    return isinstance(v, float) and v != v


def FLOAT_INF(v):
    if smt():
        return v.inf if isinstance(v, X.SymFloatV) else False
    return isinstance(v, float) and v in (float("inf"), float("-inf"))


def NUMERIC_VALUE(v):
    if smt():
        from pyvc.values import FractionV, Real

        if isinstance(v, X.SymFloatV):
            return v.val
        if isinstance(v, FractionV):
            return v.term
        return Real.unwrap(v)
    return fractions.Fraction(v)


@contract(RATIONAL_X + ".__init__", props=P)
class _RationalInit:
    """Accepts int, Fraction and finite float; everything else is a programming error of the caller (ValueError /
    OverflowError) - the callers inside the expression layer are obligated never to trigger it."""
    instances = [{"value": Int}, {"value": Frac}, {"value": X.FloatK}, {"value": X.ComplexK}, {"value": Str},
                 {"value": Bool}]
    raises = {
        "OverflowError": lambda s: AND(IS_PY(s.value, "float"), FLOAT_INF(s.value)),
        "ValueError": lambda s: OR(NOT(OR(IS_PY(s.value, "int"), IS_PY(s.value, "float"), IS_PY(s.value, "Fraction"))),
                                   AND(IS_PY(s.value, "float"), NOT(FLOAT_INF(s.value)), FLOAT_NAN(s.value))),
    }

    def post(s):
        return {"value": rv(s.self) == NUMERIC_VALUE(s.value)}


# ------------------------------------------------------------------------------------------------ String
@contract(STRING_X + "._add", props=P)
class _StrAdd:
    params = dict(right=ObjOf(ANY))
    returns = STRR
    raises = {"UndefinedOperatorError": lambda s: NOT(is_str(s.right))}

    def post(s):
        return {"class": is_str(s.result), "value": EQ(sv(s.result), CONCAT(sv(s.self), sv(s.right)))}


@contract(STRING_X + "._equal", props=P)
class _StrEqual:
    params = dict(right=ObjOf(ANY))
    returns = BOOLR
    raises = {"UndefinedOperatorError": lambda s: NOT(is_str(s.right))}

    def post(s):
        # equality of the NFC-normalised texts
        return {"class": is_bool(s.result), "value": BOOL_EQ(bv(s.result), EQ(NFC(sv(s.self)), NFC(sv(s.right))))}
