"""
Contracts of the expression layer (`pydsdl/_expression/*.py`), shared by

  C13 - only InvalidDefinitionError subclasses ever leave the evaluation of an expression (exception-class side), and
  C04 - constant expressions evaluate exactly (value side, dispatch table).

Every contract is two-sided where the code is deterministic in terms the engine models: `raises` states *iff*
conditions, `post` states the whole result.  The oracle is the Specification's operator table (CONTRACTS.md, C04), written
here over the mathematical values (`rv` exact rational, `bv` boolean, `sv` string) and never over the code's temporaries.
"""
import fractions
import math
import z3
from pyvc import ext_expr as X  # installs the expression-layer extension of the engine
from pyvc.spec import contract, class_spec, inline_ok
from pyvc.values import Int, Bool, Str, Frac, ObjOf, SeqOf, Opt
from pyvc.speclib import AND, OR, NOT, IMPLIES, IFF, ITE, EQ, ISINST, AS, smt
from pyvc import speclib
from .common import ANY, BOOLEAN_X, RATIONAL_X, STRING_X, SET_X, PRIMITIVE_X, SERIALIZABLE, FRAC

P = ["C13", "C04"]
EX = "pydsdl._expression."
OPMOD = EX + "_operator."
CONTAINER_X = EX + "_container.Container"


# ------------------------------------------------------------------------------------------------ vocabulary
def is_rat(x):
    return ISINST(x, RATIONAL_X)


def is_bool(x):
    return ISINST(x, BOOLEAN_X)


def is_str(x):
    return ISINST(x, STRING_X)


def is_set(x):
    return ISINST(x, SET_X)


def _field(x, cls, sort_ok, default):
    v = AS(x, cls)._value
    if smt():
        from pyvc.values import FractionV

        if isinstance(v, FractionV):
            v = v.term
        if isinstance(v, bool):
            v = z3.BoolVal(v)
        if isinstance(v, str):
            v = z3.StringVal(v)
        if isinstance(v, int):
            v = z3.RealVal(v)
        if not (isinstance(v, z3.ExprRef) and sort_ok(v)):
            return default  # a materialised object of another class: the class guard is concretely false
    return v


def rv(x):
    """the exact rational value of a Rational"""
    v = _field(x, RATIONAL_X, lambda t: z3.is_real(t) or z3.is_int(t), z3.RealVal(0))
    if smt() and z3.is_int(v):
        v = z3.ToReal(v)
    return v


def bv(x):
    return _field(x, BOOLEAN_X, z3.is_bool, z3.BoolVal(False))


def sv(x):
    return _field(x, STRING_X, z3.is_string, z3.StringVal(""))


def IS_INT(q):
    if smt():
        return z3.IsInt(q)
    return fractions.Fraction(q).denominator == 1


def TO_INT(q):
    if smt():
        return z3.ToInt(q)
    return int(q)


def REAL(i):
    """an int as a rational"""
    if smt():
        from pyvc.values import Real

        return Real.unwrap(i)
    return fractions.Fraction(i)


def RMOD(a, b):
    """floored modulo: the result has the sign of the divisor"""
    if smt():
        return X.rmod(a, b)
    return a - b * math.floor(a / b)


def RPOW(a, b):
    """a ** b for an integer b, as a rational (a != 0 or b >= 0)"""
    if smt():
        return X.RPOW(a, b)
    a, n = fractions.Fraction(a), int(b)
    r = fractions.Fraction(1)
    for _ in range(abs(n)):
        r *= a
    return r if n >= 0 else 1 / r


def _float_pow(a, b):
    try:
        r = float(a) ** float(b)
    except OverflowError:
        return "overflow"
    except ZeroDivisionError:
        return "zerodiv"
    if isinstance(r, complex):
        return "complex"
    return r


def FPOW_FAILS(a, b):
    """float(a) ** float(b) overflows, divides zero or leaves the reals (CPython float semantics; uninterpreted in SMT)"""
    if smt():
        return z3.Or(X.FPOW_OVERFLOW(a, b), X.FPOW_ZERODIV(a, b), X.FPOW_COMPLEX(a, b))
    return isinstance(_float_pow(a, b), str)


def FPOW_VALUE(a, b):
    if smt():
        return X.FPOW_VALUE(a, b)
    return fractions.Fraction(_float_pow(a, b))


def BITOP(which, a, b):
    """bitwise operator on the integers a, b (given as rationals with denominator 1)"""
    if smt():
        f = {"or": X.BITOR, "xor": X.BITXOR, "and": X.BITAND}[which]
        return z3.ToReal(f(z3.ToInt(a), z3.ToInt(b)))
    a, b = int(a), int(b)
    return fractions.Fraction({"or": a | b, "xor": a ^ b, "and": a & b}[which])


def NFC(s):
    if smt():
        from pyvc.values import Str as _S

        return X.NFC(_S.unwrap(s))
    import unicodedata

    return unicodedata.normalize("NFC", s)


def CONCAT(a, b):
    if smt():
        from pyvc.values import Str as _S

        return z3.Concat(_S.unwrap(a), _S.unwrap(b))
    return a + b


def BOOL_EQ(a, b):
    return IFF(a, b)


# ------------------------------------------------------------------------------------------------ Any: nothing defined
_ANY_UNARY = ["_logical_not", "_positive", "_negative"]
_ANY_BINARY = ["_logical_or", "_logical_and", "_equal", "_less_or_equal", "_greater_or_equal", "_less", "_greater"] + [
    "_%s%s" % (n, sfx) for n in ("bitwise_or", "bitwise_xor", "bitwise_and", "add", "subtract", "multiply", "divide",
                                 "modulo", "power") for sfx in ("", "_right")]


def _any_default(name):
    class _C:
        """The base class defines no operator: the call never returns."""
        never_returns = True
        dispatch = True  # call sites split on the receiver's class; every override carries its own contract
        raises = {"UndefinedOperatorError": lambda s: True}

    _C.__name__ = "_Any" + name
    if name in _ANY_BINARY:
        _C.params = {("left" if name.endswith("_right") else "right"): ObjOf(ANY)}
    contract(EX + "_any.Any." + name, props=P)(_C)


for _n in _ANY_UNARY + _ANY_BINARY:
    _any_default(_n)


@contract(EX + "_any.Any._attribute", props=P)
class _AnyAttribute:
    params = dict(name=ObjOf(STRING_X))
    never_returns = True
    dispatch = True  # overridden by Set, SerializableType, CompositeType (each with its own contract)
    raises = {"UndefinedAttributeError": lambda s: True}


# ------------------------------------------------------------------------------------------------ Boolean
BOOLR = ObjOf(BOOLEAN_X, exact=True)
RATR = ObjOf(RATIONAL_X, exact=True)
STRR = ObjOf(STRING_X, exact=True)


@contract(BOOLEAN_X + "._logical_not", props=P)
class _BoolNot:
    returns = BOOLR

    def post(s):
        return {"class": is_bool(s.result), "value": BOOL_EQ(bv(s.result), NOT(bv(s.self)))}


def _bool_binary(name, fn):
    class _C:
        params = dict(right=ObjOf(ANY))
        returns = BOOLR
        raises = {"UndefinedOperatorError": lambda s: NOT(is_bool(s.right))}

        def post(s):
            return {"class": is_bool(s.result), "value": BOOL_EQ(bv(s.result), fn(bv(s.self), bv(s.right)))}

    _C.__name__ = "_Bool" + name
    contract(BOOLEAN_X + "." + name, props=P)(_C)


_bool_binary("_logical_and", lambda a, b: AND(a, b))
_bool_binary("_logical_or", lambda a, b: OR(a, b))
_bool_binary("_equal", lambda a, b: IFF(a, b))


# ------------------------------------------------------------------------------------------------ Rational
@contract(RATIONAL_X + ".as_native_integer", props=P)
class _AsNativeInteger:
    returns = Int
    raises = {"InvalidOperandError": lambda s: NOT(IS_INT(rv(s.self)))}

    def post(s):
        return {"value": REAL(s.result) == rv(s.self)}


def _rat_unary(name, fn):
    class _C:
        returns = RATR

        def post(s):
            return {"class": is_rat(s.result), "value": rv(s.result) == fn(rv(s.self))}

    _C.__name__ = "_Rat" + name
    contract(RATIONAL_X + "." + name, props=P)(_C)


_rat_unary("_positive", lambda a: a)
_rat_unary("_negative", lambda a: -a)


def _rat_compare(name, fn):
    class _C:
        params = dict(right=ObjOf(ANY))
        returns = BOOLR
        raises = {"UndefinedOperatorError": lambda s: NOT(is_rat(s.right))}

        def post(s):
            return {"class": is_bool(s.result), "value": BOOL_EQ(bv(s.result), fn(rv(s.self), rv(s.right)))}

    _C.__name__ = "_Rat" + name
    contract(RATIONAL_X + "." + name, props=P)(_C)


_rat_compare("_equal", lambda a, b: a == b)
_rat_compare("_less_or_equal", lambda a, b: a <= b)
_rat_compare("_greater_or_equal", lambda a, b: a >= b)
_rat_compare("_less", lambda a, b: a < b)
_rat_compare("_greater", lambda a, b: a > b)


def _rat_arith(name, value, invalid=None):
    """value(a, b): the mathematical result; invalid(a, b): the operand combinations the Specification leaves undefined."""

    class _C:
        params = dict(right=ObjOf(ANY))
        returns = RATR
        raises = {"UndefinedOperatorError": lambda s: NOT(is_rat(s.right))}

        def post(s):
            return {"class": is_rat(s.result), "value": rv(s.result) == value(rv(s.self), rv(s.right))}

    if invalid is not None:
        _C.raises["InvalidOperandError"] = lambda s: AND(is_rat(s.right), lambda: invalid(rv(s.self), rv(s.right)))
    _C.__name__ = "_Rat" + name
    contract(RATIONAL_X + "." + name, props=P)(_C)


_rat_arith("_add", lambda a, b: a + b)
_rat_arith("_subtract", lambda a, b: a - b)
_rat_arith("_multiply", lambda a, b: a * b)
_rat_arith("_divide", lambda a, b: a / b, invalid=lambda a, b: b == 0)
_rat_arith("_modulo", lambda a, b: RMOD(a, b), invalid=lambda a, b: b == 0)
# ** : exact for integer exponents (0 ** negative is undefined); a non-integer exponent goes through binary floating
# point (CPython fractions.py) and is undefined when that overflows, divides by zero or leaves the reals
_rat_arith("_power",
           lambda a, b: ITE(IS_INT(b), RPOW(a, b), FPOW_VALUE(a, b)) if smt() else (RPOW(a, b) if IS_INT(b) else FPOW_VALUE(a, b)),
           invalid=lambda a, b: OR(AND(IS_INT(b), a == 0, b < 0), AND(NOT(IS_INT(b)), lambda: FPOW_FAILS(a, b))))

_bitwise_invalid = lambda a, b: OR(NOT(IS_INT(a)), NOT(IS_INT(b)))
_rat_arith("_bitwise_or", lambda a, b: BITOP("or", a, b), invalid=_bitwise_invalid)
_rat_arith("_bitwise_xor", lambda a, b: BITOP("xor", a, b), invalid=_bitwise_invalid)
_rat_arith("_bitwise_and", lambda a, b: BITOP("and", a, b), invalid=_bitwise_invalid)


# Rational.__init__ : the conversion of whatever an arithmetic operator of `fractions` returned.
def IS_PY(v, what):
    """Python-level class of a constructor argument (int / float / Fraction / complex / str)."""
    if smt():
        from pyvc.values import FractionV

        if what == "int":
            return isinstance(v, (int, bool)) or (isinstance(v, z3.ExprRef) and (z3.is_int(v) or z3.is_bool(v)))
        if what == "float":
            return isinstance(v, X.SymFloatV)
        if what == "Fraction":
            return isinstance(v, FractionV)
        return False
    return isinstance(v, {"int": int, "float": float, "Fraction": fractions.Fraction}[what])


def FLOAT_NAN(v):
    if smt():
        return v.nan if isinstance(v, X.SymFloatV) else False
    return isinstance(v, float) and v != v


def FLOAT_INF(v):
    if smt():
        return v.inf if isinstance(v, X.SymFloatV) else False
    return isinstance(v, float) and v in (float("inf"), float("-inf"))


def NUMERIC_VALUE(v):
    if smt():
        from pyvc.values import FractionV, Real

        if isinstance(v, X.SymFloatV):
            return v.val
        if isinstance(v, FractionV):
            return v.term
        return Real.unwrap(v)
    return fractions.Fraction(v)


@contract(RATIONAL_X + ".__init__", props=P)
class _RationalInit:
    """Accepts int, Fraction and finite float; everything else is a programming error of the caller (ValueError /
    OverflowError) - the callers inside the expression layer are obligated never to trigger it."""
    instances = [{"value": Int}, {"value": Frac}, {"value": X.FloatK}, {"value": X.ComplexK}, {"value": Str},
                 {"value": Bool}]
    raises = {
        "OverflowError": lambda s: AND(IS_PY(s.value, "float"), FLOAT_INF(s.value)),
        "ValueError": lambda s: OR(NOT(OR(IS_PY(s.value, "int"), IS_PY(s.value, "float"), IS_PY(s.value, "Fraction"))),
                                   AND(IS_PY(s.value, "float"), NOT(FLOAT_INF(s.value)), FLOAT_NAN(s.value))),
    }

    def post(s):
        return {"value": rv(s.self) == NUMERIC_VALUE(s.value)}


# ------------------------------------------------------------------------------------------------ String
@contract(STRING_X + "._add", props=P)
class _StrAdd:
    params = dict(right=ObjOf(ANY))
    returns = STRR
    raises = {"UndefinedOperatorError": lambda s: NOT(is_str(s.right))}

    def post(s):
        return {"class": is_str(s.result), "value": EQ(sv(s.result), CONCAT(sv(s.self), sv(s.right)))}


@contract(STRING_X + "._equal", props=P)
class _StrEqual:
    params = dict(right=ObjOf(ANY))
    returns = BOOLR
    raises = {"UndefinedOperatorError": lambda s: NOT(is_str(s.right))}

    def post(s):
        # equality of the NFC-normalised texts
        return {"class": is_bool(s.result), "value": BOOL_EQ(bv(s.result), EQ(NFC(sv(s.self)), NFC(sv(s.right))))}


# ------------------------------------------------------------------------------------------------ Set
@class_spec(SET_X)
class _SetSpec:
    fields = dict(_element_type=X.ClassTagK, _value=X.RefSetK)

    def invariant(self):
        # established by Set.__init__: never empty, all elements of one class which is recorded as the element type
        return {"non-empty": NOT(COLL_EMPTY(self._value)),
                "homogeneous": COLL_ALL(self._value, lambda x: TAG(x) == ET(self))}


inline_ok(BOOLEAN_X + ".__bool__", why="trivial accessor: inlined")
inline_ok(SET_X + ".element_type", SET_X + ".__iter__", SET_X + "._elementwise",
          SET_X + "._Decorator.homotypic_binary_operator", OPMOD + "_auto_swap",
          why="trivial accessor / private helper / decorator factory of the expression layer: inlined")


def TAG(x):
    """the dynamic class of an object"""
    if smt():
        ref = x.ref if hasattr(x, "ref") else x
        return speclib.CTX.engine.tag_fn(ref)
    return type(x)


def ET(s):
    """the element class of a Set"""
    t = AS(s, SET_X)._element_type
    if smt():
        return X.ClassTagK.unwrap(t) if not isinstance(t, z3.ExprRef) else t
    return t


def ET_IS(s, clsname):
    """the element class of the set is exactly the named class"""
    if smt():
        return ET(s) == speclib.CTX.engine.class_id(speclib.CTX.engine.class_by_name(clsname))
    return ET(s) is speclib._native_class(clsname)


def _members(c):
    """membership predicate of a collection of objects (Set object, frozenset, list / tuple)"""
    from pyvc.values import Obj, SymSet, SymSeq, PyList

    if isinstance(c, Obj):
        c = AS(c, SET_X)._value
    if isinstance(c, SymSet):
        return lambda x: z3.Select(c.term, x)
    if isinstance(c, SymSeq):
        def mem(x):
            i = z3.FreshConst(z3.IntSort(), "mi")
            return z3.Exists([i], z3.And(0 <= i, i < c.length, z3.Select(c.arr, i) == x))

        return mem
    if isinstance(c, (PyList, tuple, list)):
        items = c.items if isinstance(c, PyList) else list(c)
        return lambda x: z3.Or(*[x == it.ref for it in items]) if items else z3.BoolVal(False)
    raise X.EngineLimit("collection %r" % (c,))


def _pats(*ts):
    """explicit triggers when every term is a plain membership test (select on an array *name*); none otherwise"""
    if all(z3.is_select(t) and not z3.is_quantifier(t.arg(0)) for t in ts):
        return [z3.MultiPattern(*ts)] if len(ts) > 1 else [ts[0]]
    return []


def _native_members(c):
    if hasattr(c, "_value") and isinstance(c._value, frozenset):
        return c._value
    return frozenset(c)


def COLL_EMPTY(c):
    if smt():
        from pyvc.values import SymSeq, PyList

        if isinstance(c, SymSeq):
            return c.length == 0
        if isinstance(c, (PyList, tuple, list)):
            return len(c.items if isinstance(c, PyList) else c) == 0
        x = z3.FreshConst(X.V.RefSort, "x")
        m = _members(c)
        return z3.ForAll([x], z3.Not(m(x)), patterns=_pats(m(x)))
    return len(_native_members(c)) == 0


def COLL_ALL(c, pred):
    """every member satisfies pred"""
    if smt():
        from pyvc.values import SymSeq

        if isinstance(c, SymSeq):
            i = z3.FreshConst(z3.IntSort(), "ai")
            el = z3.Select(c.arr, i)
            return z3.ForAll([i], z3.Implies(z3.And(0 <= i, i < c.length), pred(el)), patterns=[el])
        x = z3.FreshConst(X.V.RefSort, "x")
        m = _members(c)
        return z3.ForAll([x], z3.Implies(m(x), pred(x)), patterns=_pats(m(x)))
    return all(pred(x) for x in _native_members(c))


def COLL_HOMOGENEOUS(c):
    """all members have the same class"""
    if smt():
        from pyvc.values import SymSeq

        if isinstance(c, SymSeq):
            return COLL_ALL(c, lambda x: TAG(x) == TAG(z3.Select(c.arr, 0)))
        x = z3.FreshConst(X.V.RefSort, "x")
        y = z3.FreshConst(X.V.RefSort, "y")
        m = _members(c)
        return z3.ForAll([x, y], z3.Implies(z3.And(m(x), m(y)), TAG(x) == TAG(y)), patterns=_pats(m(x), m(y)))
    return len(set(map(type, _native_members(c)))) <= 1


def COLL_SAME(a, b):
    """the two collections have the same members"""
    if smt():
        x = z3.FreshConst(X.V.RefSort, "x")
        ma, mb = _members(a), _members(b)
        return z3.And(z3.ForAll([x], z3.Implies(ma(x), mb(x)), patterns=_pats(ma(x))),
                      z3.ForAll([x], z3.Implies(mb(x), ma(x)), patterns=_pats(mb(x))))
    return _native_members(a) == _native_members(b)


def COLL_SUBSET(a, b):
    if smt():
        x = z3.FreshConst(X.V.RefSort, "x")
        ma, mb = _members(a), _members(b)
        return z3.ForAll([x], z3.Implies(ma(x), mb(x)), patterns=_pats(ma(x)))
    return _native_members(a) <= _native_members(b)


def COLL_IS(result, a, b, how):
    """result = a `how` b  (union / intersection / symmetric difference), member-wise"""
    if smt():
        x = z3.FreshConst(X.V.RefSort, "x")
        mr, ma, mb = _members(result), _members(a), _members(b)
        comb = {"union": z3.Or, "intersection": z3.And, "symdiff": z3.Xor}[how](ma(x), mb(x))
        return z3.And(z3.ForAll([x], z3.Implies(mr(x), comb), patterns=_pats(mr(x))),
                      z3.ForAll([x], z3.Implies(comb, mr(x)), patterns=_pats(ma(x))),
                      z3.ForAll([x], z3.Implies(comb, mr(x)), patterns=_pats(mb(x))))
    r, a, b = _native_members(result), _native_members(a), _native_members(b)
    return r == {"union": a | b, "intersection": a & b, "symdiff": a ^ b}[how]


def COLL_DISJOINT(a, b):
    if smt():
        x = z3.FreshConst(X.V.RefSort, "x")
        ma, mb = _members(a), _members(b)
        return z3.ForAll([x], z3.Not(z3.And(ma(x), mb(x))), patterns=_pats(ma(x)))
    return not (_native_members(a) & _native_members(b))


def _coerce_elements(engine, ctx, args, kwargs):
    """Set(...) is called with a tuple (literal), a frozenset (set algebra) or a generator expression (element-wise
    application); at call sites all of them are viewed as the collection of their elements."""
    from pyvc.values import PyList, MappedIter, Obj

    el = args[1] if len(args) > 1 else kwargs.get("elements")
    if isinstance(el, MappedIter) and el.fn is None:
        el = X.refset_of_generator(engine, ctx, el)
    elif isinstance(el, (tuple, PyList)):
        items = list(el) if isinstance(el, tuple) else el.items
        if not all(isinstance(x, Obj) for x in items):
            raise X.EngineLimit("Set(...) of %r" % (items,))
        t = z3.K(X.V.RefSort, z3.BoolVal(False))
        for x in items:
            t = z3.Store(t, x.ref, z3.BoolVal(True))
        el = X.SymSet(t, X.V.RefSort, fresh=True)
    if len(args) > 1:
        args[1] = el
    else:
        kwargs["elements"] = el
    return args, kwargs


@contract(SET_X + ".__init__", props=P)
class _SetInit:
    """A set is built from a non-empty collection of values of one class; anything else is an invalid operand."""
    instances = [{"elements": SeqOf(ObjOf(ANY))}, {"elements": X.RefSetK}]
    coerce_args = staticmethod(_coerce_elements)
    raises = {"InvalidOperandError": lambda s: OR(COLL_EMPTY(s.elements), NOT(COLL_HOMOGENEOUS(s.elements)))}

    def post(s):
        return {"members": COLL_SAME(s.self, s.elements),
                "element-type": COLL_ALL(s.elements, lambda x: TAG(x) == ET(s.self))}


SETR = ObjOf(SET_X, exact=True)


def same_et(a, b):
    return ET(a) == ET(b) if smt() else ET(a) is ET(b)


def _set_compare(name, fn):
    class _C:
        params = dict(right=ObjOf(ANY))
        returns = BOOLR
        raises = {"UndefinedOperatorError": lambda s: NOT(is_set(s.right)),
                  # defined only for sets that share the same element type
                  "InvalidOperandError": lambda s: AND(is_set(s.right), lambda: NOT(same_et(s.self, s.right)))}

        def post(s):
            return {"class": is_bool(s.result), "value": BOOL_EQ(bv(s.result), fn(s.self, s.right))}

    _C.__name__ = "_Set" + name
    contract(SET_X + "." + name, props=P)(_C)


_set_compare("_equal", lambda a, b: COLL_SAME(a, b))
_set_compare("_less_or_equal", lambda a, b: COLL_SUBSET(a, b))
_set_compare("_greater_or_equal", lambda a, b: COLL_SUBSET(b, a))
_set_compare("_less", lambda a, b: AND(COLL_SUBSET(a, b), NOT(COLL_SAME(a, b))))
_set_compare("_greater", lambda a, b: AND(COLL_SUBSET(b, a), NOT(COLL_SAME(a, b))))


def _set_algebra(name, how, empty_result):
    class _C:
        params = dict(right=ObjOf(ANY))
        returns = SETR
        raises = {"UndefinedOperatorError": lambda s: NOT(is_set(s.right)),
                  # ... and the result must not be empty (empty sets do not exist)
                  "InvalidOperandError": lambda s: AND(is_set(s.right), lambda: OR(NOT(same_et(s.self, s.right)),
                                                                                   empty_result(s.self, s.right)))}

        def post(s):
            return {"class": is_set(s.result), "members": COLL_IS(s.result, s.self, s.right, how),
                    "element-type": same_et(s.result, s.self)}

    _C.__name__ = "_Set" + name
    contract(SET_X + "." + name, props=P)(_C)


_set_algebra("_bitwise_or", "union", lambda a, b: False)
_set_algebra("_bitwise_and", "intersection", lambda a, b: COLL_DISJOINT(a, b))
_set_algebra("_bitwise_xor", "symdiff", lambda a, b: COLL_SAME(a, b))


# ------------------------------------------------------------------------------------------------ parser: literals
from pyvc.spec import loop_invariant

PARSER = "pydsdl._parser."


def STRLEN(s):
    if smt():
        from pyvc.values import Str as _S

        return z3.Length(_S.unwrap(s))
    return len(s)


def CHAR_AT(s, i):
    """s[i] for i >= 0, s[len+i] for i < 0 (a one-character string)"""
    if smt():
        from pyvc.values import Str as _S

        t = _S.unwrap(s)
        return z3.SubString(t, i if i >= 0 else z3.Length(t) + i, 1)
    return s[i]


def BODY(s):
    """the literal without its delimiters"""
    if smt():
        from pyvc.values import Str as _S

        t = _S.unwrap(s)
        return z3.SubString(t, 1, z3.Length(t) - 2)
    return s[1:-1]


def CONTAINS(s, sub):
    if smt():
        from pyvc.values import Str as _S

        return z3.Contains(_S.unwrap(s), _S.unwrap(sub))
    return sub in s


_SIMPLE_ESCAPES = {"r": "\r", "n": "\n", "t": "\t", '"': '"', "'": "'", "\\": "\\"}


def DECODE_STRING(literal):
    """The Specification's meaning of a string literal (None: malformed).  Escape table: \\r \\n \\t \\" \\' \\\\ (the letter in
    either case), \\uXXXX, \\UXXXXXXXX with a code point below 0x110000; every other escape is malformed - in particular
    \\xHH, octal escapes and \\0 do not exist in DSDL."""
    body, out, i = literal[1:-1], [], 0
    while i < len(body):
        ch = body[i]
        i += 1
        if ch != "\\":
            out.append(ch)
            continue
        if i >= len(body):
            return None
        e = body[i]
        i += 1
        if e in "uU":
            n = 4 if e == "u" else 8
            h = body[i:i + n]
            if len(h) < n or any(c not in "0123456789abcdefABCDEF" for c in h):
                return None
            i += n
            if int(h, 16) >= 0x110000:
                return None
            out.append(chr(int(h, 16)))
        elif e.lower() in _SIMPLE_ESCAPES:
            out.append(_SIMPLE_ESCAPES[e.lower()])
        else:
            return None
    return "".join(out)


_STRING_TEXTS = ["''", "'abc'", '"x y"', "'\\n'", "'\\r'", "'\\t'", "'\\\"'", '"\\\'"', "'\\\\'", "'a\\nb\\tc'", "'\\u0041'", "'\\u00e9'",
                 "'\\U0001F600'", "'\\U0010ffff'", "'\\ud800'", "'\\uAbCd'", '"it\'s"',
                 # malformed
                 "'\\x41'", "'\\101'", "'\\0'", "'\\z'", "'\\u12'", "'\\uZZZZ'", "'\\U0000004'", "'\\U00110000'", "'\\UFFFFFFFF'",
                 "'\\'", "'\\u'", "'ab\\'"]


@contract(PARSER + "_parse_string_literal", props=P)
class _ParseStringLiteral:
    """Domain: a literal delimited by one of the two quote characters whose body does not contain that quote character
    (the grammar admits it after a backslash; such literals are not covered).  Any malformed escape sequence - including
    a \\U escape beyond the last code point - is a syntax error, never anything else.  Symbolic literal: exception classes;
    concrete literals (every entry of the escape table, well-formed and malformed): the decoded text, value by value,
    against DECODE_STRING."""
    instances = [{"literal": Str}] + [{"literal": t} for t in _STRING_TEXTS]
    returns = STRR
    raises_if = {"DSDLSyntaxError": lambda s: (DECODE_STRING(s.literal) is None) if isinstance(s.literal, str) else True}

    def pre(s):
        lit = s.literal
        return {"delimited": AND(STRLEN(lit) >= 2, EQ(CHAR_AT(lit, 0), CHAR_AT(lit, -1)),
                                 OR(EQ(CHAR_AT(lit, 0), "'"), EQ(CHAR_AT(lit, 0), '"'))),
                "no-quote-inside": NOT(CONTAINS(BODY(lit), CHAR_AT(lit, 0)))}

    def post(s):
        if isinstance(s.literal, str):
            want = DECODE_STRING(s.literal)
            return {"class": is_str(s.result),
                    "decoded": AND(want is not None, lambda: EQ(sv(s.result), want))}
        return {"class": is_str(s.result)}


def ITER_POS(it):
    if smt():
        return it.pos
    return 0


@loop_invariant(PARSER + "_parse_string_literal", loop=0)
def _inv_parse_string(s):
    return {"position": ITER_POS(s.iterator) >= 0}


# ------------------------------------------------------------------------------------------------ operator wrappers
# The Specification's operator table (CONTRACTS.md, C04), over the operand classes
#   B Boolean, R Rational, S String, Q<e> Set with element class e in {B, R, S}, T serializable type (everything else).
# DOMAIN: sets of sets and sets of types are outside the table (not covered).
def OBJ(ref):
    """a member of a collection as an expression value"""
    if smt():
        from pyvc.values import Obj

        if isinstance(ref, Obj):
            return ref
        return ObjOf(ANY).wrap(speclib.CTX, ref)
    return ref


def EXISTS_MEMBER(c, pred):
    if smt():
        x = z3.FreshConst(X.V.RefSort, "m")
        return z3.Exists([x], z3.And(_members(c)(x), pred(OBJ(x))))
    return any(pred(x) for x in _native_members(c))


def FORALL_MEMBER(c, pred):
    return COLL_ALL(c, lambda x: pred(OBJ(x)))


def is_prim(x):
    return OR(is_bool(x), is_rat(x), is_str(x))


def et_prim(q):
    return OR(ET_IS(q, BOOLEAN_X), ET_IS(q, RATIONAL_X), ET_IS(q, STRING_X))


def DOMAIN(x):
    return IMPLIES(is_set(x), lambda: et_prim(x))


_POW_VALUE = lambda a, b: (ITE(IS_INT(b), RPOW(a, b), FPOW_VALUE(a, b)) if smt()
                           else (RPOW(a, b) if IS_INT(b) else FPOW_VALUE(a, b)))
_POW_INVALID = lambda a, b: OR(AND(IS_INT(b), a == 0, b < 0), AND(NOT(IS_INT(b)), lambda: FPOW_FAILS(a, b)))
ARITH = {  # name -> (value on rationals, undefined operand combinations on rationals)
    "add": (lambda a, b: a + b, None),
    "subtract": (lambda a, b: a - b, None),
    "multiply": (lambda a, b: a * b, None),
    "divide": (lambda a, b: a / b, lambda a, b: b == 0),
    "modulo": (lambda a, b: RMOD(a, b), lambda a, b: b == 0),
    "power": (_POW_VALUE, _POW_INVALID),
}


def prim_defined(op, x, y):
    """scalar (x op y) exists in the table: rationals; strings only for +"""
    ok = AND(is_rat(x), is_rat(y))
    if op == "add":
        ok = OR(ok, AND(is_str(x), is_str(y)))
    return ok


def prim_invalid(op, x, y):
    inv = ARITH[op][1]
    if inv is None:
        return False
    return AND(is_rat(x), is_rat(y), lambda: inv(rv(x), rv(y)))


def prim_value(op, x, y, res):
    val = ARITH[op][0]
    clauses = [IMPLIES(AND(is_rat(x), is_rat(y)), lambda: AND(is_rat(res), lambda: rv(res) == val(rv(x), rv(y))))]
    if op == "add":
        clauses.append(IMPLIES(AND(is_str(x), is_str(y)),
                               lambda: AND(is_str(res), lambda: EQ(sv(res), CONCAT(sv(x), sv(y))))))
    return AND(*clauses)


def ew_defined(op, q, s):
    """element-wise application of op between the members of q and the scalar s exists in the table"""
    ok = AND(ET_IS(q, RATIONAL_X), is_rat(s))
    if op == "add":
        ok = OR(ok, AND(ET_IS(q, STRING_X), is_str(s)))
    return ok


def arith_undefined(op, l, r):
    ql, qr = is_set(l), is_set(r)
    return NOT(OR(AND(NOT(ql), NOT(qr), prim_defined(op, l, r)),
                  AND(ql, NOT(qr), lambda: ew_defined(op, l, r)),
                  AND(NOT(ql), qr, lambda: ew_defined(op, r, l))))


def arith_invalid(op, l, r):
    ql, qr = is_set(l), is_set(r)
    return AND(NOT(arith_undefined(op, l, r)),
               OR(AND(NOT(ql), NOT(qr), prim_invalid(op, l, r)),
                  AND(ql, NOT(qr), lambda: EXISTS_MEMBER(l, lambda x: prim_invalid(op, x, r))),
                  AND(NOT(ql), qr, lambda: EXISTS_MEMBER(r, lambda x: prim_invalid(op, l, x)))))


def IMAGE(src, res, rel):
    """res = { y | x in src, rel(x, y) }: every member of res is related to a member of src and vice versa"""
    return AND(FORALL_MEMBER(res, lambda y: EXISTS_MEMBER(src, lambda x: rel(x, y))),
               FORALL_MEMBER(src, lambda x: EXISTS_MEMBER(res, lambda y: rel(x, y))))


def arith_value(op, l, r, res):
    ql, qr = is_set(l), is_set(r)
    return AND(IMPLIES(AND(NOT(ql), NOT(qr)), lambda: prim_value(op, l, r, res)),
               # element-wise, operand order preserved: {q} op s = {q op s},  s op {q} = {s op q}
               IMPLIES(AND(ql, NOT(qr)), lambda: AND(is_set(res), lambda: same_et(res, l),
                                                     lambda: IMAGE(l, res, lambda x, y: prim_value(op, x, r, y)))),
               IMPLIES(AND(NOT(ql), qr), lambda: AND(is_set(res), lambda: same_et(res, r),
                                                     lambda: IMAGE(r, res, lambda x, y: prim_value(op, l, x, y)))))


def _wrapper(name, undefined, invalid, value):
    class _C:
        params = dict(left=ObjOf(ANY), right=ObjOf(ANY))
        returns = ObjOf(ANY)
        raises = {"UndefinedOperatorError": lambda s: undefined(s.left, s.right)}

        def pre(s):
            return {"domain": AND(DOMAIN(s.left), DOMAIN(s.right))}

        def post(s):
            return {"value": value(s.left, s.right, s.result), "domain": DOMAIN(s.result)}

    if invalid is not None:
        _C.raises["InvalidOperandError"] = lambda s: invalid(s.left, s.right)
    _C.__name__ = "_Op" + name
    contract(OPMOD + name, props=P)(_C)


for _op in ARITH:
    _wrapper(_op, (lambda o: lambda l, r: arith_undefined(o, l, r))(_op), (lambda o: lambda l, r: arith_invalid(o, l, r))(_op),
             (lambda o: lambda l, r, res: arith_value(o, l, r, res))(_op))

# logical: booleans only
_both_bool = lambda l, r: AND(is_bool(l), is_bool(r))
_wrapper("logical_or", lambda l, r: NOT(_both_bool(l, r)), None,
         lambda l, r, res: AND(is_bool(res), lambda: BOOL_EQ(bv(res), OR(bv(l), bv(r)))))
_wrapper("logical_and", lambda l, r: NOT(_both_bool(l, r)), None,
         lambda l, r, res: AND(is_bool(res), lambda: BOOL_EQ(bv(res), AND(bv(l), bv(r)))))


# comparisons
def _same_class_prims(l, r):
    return OR(AND(is_bool(l), is_bool(r)), AND(is_rat(l), is_rat(r)), AND(is_str(l), is_str(r)))


def _both_sets(l, r):
    return AND(is_set(l), is_set(r))


def equal_value(l, r):
    """the truth value of l == r where it is defined"""
    return OR(AND(is_bool(l), is_bool(r), lambda: BOOL_EQ(bv(l), bv(r))),
              AND(is_rat(l), is_rat(r), lambda: rv(l) == rv(r)),
              AND(is_str(l), is_str(r), lambda: EQ(NFC(sv(l)), NFC(sv(r)))),
              AND(is_set(l), is_set(r), lambda: COLL_SAME(l, r)))


_eq_undefined = lambda l, r: NOT(OR(_same_class_prims(l, r), _both_sets(l, r)))
_sets_mismatch = lambda l, r: AND(_both_sets(l, r), lambda: NOT(same_et(l, r)))
_wrapper("equal", _eq_undefined, _sets_mismatch,
         lambda l, r, res: AND(is_bool(res), lambda: BOOL_EQ(bv(res), equal_value(l, r))))
_wrapper("not_equal", _eq_undefined, _sets_mismatch,
         lambda l, r, res: AND(is_bool(res), lambda: BOOL_EQ(bv(res), NOT(equal_value(l, r)))))


def _order(name, on_rat, on_set):
    _wrapper(name, lambda l, r: NOT(OR(AND(is_rat(l), is_rat(r)), _both_sets(l, r))), _sets_mismatch,
             lambda l, r, res: AND(is_bool(res), lambda: BOOL_EQ(bv(res), OR(
                 AND(is_rat(l), is_rat(r), lambda: on_rat(rv(l), rv(r))),
                 AND(is_set(l), is_set(r), lambda: on_set(l, r))))))


_order("less_or_equal", lambda a, b: a <= b, lambda a, b: COLL_SUBSET(a, b))
_order("greater_or_equal", lambda a, b: a >= b, lambda a, b: COLL_SUBSET(b, a))
_order("less", lambda a, b: a < b, lambda a, b: AND(COLL_SUBSET(a, b), NOT(COLL_SAME(a, b))))
_order("greater", lambda a, b: a > b, lambda a, b: AND(COLL_SUBSET(b, a), NOT(COLL_SAME(a, b))))


def _bitwise(name, which, how, empty_result):
    _wrapper(name, lambda l, r: NOT(OR(AND(is_rat(l), is_rat(r)), _both_sets(l, r))),
             lambda l, r: OR(AND(is_rat(l), is_rat(r), lambda: OR(NOT(IS_INT(rv(l))), NOT(IS_INT(rv(r))))),
                             AND(_both_sets(l, r), lambda: OR(NOT(same_et(l, r)), empty_result(l, r)))),
             lambda l, r, res: AND(
                 IMPLIES(AND(is_rat(l), is_rat(r)), lambda: AND(is_rat(res), lambda: rv(res) == BITOP(which, rv(l), rv(r)))),
                 IMPLIES(_both_sets(l, r), lambda: AND(is_set(res), lambda: same_et(res, l),
                                                      lambda: COLL_IS(res, l, r, how)))))


_bitwise("bitwise_or", "or", "union", lambda a, b: False)
_bitwise("bitwise_xor", "xor", "symdiff", lambda a, b: COLL_SAME(a, b))
_bitwise("bitwise_and", "and", "intersection", lambda a, b: COLL_DISJOINT(a, b))


# unary
def _unary(name, defined, value):
    class _C:
        params = dict(operand=ObjOf(ANY))
        returns = ObjOf(ANY)
        raises = {"UndefinedOperatorError": lambda s: NOT(defined(s.operand))}

        def post(s):
            return {"value": value(s.operand, s.result)}

    _C.__name__ = "_Op" + name
    contract(OPMOD + name, props=P)(_C)


_unary("logical_not", is_bool, lambda x, res: AND(is_bool(res), lambda: BOOL_EQ(bv(res), NOT(bv(x)))))
_unary("positive", is_rat, lambda x, res: AND(is_rat(res), lambda: rv(res) == rv(x)))
_unary("negative", is_rat, lambda x, res: AND(is_rat(res), lambda: rv(res) == -rv(x)))


# ------------------------------------------------------------------------------------------------ Set: element-wise
def _set_elementwise(op, swapped):
    pname = "left" if swapped else "right"
    app_defined = lambda s: AND(NOT(is_set(getattr(s, pname))), lambda: ew_defined(op, s.self, getattr(s, pname)))
    inv = (lambda x, o: prim_invalid(op, o, x)) if swapped else (lambda x, o: prim_invalid(op, x, o))
    val = (lambda x, o, y: prim_value(op, o, x, y)) if swapped else (lambda x, o, y: prim_value(op, x, o, y))

    class _C:
        """{q} op s = {q op s} and s op {q} = {s op q}: defined iff every single application is."""
        params = {pname: ObjOf(ANY)}
        returns = SETR
        raises = {"UndefinedOperatorError": lambda s: NOT(app_defined(s)),
                  "InvalidOperandError": lambda s: AND(app_defined(s), lambda: EXISTS_MEMBER(
                      s.self, lambda x: inv(x, getattr(s, pname))))}

        def pre(s):
            return {"domain": AND(DOMAIN(s.self), DOMAIN(getattr(s, pname)))}

        def post(s):
            o = getattr(s, pname)
            return {"class": is_set(s.result), "element-type": same_et(s.result, s.self),
                    "members": IMAGE(s.self, s.result, lambda x, y: val(x, o, y))}

    _C.__name__ = "_Set_%s%s" % (op, "_right" if swapped else "")
    contract(SET_X + "._%s%s" % (op, "_right" if swapped else ""), props=P)(_C)


for _op in ARITH:
    _set_elementwise(_op, False)
    _set_elementwise(_op, True)


# ------------------------------------------------------------------------------------------------ parser: visitors
from pyvc.values import Rec
from .common import VersionK

PTP = PARSER + "_ParseTreeProcessor."
NodeK = Rec("Node", text=Str)


@class_spec(PARSER + "_ParseTreeProcessor")
class _PTPSpec:
    fields = {}


# The Specification's literal syntax and meaning, written independently of the code (regular expressions of the
# Specification's grammar; positional notation; `_` is a digit separator without meaning).
import re as _re

SPEC_INT = {0: _re.compile(r"0[bB](_?[01])+|0[oO](_?[0-7])+|0[xX](_?[0-9a-fA-F])+|(0(_?0)*)+|[1-9](_?[0-9])*"),
            10: _re.compile(r"(0(_?0)*)+|[1-9](_?[0-9])*")}
_D = r"[0-9](_?[0-9])*"
SPEC_REAL = _re.compile(r"((%s)?\.%s|%s\.)([eE][+-]?%s)?|%s[eE][+-]?%s" % (_D, _D, _D, _D, _D, _D))


def INDEP_INT(text):
    """value of an integer literal: digits in the indicated base, separators ignored"""
    t = text.replace("_", "")
    base = 10
    if t[:2].lower() in ("0x", "0b", "0o"):
        base, t = {"x": 16, "b": 2, "o": 8}[t[1].lower()], t[2:]
    v = 0
    for ch in t:
        v = v * base + "0123456789abcdef".index(ch.lower())
    return fractions.Fraction(v)


def INDEP_REAL(text):
    """value of a real literal: mantissa * 10 ** exponent, exactly"""
    t = text.replace("_", "").lower()
    mant, _, exp = t.partition("e")
    ip, _, fp = mant.partition(".")
    v = fractions.Fraction(int(ip or "0")) + (fractions.Fraction(int(fp), 10 ** len(fp)) if fp else 0)
    if exp:
        v *= fractions.Fraction(10) ** ((-1 if exp[0] == "-" else 1) * int(exp.lstrip("+-")))
    return v


def _rv_const(fr):
    return z3.RealVal(str(fr.numerator)) / z3.RealVal(str(fr.denominator))


def _clean(text):
    from pyvc.values import Str as _S

    return X.clean_underscores(_S.unwrap(text))


def INT_LITERAL_OK(text, base):
    """the text is an integer literal of the Specification (base 0: any of the four notations; 10: decimal)"""
    if isinstance(text, str):
        return SPEC_INT[base].fullmatch(text) is not None
    return X.INT_OK(_clean(text), z3.IntVal(base))  # symbolic text: what the grammar rule guarantees (uninterpreted)


def INT_LITERAL_VALUE(text, base):
    if isinstance(text, str):
        v = INDEP_INT(text)
        return _rv_const(v) if smt() else v
    c = _clean(text)
    dig = lambda t, b: z3.ToReal(X.DIGITS(t, z3.IntVal(b)))
    if base == 10:
        return dig(c, 10)
    body = z3.SubString(c, 2, z3.Length(c) - 2)
    starts = lambda *ps: z3.Or(*[z3.PrefixOf(z3.StringVal(p), c) for p in ps])
    return z3.If(starts("0x", "0X"), dig(body, 16), z3.If(starts("0o", "0O"), dig(body, 8),
                                                         z3.If(starts("0b", "0B"), dig(body, 2), dig(c, 10))))


def REAL_LITERAL_OK(text):
    if isinstance(text, str):
        return SPEC_REAL.fullmatch(text) is not None
    return X.FRAC_OK(_clean(text))


def REAL_LITERAL_VALUE(text):
    if isinstance(text, str):
        v = INDEP_REAL(text)
        return _rv_const(v) if smt() else v
    return X.FRAC_VALUE(_clean(text))  # symbolic text: the exact decimal value of the cleaned text (uninterpreted)


def _node(text):
    from pyvc.values import RecV

    return RecV("Node", {"text": text})


_INT_TEXTS = ["0", "00", "0_0", "7", "1_000", "123456789012345678901234567890", "0x_1F", "0XdeadBEEF", "0xA_b", "0o17", "0O7_7",
              "0b1", "0B1_0_1", "0b0000"]
_DEC_TEXTS = ["0", "0_0", "9", "1_000", "255"]
_REAL_TEXTS = ["1.5", ".5", "5.", "1e3", "1e-5", "2.5E-3", "1_0.2_5e-1_0", ".5e+2", "5.e2", "1E0", "0.0", "123.456e-7"]


def _literal_visitor(name, ok, value, texts=()):
    class _C:
        """Precondition = what the grammar rule guarantees about the matched text (checked against the real grammar by
        the bounded literal enumeration, see EXTRA_CHECKS); then the visitor cannot raise and yields the literal's value."""
        params = dict(_c=X.OpaqueK)
        # the symbolic text (all texts, decoding functions uninterpreted) and a finite sample of concrete texts of every
        # notation, on which the real code is executed and compared with the independent decoder above
        instances = [{"node": NodeK}] + [{"node": _node(t)} for t in texts]
        returns = RATR

        def pre(s):
            return {"matches-rule": ok(s.node.text)}

        def post(s):
            return {"class": is_rat(s.result), "value": rv(s.result) == value(s.node.text)}

    _C.__name__ = "_Visit" + name
    contract(PTP + name, props=P)(_C)


_literal_visitor("visit_literal_integer", lambda t: INT_LITERAL_OK(t, 0), lambda t: INT_LITERAL_VALUE(t, 0), _INT_TEXTS)
_literal_visitor("visit_literal_integer_decimal", lambda t: INT_LITERAL_OK(t, 10), lambda t: INT_LITERAL_VALUE(t, 10), _DEC_TEXTS)
_literal_visitor("visit_literal_real", REAL_LITERAL_OK, REAL_LITERAL_VALUE, _REAL_TEXTS)


def _bool_literal(name, v):
    class _C:
        params = dict(_n=X.OpaqueK, _c=X.OpaqueK)
        returns = BOOLR

        def post(s):
            return {"class": is_bool(s.result), "value": BOOL_EQ(bv(s.result), v)}

    _C.__name__ = "_Visit" + name
    contract(PTP + name, props=P)(_C)


_bool_literal("visit_literal_boolean_true", True)
_bool_literal("visit_literal_boolean_false", False)


def _string_literal(name):
    class _C:
        params = dict(node=NodeK, _c=X.OpaqueK)
        returns = STRR
        raises = {"DSDLSyntaxError": None}
        pre = _ParseStringLiteral.pre
        pre = staticmethod(lambda s: _ParseStringLiteral.pre(type("NS", (), {"literal": s.node.text})))

        def post(s):
            return {"class": is_str(s.result)}

    _C.__name__ = "_Visit" + name
    contract(PTP + name, props=P)(_C)


_string_literal("visit_literal_string_single_quoted")
_string_literal("visit_literal_string_double_quoted")


@contract(PTP + "visit_literal_set", props=P)
class _VisitLiteralSet:
    """`{ e1, e2, ... }`: the children are (brace, blank, expression list, blank, brace)."""
    params = dict(_n=X.OpaqueK, children=X.TupleOf(X.OpaqueK, X.OpaqueK, SeqOf(ObjOf(ANY)), X.OpaqueK, X.OpaqueK))
    returns = SETR
    raises = {"InvalidOperandError": lambda s: OR(COLL_EMPTY(s.children[2]), NOT(COLL_HOMOGENEOUS(s.children[2])))}

    def post(s):
        return {"class": is_set(s.result), "members": COLL_SAME(s.result, s.children[2])}


@contract(PARSER + "_unwrap_array_capacity", props=P)
class _UnwrapArrayCapacity:
    params = dict(ex=ObjOf(ANY))
    returns = Int
    raises = {"InvalidOperandError": lambda s: AND(is_rat(s.ex), lambda: NOT(IS_INT(rv(s.ex)))),
              "InvalidDefinitionError": lambda s: NOT(is_rat(s.ex))}

    def post(s):
        return {"value": REAL(s.result) == rv(s.ex)}


@contract(PTP + "visit_type_version_specifier", props=P)
class _VisitVersionSpecifier:
    """`major.minor`: the children are (decimal integer literal, dot, decimal integer literal) - Rationals by the grammar."""
    params = dict(_n=X.OpaqueK, children=X.TupleOf(ObjOf(RATIONAL_X), X.OpaqueK, ObjOf(RATIONAL_X)))
    returns = VersionK
    raises = {"InvalidOperandError": lambda s: OR(NOT(IS_INT(rv(s.children[0]))), NOT(IS_INT(rv(s.children[2]))))}

    def post(s):
        return {"major": REAL(s.result.major) == rv(s.children[0]), "minor": REAL(s.result.minor) == rv(s.children[2])}


def _unary_form(name, defined, value):
    class _C:
        params = dict(_n=X.OpaqueK, children=X.TupleOf(X.OpaqueK, X.OpaqueK, ObjOf(ANY)))
        returns = ObjOf(ANY)
        raises = {"UndefinedOperatorError": lambda s: NOT(defined(s.children[2]))}

        def post(s):
            return {"value": value(s.children[2], s.result)}

    _C.__name__ = "_Visit" + name
    contract(PTP + name, props=P)(_C)


_unary_form("visit_op1_form_log_not", is_bool, lambda x, res: AND(is_bool(res), lambda: BOOL_EQ(bv(res), NOT(bv(x)))))
_unary_form("visit_op1_form_inv_pos", is_rat, lambda x, res: AND(is_rat(res), lambda: rv(res) == rv(x)))
_unary_form("visit_op1_form_inv_neg", is_rat, lambda x, res: AND(is_rat(res), lambda: rv(res) == -rv(x)))


# ------------------------------------------------------------------------------------------------ error locations (funnel)
ERROR = "pydsdl._error.Error"
PathK = Rec("Path", id=Int)  # a pathlib.Path: only stored, compared and tested for presence (a Path is always truthy)


@class_spec(ERROR)
class _ErrorSpec:
    fields = dict(_path=Opt(PathK), _line=Opt(Int))


def _known(opt_line):
    """a line number counts as known iff it is present and non-zero (lines are numbered from one)"""
    from pyvc.speclib import IS_NONE, VAL

    return AND(NOT(IS_NONE(opt_line)), lambda: NOT(VAL(opt_line) == 0))


@contract(ERROR + ".set_error_location_if_unknown", props=["C13"])
class _SetErrorLocation:
    """Entries that are already known are left unchanged; unknown entries take the supplied value (if one is supplied)."""
    params = dict(path=Opt(PathK), line=Opt(Int))
    modifies = ["_path", "_line"]

    def pre(s):
        # snapshot of the pre-state for the postcondition (the receiver is updated in place)
        s.__dict__["old_path"], s.__dict__["old_line"] = s.self._path, s.self._line
        return {}

    def post(s):
        from pyvc.speclib import IS_NONE

        return {
            "path-kept-if-known": IMPLIES(NOT(IS_NONE(s.old_path)), lambda: EQ(s.self._path, s.old_path)),
            "path-attached-if-unknown": IMPLIES(AND(IS_NONE(s.old_path), NOT(IS_NONE(s.path))), lambda: EQ(s.self._path, s.path)),
            "path-stays-unknown": IMPLIES(AND(IS_NONE(s.old_path), IS_NONE(s.path)), lambda: IS_NONE(s.self._path)),
            "line-kept-if-known": IMPLIES(_known(s.old_line), lambda: EQ(s.self._line, s.old_line)),
            "line-attached-if-unknown": IMPLIES(AND(NOT(_known(s.old_line)), _known(s.line)), lambda: EQ(s.self._line, s.line)),
            "line-otherwise-unchanged": IMPLIES(AND(NOT(_known(s.old_line)), NOT(_known(s.line))),
                                                lambda: EQ(s.self._line, s.old_line)),
        }


SSP = PARSER + "StatementStreamProcessor"


@class_spec(SSP)
class _SSPSpec:
    fields = {}


@class_spec(PARSER + "_ParseTreeProcessor")
class _PTPSpec2:
    fields = dict(_current_line_number=Int)


inline_ok(PTP + "__init__", PTP + "current_line_number", why="constructor / accessor of the parse tree processor: inlined")


@contract(PARSER + "_get_grammar", props=["C13"])
class _GetGrammar:
    returns = X.GrammarK
    verify = False
    assumed = "third party: the parsimonious Grammar object built from grammar.parsimonious (PEG semantics assumed)"


def EXC_LINE_KNOWN(exc):
    """the raised pydsdl Error carries a line number"""
    if smt():
        ln = speclib.CTX.engine.lib.exc_attr(speclib.CTX, exc, "_line")
        if ln is None:
            return False
        if isinstance(ln, int):
            return ln != 0
        if isinstance(ln, z3.ExprRef):
            return ln != 0
        return _known(ln)
    return bool(exc.line)


@contract(PARSER + "parse", props=["C13"])
class _Parse:
    """The funnel.  Error passes with its line attached; a text the grammar rejects is a DSDLSyntaxError; InternalError
    only if a visitor raised something that is not a pydsdl Error (ghost: visitor_crashed - excluded for the visitors
    under contract by their `noraise` obligations) or raised InternalError itself; nothing else ever leaves."""
    params = dict(text=Str, statement_stream_processor=ObjOf(SSP), strict=Bool)
    raises_if = {
        "InternalError": lambda s: AND(OR(X.VISITOR_CRASHED, X.VISITOR_INTERNAL), EXC_LINE_KNOWN(s.exc)) if smt() else True,
        "InvalidDefinitionError": lambda s: EXC_LINE_KNOWN(s.exc),
    }


# ------------------------------------------------------------------------------------------------ Set attributes
def CARD(q):
    """number of members of a Set"""
    if smt():
        return z3.ToReal(X.REFCARD(AS(q, SET_X)._value.term))
    return fractions.Fraction(len(q._value))


def HAS_TWO_MEMBERS(q):
    """the Set has at least two (distinct) members"""
    if smt():
        a, b = z3.FreshConst(X.V.RefSort, "ma"), z3.FreshConst(X.V.RefSort, "mb")
        mem = _members(q)
        return z3.Exists([a, b], z3.And(mem(a), mem(b), a != b))
    return len(q._value) >= 2


def MEMBER_OF(x, q):
    if smt():
        return _members(q)(x.ref)
    return x in q._value


def _name_is(s, *names):
    return OR(*[EQ(sv(s.name), n) for n in names])


@contract(SET_X + "._attribute", props=P)
class _SetAttribute:
    """min / max select a member (defined for rationals; a singleton of any class is returned as it is, because the
    comparison is never evaluated), count is the cardinality; anything else is an undefined attribute."""
    params = dict(name=ObjOf(STRING_X))
    returns = ObjOf(ANY)
    # two-sided: the order operators are defined for rationals only, so min / max of a set of two or more strings,
    # booleans or types is rejected (Specification: min / max exist where `<` is defined), never answered some other way
    raises = {"UndefinedAttributeError": lambda s: NOT(_name_is(s, "min", "max", "count")),
              "UndefinedOperatorError": lambda s: AND(_name_is(s, "min", "max"), NOT(ET_IS(s.self, RATIONAL_X)),
                                                      lambda: HAS_TWO_MEMBERS(s.self))}

    def pre(s):
        # any element class but Set itself (sets of sets are outside the operator table; sets of types are inside: the
        # comparison of two types is undefined)
        return {"elements-are-not-sets": NOT(ET_IS(s.self, SET_X))}

    def post(s):
        return {"count": IMPLIES(_name_is(s, "count"), lambda: AND(is_rat(s.result), lambda: rv(s.result) == CARD(s.self))),
                "min-max-select": IMPLIES(_name_is(s, "min", "max"), lambda: MEMBER_OF(s.result, s.self)),
                # the true minimum / maximum by the rational order
                "min": IMPLIES(AND(_name_is(s, "min"), ET_IS(s.self, RATIONAL_X)),
                               lambda: FORALL_MEMBER(s.self, lambda x: rv(s.result) <= rv(x))),
                "max": IMPLIES(AND(_name_is(s, "max"), ET_IS(s.self, RATIONAL_X)),
                               lambda: FORALL_MEMBER(s.self, lambda x: rv(s.result) >= rv(x)))}


# ------------------------------------------------------------------------------------------------ operator chains
def FOLDL(first, chain, n, named):
    """((first op_1 r_1) op_2 r_2) ... op_n r_n : the left fold of the first n (operator, right operand) groups"""
    if smt():
        return X.fold_term(speclib.CTX, chain, first, n if not isinstance(n, int) else z3.IntVal(n), named)
    acc = first
    for item in list(chain)[:n]:
        acc = item[1](acc, item[3])
    return acc


def LEN_(seq):
    from pyvc.speclib import LEN

    return LEN(seq)


def _same_value(a, b):
    return a is b or (type(a) is type(b) and a == b)


@contract(PTP + "_visit_binary_operator_chain", props=P)
class _VisitChain:
    """`operand (op operand)*` evaluates left to right: the operators are applied in the order of appearance, each to
    (value so far, next operand) - never with the operands swapped.  Two shapes of the chain: the right operands are
    expression values (all binary operator levels) or identifiers (attribute level)."""
    instances = [{"children": X.TupleOf(ObjOf(ANY), SeqOf(X.ChainItemK(False)))},
                 {"children": X.TupleOf(ObjOf(ANY), SeqOf(X.ChainItemK(True)))}]
    params = dict(_n=X.OpaqueK)
    returns = ObjOf(ANY)
    raises_if = {"InvalidOperandError": lambda s: True}

    def post(s):
        first, chain = s.children[0], s.children[1]
        named = smt() and chain.kind.named
        want = FOLDL(first, chain, LEN_(chain), named)
        return {"left-fold": s.result.ref == want if smt() else _same_value(s.result, want)}


@loop_invariant(PTP + "_visit_binary_operator_chain", loop=0)
def _inv_chain(s):
    acc = list(s.carried.values())[0]  # the accumulator, whatever the code calls it
    return {"prefix-folded": acc.ref == X.fold_term(s.ctx, s.seq, s.children[0], s.i, s.seq.kind.named)}
