"""
C02 - Every type's layout (lengths, alignment, extent, prefixes) is the Specification.

Ghost functions L(T) (bit length set) and A(T) (alignment) are defined per class by the Cyphal Specification, written
independently of the code (prefix width as "least w in {8,16,32,64} with c < 2**w", not via bit_length and log2).
Interface invariant WFT(T): T.bit_length_set denotes L(T); every element of L(T) is a multiple of A(T); A(T) in {1, 8}.
Each constructor is obligated to establish it assuming WFT of its element / field types (structural induction =
"nested to any depth"); the building blocks are the C01 contracts of BitLengthSet.
"""
import z3
from pyvc.spec import contract, class_spec, inline_ok, loop_invariant
from pyvc.values import Int, Bool, Str, IntSet, Opt, SeqOf, ObjOf, EnumOf, Obj, SymSet, SymSeq, PyList, RefSort
from pyvc.speclib import (AND, OR, NOT, IMPLIES, IFF, ITE, EQ, IS_NONE, VAL, ISINST, AS, FORALL_IDX, LEN, AT, FILTER,
                          MAPSEQ, smt)
from pyvc import speclib
from pyvc import settheory as st
from pyvc.settheory import (modset, padset, sumset, kfold_s, rangefold, singleton, SETEQ, MEM, SMIN, SMAX, WFSET, ALIGNED)
from .common import BLS_IFACE_RAISES
from .common import (VersionK, SERIALIZABLE, COMPOSITE, SERVICE, DELIMITED, PRIMITIVE, VOID_T, UNSIGNED_T, ATTRIBUTE, FIELD, PADDING,
                     CASTMODE, TRUNCATED, cast_mode_ord, POW2)
from .c01 import D, BLS
from . import c01  # noqa: the BitLengthSet contracts are used at every call site
from . import c12  # noqa: constructors of the primitive types

P = ["C02"]
SER = "pydsdl._serializable."
ARRAY = SER + "_array.ArrayType"
FIXED = SER + "_array.FixedLengthArrayType"
VARIABLE = SER + "_array.VariableLengthArrayType"
STRUCT = SER + "_composite.StructureType"
UNION = SER + "_composite.UnionType"
LEAN = ["Basic.lean", "Bounds.lean", "Layout.lean"]


# ------------------------------------------------------------------------------------------------ the Specification
def PREFIX_WIDTH(c):
    """Implicit array length prefix: the smallest of 8/16/32/64 bits that can hold the capacity."""
    return ITE(c < 2 ** 8, 8, ITE(c < 2 ** 16, 16, ITE(c < 2 ** 32, 32, 64)))


def TAG_WIDTH(n):
    """Union tag: the smallest of 8/16/32/64 bits that can hold the variant index (0 .. n-1)."""
    return ITE(n <= 2 ** 8, 8, ITE(n <= 2 ** 16, 16, ITE(n <= 2 ** 32, 32, 64)))


def _native_L(t):
    """The Specification's bit length set of a real type object, as a lazily evaluated set expression (c01.NSet: exact
    min / max / residues even when the set is far too large to enumerate)."""
    from .c01 import NSet

    leaf = lambda *xs: NSet("leaf", frozenset(xs))
    name = type(t).__name__
    if hasattr(t, "bit_length") and not hasattr(t, "element_type") and not hasattr(t, "fields"):
        return leaf(t.bit_length)
    if name == "FixedLengthArrayType":
        return NSet("rep", _native_L(t.element_type), t.capacity)
    if name == "VariableLengthArrayType":
        return NSet("cat", [leaf(PREFIX_WIDTH(t.capacity)), NSet("rng", _native_L(t.element_type), t.capacity)])
    if name == "StructureType":
        cur = leaf(0)
        for f in t.fields:
            cur = NSet("cat", [NSet("pad", cur, _native_A(f.data_type)), _native_L(f.data_type)])
        return NSet("pad", cur, 8)
    if name == "UnionType":
        n = len(t.fields)
        return NSet("pad", NSet("cat", [leaf(TAG_WIDTH(n)), NSet("uni", [_native_L(f.data_type) for f in t.fields])]), 8)
    if name == "DelimitedType":
        return NSet("cat", [leaf(32), NSet("rng", leaf(8), t.extent // 8)])
    raise TypeError(name)


def _native_A(t):
    name = type(t).__name__
    if name in ("FixedLengthArrayType", "VariableLengthArrayType"):
        return _native_A(t.element_type)
    if name in ("StructureType", "UnionType", "DelimitedType"):
        return 8
    return 1


def FIELDS(t):
    """the fields (incl. padding) of a composite, in order"""
    return FILTER(t._attributes, lambda a: ISINST(a, "Field")) if smt() else list(t.fields)


def FIELD_TYPES(t):
    return MAPSEQ(FIELDS(t), lambda f: f._data_type)


def SFOLD(types):
    """Structure layout: SFold([]) = {0}; SFold(fs + [f]) = SFold(fs) padded to A(f), then followed by L(f)."""
    if smt():
        if isinstance(types, SymSeq):
            return SymSet(st.sfold_f(st.lmap_f(types.arr), st.amap_f(types.arr), types.length))
        cur = singleton(0)
        for t in (types.items if isinstance(types, PyList) else types):
            cur = sumset(padset(cur, A(t)), L(t))
        return cur
    from .c01 import NSet

    cur = NSet("leaf", frozenset([0]))
    for t in types:
        cur = NSet("cat", [NSet("pad", cur, _native_A(t)), _native_L(t)])
    return cur


def UNIONS_L(types):
    if smt():
        if isinstance(types, SymSeq):
            return SymSet(st.unions_f(st.lmap_f(types.arr), types.length))
        items = types.items if isinstance(types, PyList) else list(types)
        s = st.seq_of_sets(speclib.CTX, [L(t) for t in items])
        return SymSet(st.unions_f(s.arr, s.length))
    from .c01 import NSet

    return NSet("uni", [_native_L(t) for t in types])


def L_formula(t):
    """L(T) from the fields of a (materialised or abstract) type object, by class: the Specification."""
    name = t.cls.name
    e = speclib.CTX.engine
    if t.cls.is_subclass_of(e.class_by_name("PrimitiveType")) or name == "VoidType":
        return singleton(t._bit_length)
    if name == "FixedLengthArrayType":
        return kfold_s(L(t._element_type), t._capacity)
    if name == "VariableLengthArrayType":
        return sumset(singleton(PREFIX_WIDTH(t._capacity)), rangefold(L(t._element_type), t._capacity))
    if name == "StructureType":
        return padset(SFOLD(FIELD_TYPES(t)), 8)
    if name == "UnionType":
        ft = FIELD_TYPES(t)
        return padset(sumset(singleton(TAG_WIDTH(LEN(ft))), UNIONS_L(ft)), 8)
    if name == "DelimitedType":
        return sumset(singleton(32), SymSet(st.mults_f(z3.IntVal(8), st._i(t._extent) / 8)))
    return None


def A_formula(t):
    name = t.cls.name
    e = speclib.CTX.engine
    if t.cls.is_subclass_of(e.class_by_name("PrimitiveType")) or name == "VoidType":
        return 1
    if name in ("FixedLengthArrayType", "VariableLengthArrayType"):
        return A(t._element_type)
    if name in ("StructureType", "UnionType", "DelimitedType"):
        return 8
    return None


def L(t):
    if smt():
        if t.fields is None:
            return SymSet(st.L_uf(t.ref))
        f = L_formula(t)
        return f if f is not None else SymSet(st.L_uf(t.ref))
    return _native_L(t)


def A(t):
    if smt():
        if t.fields is None:
            return st.A_uf(t.ref)
        f = A_formula(t)
        return f if f is not None else st.A_uf(t.ref)
    return _native_A(t)


def WFT(t):
    """interface invariant of SerializableType (ServiceType is not serializable and excluded)"""
    return AND(WFSET(L(t)), ALIGNED(L(t), A(t)), OR(A(t) == 1, A(t) == 8))


def EXTENT(t):
    """Ghost: the extent of a composite.  Sealed composites: the longest representation; delimited: the declared one.
    (Formula for an object under construction, uninterpreted ghost of the reference - defined by the class invariant -
    for an abstract object.)"""
    if smt():
        if t.fields is not None and t.cls.name in ("StructureType", "UnionType"):
            return SMAX(L(t))
        if t.fields is not None and t.cls.name == "DelimitedType":
            return st._i(t._extent)
        return speclib.CTX.engine.uf("ghost!extent", RefSort, z3.IntSort())(t.ref)
    return t.extent


def _ghost_def(self):
    """class-invariant clause that *defines* the ghosts of an object of a concrete class by the Specification formula"""
    lf, af = L_formula(self), A_formula(self)
    if lf is None:
        return {}
    return {"L-is-the-specification": SETEQ(L(self), lf), "A-is-the-specification": A(self) == af}


# ------------------------------------------------------------------------------------------------ class specs
@class_spec(SERIALIZABLE)
class _SerializableSpec:
    fields = {}
    whole_object = ["wft"]

    def invariant(self, skip=()):
        if "wft" in skip:
            return {}
        svc = ISINST(self, "ServiceType")
        # WFT(self), clause by clause (a service type is not serializable and has no layout)
        return {"wft-nonempty": OR(svc, lambda: WFSET(L(self))),
                "wft-lengths-aligned": OR(svc, lambda: ALIGNED(L(self), A(self))),
                "wft-alignment-is-1-or-8": OR(svc, lambda: OR(A(self) == 1, A(self) == 8))}


@class_spec(PRIMITIVE)
class _PrimLayout:
    fields = dict(_bit_length=Int, _cast_mode=EnumOf(CASTMODE), _standard_bit_length=Bool)

    def invariant(self):
        d = {"bit-length-range": AND(1 <= self._bit_length, self._bit_length <= 64)}
        d.update(_ghost_def(self))
        return d


@class_spec(VOID_T)
class _VoidLayout:
    fields = dict(_bit_length=Int)

    def invariant(self):
        d = {"bit-length-range": AND(1 <= self._bit_length, self._bit_length <= 64)}
        d.update(_ghost_def(self))
        return d


@class_spec(ARRAY)
class _ArraySpec:
    fields = dict(_element_type=ObjOf(SERIALIZABLE), _capacity=Int)

    def invariant(self):
        return {"capacity-positive": self._capacity >= 1,
                "element-serializable": NOT(ISINST(self._element_type, "ServiceType"))}


@class_spec(FIXED)
class _FixedSpec:
    fields = dict(_bls=ObjOf(BLS))

    def invariant(self):
        d = {"bls-is-L": SETEQ(D(self._bls), L(self))}
        d.update(_ghost_def(self))
        return d


@class_spec(VARIABLE)
class _VariableSpec:
    fields = dict(_bls=ObjOf(BLS), _length_field_type=ObjOf(UNSIGNED_T))

    def invariant(self):
        d = {"bls-is-L": SETEQ(D(self._bls), L(self)),
             "prefix-width": AND(self._length_field_type._bit_length == PREFIX_WIDTH(self._capacity),
                                 cast_mode_ord(self._length_field_type) == TRUNCATED),
             "capacity-fits-prefix": self._capacity < 2 ** 64}
        d.update(_ghost_def(self))
        return d


@class_spec(STRUCT)
class _StructSpec:
    fields = dict(_bls=ObjOf(BLS))

    def invariant(self):
        d = {"bls-is-L": SETEQ(D(self._bls), L(self)), "sealed-extent": EXTENT(self) == SMAX(L(self)),
             "fields-serializable": _fields_ok(self)}
        d.update(_ghost_def(self))
        return d


@class_spec(UNION)
class _UnionSpec:
    fields = dict(_bls=ObjOf(BLS), _tag_field_type=ObjOf(UNSIGNED_T))

    def invariant(self):
        n = LEN(FIELDS(self))
        d = {"bls-is-L": SETEQ(D(self._bls), L(self)), "sealed-extent": EXTENT(self) == SMAX(L(self)),
             "at-least-two-variants": n >= 2,
             "tag-width": AND(self._tag_field_type._bit_length == TAG_WIDTH(n), cast_mode_ord(self._tag_field_type) == TRUNCATED),
             "fields-serializable": _fields_ok(self)}
        d.update(_ghost_def(self))
        return d


def _fields_ok(t):
    return FORALL_IDX(FIELDS(t), lambda i, f: NOT(ISINST(f._data_type, "ServiceType")))


@class_spec(DELIMITED)
class _DelimitedSpec:
    fields = dict(_inner=ObjOf(COMPOSITE), _extent=Int, _delimiter_header_type=ObjOf(UNSIGNED_T), _bls=ObjOf(BLS))

    def invariant(self):
        d = {"bls-is-L": SETEQ(D(self._bls), L(self)),
             "extent": AND(EXTENT(self) == self._extent, self._extent >= 0, st.pmod(st._i(self._extent), 8) == 0
                           if smt() else self._extent % 8 == 0, self._extent >= EXTENT(self._inner)),
             "inner-not-service": NOT(ISINST(self._inner, "ServiceType", "DelimitedType")),
             "header": AND(self._delimiter_header_type._bit_length == 32, cast_mode_ord(self._delimiter_header_type) == TRUNCATED),
             "fields-serializable": _fields_ok(self)}
        d.update(_ghost_def(self))
        return d


# ------------------------------------------------------------------------------------------------ interface contracts
@contract(SERIALIZABLE + ".bit_length_set", props=P + ["C08", "C16"])
class _BlsIface:
    returns = ObjOf(BLS)
    verify = False
    assumed = "interface contract; every override is obligated to the same clause below"
    raises = {"TypeError": BLS_IFACE_RAISES}  # shared with the projections stated in c13_types.py / c18.py

    def post(s):
        return {"denotes-L": SETEQ(D(s.result), L(s.self))}


@contract(SERIALIZABLE + ".alignment_requirement", props=P + ["C08", "C16"])
class _AlignIface:
    returns = Int
    verify = False
    assumed = "interface contract; every override is obligated to the same clause below"

    def post(s):
        return {"is-A": s.result == A(s.self)}


def _override(cls_q, member, kind, extra_classes=None, never_raises=True):
    @contract(cls_q + "." + member, props=P + ["C16"])
    class _O:
        returns = kind
        self_classes = extra_classes

        def post(s):
            if member == "bit_length_set":
                return {"denotes-L": SETEQ(D(s.result), L(s.self))}
            return {"is-A": s.result == A(s.self)}

    return _O


_override(PRIMITIVE, "bit_length_set", ObjOf(BLS))
_override(PRIMITIVE, "alignment_requirement", Int)
_override(VOID_T, "bit_length_set", ObjOf(BLS))
_override(VOID_T, "alignment_requirement", Int)
_override(ARRAY, "alignment_requirement", Int, ["FixedLengthArrayType", "VariableLengthArrayType"])
_override(FIXED, "bit_length_set", ObjOf(BLS))
_override(VARIABLE, "bit_length_set", ObjOf(BLS))
_override(COMPOSITE, "alignment_requirement", Int, ["StructureType", "UnionType", "DelimitedType"])
_override(STRUCT, "bit_length_set", ObjOf(BLS))
_override(UNION, "bit_length_set", ObjOf(BLS))
_override(DELIMITED, "bit_length_set", ObjOf(BLS))


@contract(COMPOSITE + ".extent", props=["C11", "C02"])
class _ExtentSealed:
    """The inherited `extent` (sealed composites): the longest representation."""
    returns = Int
    self_classes = ["StructureType", "UnionType"]
    # a service type has no layout: its bit_length_set raises TypeError, hence so does its (inherited) extent
    raises = {"TypeError": lambda s: ISINST(s.self, "ServiceType")}

    def post(s):
        return {"extent": s.result == EXTENT(s.self),
                "sealed-extent-is-longest-representation": IMPLIES(NOT(ISINST(s.self, "DelimitedType", "ServiceType")),
                                                                   lambda: s.result == SMAX(L(s.self)))}


@contract(DELIMITED + ".extent", props=P)
class _ExtentDelimited:
    returns = Int

    def post(s):
        return {"extent": s.result == EXTENT(s.self), "declared-extent": s.result == s.self._extent}


inline_ok(ARRAY + ".element_type", ARRAY + ".capacity", VARIABLE + ".length_field_type", UNION + ".tag_field_type",
          UNION + ".number_of_variants", DELIMITED + ".inner_type", DELIMITED + ".delimiter_header_type",
          COMPOSITE + ".inner_type", COMPOSITE + ".attributes", COMPOSITE + ".fields")


# ------------------------------------------------------------------------------------------------ arrays
@contract(ARRAY + ".__init__", props=P + ["C05"])
class _ArrayInit:
    params = dict(element_type=ObjOf(SERIALIZABLE), capacity=Int)
    raises = {"InvalidNumberOfElementsError": lambda s: s.capacity < 1,
              # a service type has no layout (its bit_length_set raises TypeError): not an element type
              "InvalidElementTypeError": lambda s: ISINST(s.element_type, "ServiceType")}

    def post(s):
        return {"fields": AND(s.self._element_type.ref == s.element_type.ref if smt() else s.self._element_type is s.element_type,
                              s.self._capacity == s.capacity)}


@contract(FIXED + ".__init__", props=P + ["C05"])
class _FixedInit:
    params = dict(element_type=ObjOf(SERIALIZABLE), capacity=Int)
    raises = {"InvalidNumberOfElementsError": lambda s: s.capacity < 1,
              "InvalidElementTypeError": lambda s: ISINST(s.element_type, "ServiceType")}

    def post(s):
        return {"fields": s.self._capacity == s.capacity}


@contract(VARIABLE + ".__init__", props=P + ["C05"])
class _VariableInit:
    params = dict(element_type=ObjOf(SERIALIZABLE), capacity=Int)
    raises = {"InvalidNumberOfElementsError": lambda s: s.capacity < 1,
              "InvalidElementTypeError": lambda s: ISINST(s.element_type, "ServiceType"),
              # a capacity that no 64-bit length prefix can hold
              "InvalidBitLengthError": lambda s: s.capacity >= 2 ** 64}

    def pre(s):
        return {"engine-domain": s.capacity < 2 ** 128}

    def post(s):
        return {"fields": s.self._capacity == s.capacity}


for _cls in (UNSIGNED_T, "pydsdl._serializable._primitive.IntegerType"):
    @contract(_cls + ".__init__", props=["C12", "C05", "C02"])
    class _IntInit:
        params = dict(bit_length=Int)
        raises = {"InvalidBitLengthError": lambda s: NOT(AND(1 <= s.bit_length, s.bit_length <= 64))}

        def post(s):
            return {"width": s.self._bit_length == s.bit_length, "cast-mode": EQ(s.self._cast_mode, s.cast_mode)}


# ------------------------------------------------------------------------------------------------ composites
@contract(COMPOSITE + ".__init__", props=["C05"])
class _CompositeInitAssumed:
    """Names, versions, port-IDs, aggregation: the subject of C05.  Used here: it stores the attributes as given."""
    params = dict(name=Str, version=VersionK, attributes=SeqOf(ObjOf(ATTRIBUTE)), deprecated=Bool, fixed_port_id=Opt(Int),
                  source_file_path=Str, has_parent_service=Bool, doc=Str)
    verify = False
    assumed = "CompositeType.__init__ is the subject of C05 (every check is stated and verified there)"
    raises = {"InvalidNameError": None, "InvalidVersionError": None, "AttributeNameCollisionError": None,
              "InvalidFixedPortIDError": None, "AggregationError": None}

    def post(s):
        return {"attributes-stored": _seq_same_refs(s.self._attributes, s.attributes),
                # ServiceType._check_aggregation always reports a failure and CompositeType.__init__ raises
                # AggregationError for any attribute whose type fails the aggregation check (verified under C05)
                "service-types-rejected": FORALL_IDX(s.attributes, lambda i, a: NOT(ISINST(a._data_type, "ServiceType"))),
                "scalars-stored": AND(EQ(s.self._version, s.version), IFF(s.self._deprecated, s.deprecated),
                                      EQ(s.self._fixed_port_id, s.fixed_port_id),
                                      IFF(s.self._has_parent_service, s.has_parent_service))}


def _seq_same_refs(a, b):
    """`a` is an element-wise copy of `b` (lists are modelled as total index functions plus a length; a copy shares both)"""
    if smt():
        if isinstance(b, SymSeq) and isinstance(a, SymSeq):
            return AND(a.length == b.length, a.arr == b.arr)
        raise speclib.V.EngineLimit("attributes given as a concrete list")
    return list(a) == list(b)


@contract(STRUCT + ".aggregate_bit_length_sets", props=P + ["C08", "C16"])
class _StructAggregate:
    params = dict(field_types=SeqOf(ObjOf(SERIALIZABLE)))
    returns = ObjOf(BLS)

    def pre(s):
        return {"serializable": FORALL_IDX(s.field_types, lambda i, t: NOT(ISINST(t, "ServiceType")))}

    def post(s):
        return {"struct-fold": SETEQ(D(s.result), SFOLD(s.field_types))}


@loop_invariant(STRUCT + ".aggregate_bit_length_sets", loop=0)
def _inv_struct_aggregate(s):
    ft = s.field_types
    # after i iterations over field_types[1:], the first i+1 fields are folded (none if there is no field at all)
    n = ITE(LEN(ft) == 0, 0, s.i + 1)
    return {"prefix-folded": SETEQ(D(_accumulator(s)), SymSet(st.sfold_f(st.lmap_f(ft.arr), st.amap_f(ft.arr), st._i(n))))}


def _accumulator(s):
    """the loop-carried BitLengthSet of the loop, whatever the code calls it"""
    accs = [v for v in s.carried.values() if isinstance(v, Obj) and v.cls.name == "BitLengthSet"]
    if len(accs) != 1:
        raise speclib.V.EngineLimit("expected exactly one loop-carried BitLengthSet, found %d" % len(accs))
    return accs[0]


def _struct_aggregate_triggers(s):
    ft = s.field_types
    F, M = st.lmap_f(ft.arr), st.amap_f(ft.arr)
    return [st.sfold_unfold(F, M, s.i + 1), st.sfold_unfold(F, M, s.i), st.sfold_unfold(F, M, 0)]


_inv_struct_aggregate.triggers = _struct_aggregate_triggers


@contract(UNION + "._compute_tag_bit_length", props=P + ["C16"])
class _TagWidth:
    params = dict(field_types=SeqOf(ObjOf(SERIALIZABLE)))
    returns = Int

    def pre(s):
        return {"at-least-two": LEN(s.field_types) > 1,
                "serializable": FORALL_IDX(s.field_types, lambda i, t: NOT(ISINST(t, "ServiceType")))}

    def post(s):
        return {"tag-width": s.result == TAG_WIDTH(LEN(s.field_types))}


@contract(UNION + ".aggregate_bit_length_sets", props=P + ["C08", "C16"])
class _UnionAggregate:
    params = dict(field_types=SeqOf(ObjOf(SERIALIZABLE)))
    returns = ObjOf(BLS)

    def pre(s):
        return {"serializable": FORALL_IDX(s.field_types, lambda i, t: NOT(ISINST(t, "ServiceType")))}

    def post(s):
        n = LEN(s.field_types)
        return {"tag-plus-union": IMPLIES(n >= 2, lambda: SETEQ(D(s.result), sumset(singleton(TAG_WIDTH(n)), UNIONS_L(s.field_types)))),
                "degenerate-zero": IMPLIES(n == 0, lambda: SETEQ(D(s.result), singleton(0))),
                "degenerate-one": IMPLIES(n == 1, lambda: SETEQ(D(s.result), L(AT(s.field_types, 0))))}


def _attr_fields_serializable(s):
    # domain of the property: serializable field types (a ServiceType is not serializable and never a field type of a
    # type that pydsdl builds: DataTypeBuilder only wraps request/response into ServiceType at the very end)
    return FORALL_IDX(FILTER(s.attributes, lambda a: ISINST(a, "Field")), lambda i, f: NOT(ISINST(f._data_type, "ServiceType")))


_COMPOSITE_PARAMS = dict(name=Str, version=VersionK, attributes=SeqOf(ObjOf(ATTRIBUTE)), deprecated=Bool, fixed_port_id=Opt(Int),
                         source_file_path=Str, has_parent_service=Bool, doc=Str)
_COMPOSITE_RAISES = {"InvalidNameError": None, "InvalidVersionError": None, "AttributeNameCollisionError": None,
                     "InvalidFixedPortIDError": None, "AggregationError": None}


@contract(STRUCT + ".__init__", props=P)
class _StructInit:
    params = _COMPOSITE_PARAMS
    raises = dict(_COMPOSITE_RAISES)


@contract(UNION + ".__init__", props=P)
class _UnionInit:
    params = _COMPOSITE_PARAMS
    raises = dict(_COMPOSITE_RAISES, MalformedUnionError=lambda s: LEN(FILTER(s.attributes, lambda a: ISINST(a, "Field"))) < 2)


@contract(DELIMITED + ".__init__", props=P + ["C05", "C14"])
class _DelimitedInit:
    params = dict(inner=ObjOf(COMPOSITE), extent=Int)
    raises = {"InvalidNameError": None, "InvalidVersionError": None, "AttributeNameCollisionError": None,
              "InvalidFixedPortIDError": None, "AggregationError": None,
              # a byte-multiple extent not smaller than the longest representation
              "InvalidExtentError": lambda s: OR(NOT(st.pmod(st._i(s.extent), 8) == 0) if smt() else s.extent % 8 != 0,
                                                 s.extent < EXTENT(s.inner))}

    def pre(s):
        return {"inner-sealed-composite": NOT(ISINST(s.inner, "ServiceType", "DelimitedType"))}

    def post(s):
        return {"fields": s.self._extent == s.extent}


NOT_COVERED = ["that the parser hands the right arguments to these constructors (C03/C05)", "ServiceType (not serializable)"]
EXPLANATION = ("Every constructor establishes: bit_length_set denotes the Specification's L(T) (written independently), all "
               "lengths are multiples of the alignment, prefixes/tags/headers have the specified widths, sealed extent = "
               "longest representation, delimited set = header + {0, 8, ..., extent}.")


# ------------------------------------------------------------------------------------------------ native harness
# The same contracts, read natively on real type objects: random nested types (arrays of composites of arrays ...),
# capacities and variant counts at every prefix / tag width boundary.  Bounded; reported under coverage.bounded.
from pyvc.native import NativeSuite

NATIVE = NativeSuite()
NATIVE_BUDGET = {"quick": 120, "thorough": 2000}
_BOUNDARY_CAPS = [1, 2, 3, 7, 8, 255, 256, 257, 65535, 65536, 65537, 2 ** 32 - 1, 2 ** 32, 2 ** 32 + 1, 2 ** 63]


def _gen_type(rng, depth, big=True):
    kinds = ["prim", "prim", "fixed", "var", "struct", "union", "delimited"] if depth > 0 else ["prim"]
    k = rng.choice(kinds)
    if k == "prim":
        return ["prim", rng.choice(["bool", "uint", "int", "float", "void", "byte", "utf8"]), rng.choice([1, 2, 3, 7, 8, 9, 16, 17, 32, 33, 63, 64])]
    if k == "fixed":
        return ["fixed", _gen_type(rng, depth - 1), rng.choice([1, 2, 3, 5] + ([2 ** 40] if big and rng.random() < 0.2 else []))]
    if k == "var":
        return ["var", _gen_type(rng, depth - 1), rng.choice([1, 2, 3] + (_BOUNDARY_CAPS if big else []))]
    n = rng.choice([0, 1, 2, 3]) if k != "union" else rng.choice([2, 3])
    fields = [_gen_type(rng, depth - 1) for _ in range(n)]
    if k == "delimited":
        return ["delimited", ["struct", fields], rng.choice([0, 8, 64, 1024])]
    return [k, fields]


def _build_type(t, counter=None):
    import pydsdl
    from pydsdl import _serializable as S
    from pathlib import Path

    counter = counter if counter is not None else [0]
    k = t[0]
    if k == "prim":
        name, w = t[1], t[2]
        CM = S.PrimitiveType.CastMode
        if name == "bool":
            return S.BooleanType()
        if name == "uint":
            return S.UnsignedIntegerType(w, CM.TRUNCATED)
        if name == "int":
            return S.SignedIntegerType(max(2, w), CM.SATURATED)
        if name == "float":
            return S.FloatType(min([16, 32, 64], key=lambda x: abs(x - w)), CM.SATURATED)
        if name == "void":
            return S.VoidType(w)
        if name == "byte":
            return S.ByteType()
        return S.UTF8Type()
    if k == "fixed":
        return S.FixedLengthArrayType(_build_type(t[1], counter), t[2])
    if k == "var":
        return S.VariableLengthArrayType(_build_type(t[1], counter), t[2])
    if k == "delimited":
        inner = _build_type(t[1], counter)
        ext = max(t[2], inner.extent)
        return S.DelimitedType(inner, ext + (-ext) % 8)
    counter[0] += 1
    attrs = []
    for i, ft in enumerate(t[1]):
        dt = _build_type(ft, counter)
        if isinstance(dt, S.VoidType):
            if k == "union":
                dt = S.UnsignedIntegerType(dt.bit_length, S.PrimitiveType.CastMode.TRUNCATED)
                attrs.append(S.Field(dt, "f%d" % i))
            else:
                attrs.append(S.PaddingField(dt))
        elif isinstance(dt, (S.ByteType, S.UTF8Type)):
            attrs.append(S.Field(S.VariableLengthArrayType(dt, 3), "f%d" % i))
        else:
            attrs.append(S.Field(dt, "f%d" % i))
    cls = S.StructureType if k == "struct" else S.UnionType
    return cls(name="ns.T%d" % counter[0], version=S.Version(1, 0), attributes=attrs, deprecated=False, fixed_port_id=None,
               source_file_path=Path("/tmp/ns/T%d.1.0.dsdl" % counter[0]), has_parent_service=False)


def _type_case(member, roots):
    def gen(rng, i):
        for _ in range(20):
            t = _gen_type(rng, 3)
            if t[0] in roots:
                return {"type": t}
        return None

    def build(desc):
        obj = _build_type(desc["type"])
        return (lambda: getattr(obj, member)), {"self": obj}

    return gen, build


for _q, _roots in ((PRIMITIVE, ["prim"]), (VOID_T, ["prim"]), (FIXED, ["fixed"]), (VARIABLE, ["var"]), (STRUCT, ["struct"]),
                   (UNION, ["union"]), (DELIMITED, ["delimited"])):
    _g, _b = _type_case("bit_length_set", _roots)
    NATIVE.add(_q + ".bit_length_set", _g, _b)
for _q, _roots in ((ARRAY, ["fixed", "var"]), (COMPOSITE, ["struct", "union", "delimited"])):
    _g, _b = _type_case("alignment_requirement", _roots)
    NATIVE.add(_q + ".alignment_requirement", _g, _b)
_g, _b = _type_case("extent", ["struct", "union"])
NATIVE.add(COMPOSITE + ".extent", _g, _b)
_g, _b = _type_case("extent", ["delimited"])
NATIVE.add(DELIMITED + ".extent", _g, _b)


def _agg_case(cls_name):
    def gen(rng, i):
        n = rng.choice([0, 1, 2, 3, 4]) if cls_name == "StructureType" else rng.choice([0, 1, 2, 3, 256, 257])
        base = [_gen_type(rng, 2, big=False) for _ in range(min(n, 4))]
        if n >= 2 and rng.random() < 0.3:
            # two members whose length sets differ but agree in min, max and residues modulo 32 ({8, 72} / {8, 40, 72}):
            # BitLengthSet.__eq__ / __hash__ cannot tell them apart, the layout must
            pair = [["var", ["prim", "uint", 64], 1], ["var", ["prim", "uint", 32], 2]]
            if rng.random() < 0.5:
                pair.reverse()
            base = pair + base[2:]
        return {"types": base, "n": n}

    def build(desc):
        from pydsdl import _serializable as S

        ts = [_build_type(t) for t in desc["types"]]
        ts = [t if not isinstance(t, (S.ByteType, S.UTF8Type)) else S.UnsignedIntegerType(8, S.PrimitiveType.CastMode.TRUNCATED)
              for t in ts]
        while ts and len(ts) < desc["n"]:
            ts.append(ts[len(ts) % max(1, len(desc["types"]))])
        cls = getattr(S, cls_name)
        return (lambda: cls.aggregate_bit_length_sets(ts)), {"field_types": ts}

    return gen, build


_g, _b = _agg_case("StructureType")
NATIVE.add(STRUCT + ".aggregate_bit_length_sets", _g, _b)
_g, _b = _agg_case("UnionType")
NATIVE.add(UNION + ".aggregate_bit_length_sets", _g, _b)


def _gen_tag(rng, i):
    return {"n": rng.choice([2, 3, 255, 256, 257, 65536, 65537])}


def _build_tag(desc):
    from pydsdl import _serializable as S

    u8 = S.UnsignedIntegerType(8, S.PrimitiveType.CastMode.TRUNCATED)
    ts = [u8] * desc["n"]
    return (lambda: S.UnionType._compute_tag_bit_length(ts)), {"field_types": ts}


NATIVE.add(UNION + "._compute_tag_bit_length", _gen_tag, _build_tag)


def _gen_varinit(rng, i):
    return {"elem": _gen_type(rng, 1, big=False), "capacity": rng.choice(_BOUNDARY_CAPS + [0, -1, 2 ** 64 - 1, 2 ** 64])}


def _build_varinit(desc):
    from pydsdl import _serializable as S

    e = _build_type(desc["elem"])
    return (lambda: S.VariableLengthArrayType(e, desc["capacity"])), {"element_type": e, "capacity": desc["capacity"]}


class _VarInitNative:
    pass


NATIVE.add(VARIABLE + ".__init__", _gen_varinit, _build_varinit)


def _varinit_extra(ns):
    t = ns.self
    return t.length_field_type.bit_length == PREFIX_WIDTH(t.capacity) and SETEQ(D(t.bit_length_set), L(t))


_VariableInit.native_extra_post = staticmethod(_varinit_extra)


# effect obligations (AST, complete for what they state): no memoising decorator, no module-level state - see specs/common.py
from .common import no_hidden_state_check as _no_hidden_state_check  # noqa: E402
EXTRA_CHECKS = list(globals().get("EXTRA_CHECKS", [])) + [_no_hidden_state_check(
    ["pydsdl._serializable._serializable", "pydsdl._serializable._primitive", "pydsdl._serializable._void", "pydsdl._serializable._array", "pydsdl._serializable._composite", "pydsdl._serializable._attribute"], "the type constructors and layout queries")]
