"""
C14 (wire half) - delimited types on the wire.  Imported by specs/c14.py; the layout half is added there.

Contracts in specs/c06.py tagged C14: the bounded sub-reader (a nested delimited object is read through a reader limited to
8 * header bits; reads beyond the limit yield zeros; the parent is advanced past exactly those bits), the delimited branch of
_deserialize_composite / deserialize (offset after = before + 32 + 8 * header whatever the inner type is; header larger than
the remaining data is rejected) and the bit writer.  The layout half (container bit length sets / offsets depend only on the
extent of a nested delimited type) belongs to the C02/C08 contracts and is not part of this module.
"""
from . import c06 as _c
from .c06 import LEAN, LEVEL, NATIVE_BUDGET  # noqa
from pyvc.native import NativeSuite

NATIVE = NativeSuite()
for _q, _g, _b in _c.NATIVE.cases:
    if "_BitReader" in _q or "_BitWriter" in _q or _q.endswith("_deserialize_composite") or _q.endswith(".deserialize"):
        NATIVE.add(_q, _g, _b)


def _bounded_c14(eng, tier, seed):
    r = _c._bounded_codec(eng, tier, seed)
    r["name"] = "C14 part (delimited evolution pairs) of the " + r["name"]
    return r


EXTRA_CHECKS = [_bounded_c14, _c._no_hidden_state]  # no state shared between the payloads of nested delimited objects
NOT_COVERED = _c.NOT_COVERED_C14
EXPLANATION = _c.EXPLANATION_C14
ASSUMPTIONS = _c.ASSUMPTIONS

