"""
Generic link between properties: property A uses (assumes) the contract of a function whose BODY is verified in the run of
property B (modular verification: a change inside that function is noticed where its own postcondition is checked).  So
that such a change is also reported by A's check, `linked(...)` builds an EXTRA_CHECK for A that runs B's check on the same
tree in its own process (spec modules of different properties may declare the same classes with different field kinds),
keeps only the obligations of the named functions, and reports them under the prefix `<B>:`.  Results are cached by the hash
of everything they depend on.  A run of B that leaves one of the named functions undecided makes A undecided (never a pass);
trouble elsewhere in B is B's business.  Evidence of the sub-run goes to .cache/ (it is not evidence of B's own check).
"""
import glob
import hashlib
import json
import os
import re
import subprocess
import sys

ROOT = os.path.dirname(os.path.dirname(os.path.abspath(__file__)))


def linked(runner_id, what, functions, repo_files, spec_files):
    """functions: substrings of qualified names (e.g. "DSDLDefinition.full_namespace") whose obligations are imported."""

    def relevant(text):
        return any(f in text for f in functions)

    def key(tier):
        from pyvc import frontend

        h = hashlib.sha256((tier + runner_id + "|".join(functions)).encode())
        files = [os.path.join(frontend.REPO_ROOT, "pydsdl", f) for f in repo_files]
        files += sorted(glob.glob(os.path.join(ROOT, "pyvc", "*.py")))
        files += [os.path.join(ROOT, "specs", f) for f in spec_files] + [os.path.join(ROOT, "specs", "link.py")]
        files += [os.path.join(ROOT, "ledger", "%s.json" % runner_id), os.path.join(ROOT, "known_findings.txt")]
        for f in files:
            h.update(f.encode())
            if os.path.exists(f):
                with open(f, "rb") as fh:
                    h.update(fh.read())
        return h.hexdigest()[:24]

    def check(eng, tier, seed):
        os.makedirs(os.path.join(ROOT, ".cache"), exist_ok=True)
        cache = os.path.join(ROOT, ".cache", "link-%s-%s.json" % (runner_id, key(tier)))
        if os.path.exists(cache):
            out = json.load(open(cache))
            out["cached"] = True
        else:
            env = dict(os.environ)
            env.pop("PYVC_WRITE_LEDGER", None)
            dump = os.path.join(ROOT, ".cache", "link-%s-results-%d.json" % (runner_id, os.getpid()))
            env["PYVC_DUMP_RESULTS"] = dump
            env["PYVC_EVIDENCE_DIR"] = os.path.join(ROOT, ".cache", "evidence-linked")
            p = subprocess.run([sys.executable, "-m", "pyvc.cli", runner_id, "--tier", tier], cwd=ROOT, env=env,
                               stdout=subprocess.PIPE, stderr=subprocess.STDOUT, text=True, timeout=3000)
            lines = [ln for ln in p.stdout.splitlines() if not ln.startswith("WARNING")]
            by_name = {}
            if os.path.exists(dump):
                for r in json.load(open(dump)):
                    if not (relevant(r.get("function") or "") or relevant(r["name"])):
                        continue
                    e = by_name.setdefault(r["name"], {"name": "%s:%s" % (runner_id, r["name"]), "ok": True,
                                                       "function": r["function"], "detail": ""})
                    if not r["ok"]:
                        e["ok"] = False
                        e["detail"] = "status %s in the %s run" % (r["status"], runner_id)
                os.remove(dump)
            # concrete failures of the native reading of the same contracts (found after the solver phase)
            for ln in lines:
                m = re.search(r"obligation=(\S+)", ln)
                if ln.startswith("VIOLATION") and m and relevant(m.group(1)) and "native" in m.group(1):
                    by_name["native:" + m.group(1)] = {"name": "%s:%s" % (runner_id, m.group(1)), "ok": False, "function": "",
                                                       "detail": ln[:300]}
            out = {"check": "contracts of %s (verified in the run of %s, own process)" % (what, runner_id),
                   "exit": p.returncode, "summary": lines[-1] if lines else "",
                   "undecided_lines": [ln[:300] for ln in lines if ln.startswith(("UNDECIDED", "ENGINE-LIMIT", "BROKEN"))
                                       and relevant(ln)][:10],
                   "obligations": sorted(by_name.values(), key=lambda e: e["name"])}
            if p.returncode in (0, 1):
                json.dump(out, open(cache, "w"))
        if not out["obligations"] and not out["undecided_lines"]:
            raise RuntimeError("the linked run of %s produced no obligation for %s: %s" % (runner_id, functions, out["summary"]))
        if out["undecided_lines"] and all(o["ok"] for o in out["obligations"]):
            raise RuntimeError("the linked contracts (%s) are undecided: %s" % (runner_id, out["undecided_lines"][:2]))
        return out

    check.__name__ = "linked_%s" % runner_id
    return check
