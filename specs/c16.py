"""
C16 - Layout analysis is symbolic: cost does not grow with capacities or extents.

Wall time is not a provable quantity; what is proved is its structural cause, in two layers.

(a) EXPAND effect contract (pyvc/effects.py, ExpandChecker): EXPAND = `x.expand()`, or iterating / len() / set() / sorted() /
    list() / min() / max() / `in` on a BitLengthSet that is not the (divisor-bounded) result of `%`.  Every function of the
    bit length set, serializable-type, schema-builder and type-builder modules is declared EXPAND-free except the declared
    expanders (`expand`, `BitLengthSet.__iter__/__len__`, `validate_numerically`, and the `_offset_` / `_bit_length_`
    intrinsics); callee effects are taken from the callee's declaration.

(b) value-level size contracts on the real bodies (added here to the C01 contracts of the same methods - c01.py is not
    touched, clauses are only added): every set that an analytic query iterates is bounded by the *divisor* and the static
    shape of the operator tree, never by a count / capacity:
      * `Operator.modulo(d)` returns a subset of [0, d)  (all seven classes);
      * `RepetitionOperator.modulo` / `RangeRepetitionOperator.modulo` hand `combinations_with_replacement` a base set
        within [0, d) and a count k' <= 2d - 1 whatever k is (and k' <= k, k' = k mod d modulo d);
      * `ConcatenationOperator.modulo` hands `itertools.product` only sets within [0, d);
      * `PaddingOperator.modulo` queries its child exactly once, with the divisor lcm(padding, d)  (<= padding * d by the
        library contract of math.lcm);
      * `BitLengthSet.__mod__` returns a BitLengthSet backed by a NullaryOperator whose set is within [0, d) - so the
        `set(self % n)` in `is_aligned_at` / `__eq__` iterates at most n elements;
      * `BitLengthSet.__init__`: which operator backs the new object (Nullary for int / iterable, Memoization for an
        operator, shared for a BitLengthSet).
"""
import z3
from pyvc.spec import REG
from pyvc.values import Obj, SymSet, SymSeq, PyList, StarArgs, Int
from pyvc.speclib import AND, OR, NOT, IMPLIES, EQ, ISINST, FORALL_IDX, LEN, AS, smt, CALLS
from pyvc import speclib
from pyvc import settheory as st
from . import c01
from .c01 import (D, DVAL, OPS, OPERATOR, NULLARY, PADDING, CONCAT, REPEAT, RANGE, UNION, MEMO, BLS, NSet)

P = ["C16"]
LEVEL = "proof"
LEAN = list(c01.LEAN)


def _elements(A):
    if hasattr(A, "elements"):
        return A.elements()
    return A


def WITHIN(A, d):
    """every element of the set is in [0, d)"""
    if smt():
        t = st._t(A) if not isinstance(A, z3.ExprRef) else A
        x = z3.FreshConst(z3.IntSort(), "x")
        dd = Int.unwrap(d)
        from pyvc.loops import mk_forall

        return mk_forall([x], z3.Implies(z3.Select(t, x), z3.And(0 <= x, x < dd)), patterns=[z3.Select(t, x)])
    return all(0 <= x < d for x in _elements(A))


def _extend_post(qualname, extra, add_prop=True):
    """Add clauses to the postcondition of an existing contract (never removes or changes one)."""
    c = REG.contracts[qualname]
    old = c.post

    def post(s, _old=old, _extra=extra):
        out = dict(_old(s) or {}) if _old is not None else {}
        for k, v in _extra(s).items():
            assert k not in out
            out[k] = v
        return out

    c.post = post
    if add_prop and "C16" not in c.props:
        c.props.append("C16")
    return c


# ---- modulo(d) is within [0, d): all seven operator classes (and the interface contract used at call sites)
for _cls in (OPERATOR, NULLARY, PADDING, CONCAT, REPEAT, RANGE, UNION, MEMO):
    _extend_post(_cls + ".modulo", lambda s: {"c16-within-divisor": WITHIN(s.result, s.divisor)})


# ---- the counts / base sets handed to the enumerating library functions
def _combos_pre(count_field):
    def pre(s, args):
        base, k = args[0], args[1]
        d = s.divisor
        kk = getattr(s.self, count_field)
        return {
            "c16-count-bounded-by-divisor": Int.unwrap(k) <= 2 * d - 1,   # independent of the repetition count
            "c16-count-not-above-k": Int.unwrap(k) <= kk,
            "c16-base-within-divisor": WITHIN(base, d),
        }
    return pre


REG.contracts[REPEAT + ".modulo"].lib_pre = {"itertools.combinations_with_replacement": _combos_pre("_k")}
REG.contracts[RANGE + ".modulo"].lib_pre = {"itertools.combinations_with_replacement": _combos_pre("_k_max")}


def _product_pre(s, args):
    d = s.divisor
    out = {}
    for n, a in enumerate(args):
        if isinstance(a, StarArgs):
            seq = a.seq
            if isinstance(seq, SymSeq):
                i = z3.FreshConst(z3.IntSort(), "i")
                x = z3.FreshConst(z3.IntSort(), "x")
                out["c16-factors-within-divisor"] = z3.ForAll([i, x], z3.Implies(
                    z3.And(0 <= i, i < seq.length, z3.Select(z3.Select(seq.arr, i), x)), z3.And(0 <= x, x < d)))
            else:
                out["c16-factors-within-divisor"] = AND(*[WITHIN(f, d) for f in seq.items])
        else:
            out["c16-factor%d-within-divisor" % n] = WITHIN(a, d)
    return out


REG.contracts[CONCAT + ".modulo"].lib_pre = {"itertools.product": _product_pre}


def _padding_child_query(s):
    if not smt():
        return {}
    calls = [e for e in CALLS(".modulo") if e["ns"].self is not s.self]
    ok = len(calls) == 1
    if not ok:
        return {"c16-child-queried-once-with-lcm": z3.BoolVal(False)}
    ns = calls[0]["ns"]
    return {"c16-child-queried-once-with-lcm": AND(ns.self.ref == s.self._child.ref,
                                                    ns.divisor == st.LCM(s.self._padding, s.divisor))}


_extend_post(PADDING + ".modulo", _padding_child_query)


# ---- BitLengthSet: what backs a new object; `%` is Nullary-backed and divisor-bounded
def _bls_init_backing(s):
    v = s.value
    if smt():
        op = s.self._op
        if isinstance(v, Obj) and v.cls.name == "BitLengthSet":
            return {"c16-backing-operator": op.ref == v._op.ref}
        if isinstance(v, Obj):
            return {"c16-backing-operator": AND(ISINST(op, "MemoizationOperator"),
                                                lambda: AS(op, MEMO)._child.ref == v.ref)}
        return {"c16-backing-operator": ISINST(op, "NullaryOperator")}
    op = s.self._op
    name = type(op).__name__
    if type(v).__name__ == "BitLengthSet":
        return {"c16-backing-operator": op is v._op}
    if type(v).__name__.endswith("Operator"):
        return {"c16-backing-operator": name == "MemoizationOperator" and op._child is v}
    return {"c16-backing-operator": name == "NullaryOperator"}


_extend_post(BLS + ".__init__", _bls_init_backing)


def _bls_mod_bounded(s):
    if smt():
        return {"c16-nullary-backed": ISINST(s.result._op, "NullaryOperator"),
                "c16-within-divisor": WITHIN(D(s.result), s.divisor)}
    return {"c16-nullary-backed": type(s.result._op).__name__ == "NullaryOperator",
            "c16-within-divisor": all(0 <= x < s.divisor for x in s.result._op._value)}


_extend_post(BLS + ".__mod__", _bls_mod_bounded)

# contracts of C01 that carry "C16" but to which C16 adds no value-level clause (the composition methods): their
# EXPAND-freedom is the effect part; they are verified under C01 and not re-verified here
for _m in ("pad_to_alignment", "repeat", "repeat_range", "concatenate", "unite", "__add__", "__radd__", "__or__", "__ror__"):
    _c = REG.contracts[BLS + "." + _m]
    if "C16" in _c.props:
        _c.props.remove("C16")

# ------------------------------------------------------------------------------------------------ (a) EXPAND effect
SER = "pydsdl._serializable."
EXPAND_MODULES = ["pydsdl._bit_length_set._bit_length_set", "pydsdl._bit_length_set._symbolic",
                  SER + "_serializable", SER + "_primitive", SER + "_void", SER + "_array", SER + "_composite",
                  SER + "_attribute", SER + "_name", "pydsdl._data_type_builder", "pydsdl._data_schema_builder"]
EXPANDERS = {
    **{c + ".expand": "numerical expansion is what this method is for" for c in
       (OPERATOR, NULLARY, PADDING, CONCAT, REPEAT, RANGE, UNION, MEMO)},
    BLS + ".__iter__": "documented slow numerical method",
    BLS + ".__len__": "documented slow numerical method",
    OPS + "validate_numerically": "self check run only after an expansion",
    SER + "_serializable.SerializableType._attribute": "the `_bit_length_` intrinsic of DSDL expressions (FIXME in the code)",
    SER + "_composite.CompositeType._attribute": "forwards to SerializableType._attribute (the `_bit_length_` intrinsic)",
    "pydsdl._data_type_builder.DataTypeBuilder.resolve_top_level_identifier":
        "the `_offset_` intrinsic of DSDL expressions (FIXME in the code)",
    "pydsdl._data_schema_builder.DataSchemaBuilder.offset":
        "read only by the `_offset_` intrinsic; its in-code assertion `len(out) > 0` expands the set",
}
COMP = SER + "_composite."
MUST_BE_FREE = (
    [BLS + "." + m for m in ("min", "max", "fixed_length", "__mod__", "is_aligned_at", "is_aligned_at_byte", "__eq__",
                              "__hash__", "__init__", "pad_to_alignment", "repeat", "repeat_range", "concatenate", "unite",
                              "__add__", "__radd__", "__or__", "__ror__")]
    + [c + "." + m for c in (NULLARY, PADDING, CONCAT, REPEAT, RANGE, UNION, MEMO) for m in ("min", "max", "modulo")]
    + [SER + "_serializable.SerializableType.__eq__", SER + "_serializable.SerializableType.__hash__",
       SER + "_attribute.Attribute.__eq__", SER + "_attribute.Attribute.__hash__",
       SER + "_array.FixedLengthArrayType.__init__", SER + "_array.VariableLengthArrayType.__init__",
       SER + "_array.FixedLengthArrayType.enumerate_elements_with_offsets",
       COMP + "CompositeType.__init__", COMP + "UnionType.__init__", COMP + "StructureType.__init__",
       COMP + "DelimitedType.__init__", COMP + "ServiceType.__init__", COMP + "CompositeType.extent",
       COMP + "DelimitedType.extent", COMP + "StructureType.iterate_fields_with_offsets",
       COMP + "UnionType.iterate_fields_with_offsets", COMP + "DelimitedType.iterate_fields_with_offsets",
       COMP + "UnionType.aggregate_bit_length_sets", COMP + "StructureType.aggregate_bit_length_sets",
       "pydsdl._data_type_builder.DataTypeBuilder.finalize", "pydsdl._data_type_builder.DataTypeBuilder._make_composite",
       "pydsdl._data_schema_builder.DataSchemaBuilder.attributes"]
)


def expand_effect_check(eng, tier, seed):
    from pyvc.effects import check_expand

    # functions whose EXPAND-freedom is part of the baseline: a helper that is not in the ledger (introduced by a
    # refactoring) may be an inferred expander, a baseline function may not
    import json
    import os

    baseline = set()
    lp = os.path.join(os.path.dirname(os.path.dirname(os.path.abspath(__file__))), "ledger", "C16.json")
    if os.path.exists(lp):
        for n in json.load(open(lp))["obligation_names"]:
            if n.endswith("/effect#expand-free"):
                baseline.add("pydsdl." + n[: -len("/effect#expand-free")])
    out = check_expand(eng.repo, EXPAND_MODULES, EXPANDERS, MUST_BE_FREE, baseline_free=baseline)
    out["declared_expanders"] = EXPANDERS
    return out


EXTRA_CHECKS = [expand_effect_check]  # the scaling probe is appended below (after its definition)

NATIVE = c01.NATIVE


# ------------------------------------------------------------------------------------------------ bounded scaling probe
def _scaling_cases(tier):
    """(label, constructor) pairs of the scaling probe - real types whose capacities / extents are astronomically large"""
    from pydsdl import _serializable as S
    from pathlib import Path

    CM = S.PrimitiveType.CastMode
    u = lambda n: S.UnsignedIntegerType(n, CM.TRUNCATED)

    def struct(name, *types):
        return S.StructureType(name="ns." + name, version=S.Version(1, 0),
                               attributes=[S.Field(t, "f%d" % i) for i, t in enumerate(types)], deprecated=False,
                               fixed_port_id=None, source_file_path=Path("/tmp/ns/%s.1.0.dsdl" % name), has_parent_service=False)

    def shapes(K):
        e1 = struct("E", S.VariableLengthArrayType(u(16), 1))            # lengths {8, 24}: residues that cycle
        yield "uint3[<=K]", lambda: S.VariableLengthArrayType(u(3), K)
        yield "uint8[<=K]", lambda: S.VariableLengthArrayType(u(8), K)
        yield "E[K]", lambda: S.FixedLengthArrayType(e1, K)
        yield "E[<=K]", lambda: S.VariableLengthArrayType(e1, K)
        yield "struct{uint3[<=K], E[K], uint7}", lambda: struct("Outer", S.VariableLengthArrayType(u(3), K),
                                                               S.FixedLengthArrayType(e1, K), u(7))
        yield "delimited(extent 8K)", lambda: S.DelimitedType(struct("D", u(8)), 8 * K)
        # many consecutive variable-length arrays of sub-byte elements (every residue occurs in every field): the cost of
        # the residue computation must stay a sum over the fields, not a product
        yield "struct{12 x uintN[<=K] (N = 3, 1, 5, 7 ...)}[<=3]", lambda: S.VariableLengthArrayType(
            struct("Wide", *[S.VariableLengthArrayType(u((3, 1, 5, 7)[i % 4]), K) for i in range(12)]), 3)

    caps = [3, 2 ** 24 + 1, 2 ** 40, 2 ** 63] if tier == "quick" else [3, 255, 2 ** 16 + 1, 2 ** 24 + 1, 2 ** 32, 2 ** 40, 2 ** 63 - 1, 2 ** 63]
    # nested variable-length composites with moderate capacities (no capacity is huge, the product of the sizes is)
    nested = lambda J, K: S.VariableLengthArrayType(struct("N", S.VariableLengthArrayType(u(8), J)), K)
    cases = [("%s with K=%d" % (nm, K), mk) for K in caps for nm, mk in shapes(K)]
    cases += [("{uint8[<=%d]}[<=%d]" % (J, K), (lambda J=J, K=K: nested(J, K))) for J, K in ((8, 32), (16, 16), (40, 60))]
    return cases


def _scaling_queries(t):
    from pydsdl import _serializable as S

    b = t.bit_length_set
    out = [b.min, b.max, b.fixed_length, b.is_aligned_at_byte(), b.is_aligned_at(32)]  # the divisors the property names: 8 and 32
    out.append(frozenset(b % 32))
    out.append(b == t.bit_length_set)
    out.append(hash(b))
    out.append(t == t)
    out.append(hash(t))
    if isinstance(t, S.CompositeType):
        out.append(t.extent)
        for f, off in t.iterate_fields_with_offsets():
            out.append(off.is_aligned_at_byte())
    return out


def _scaling_child(tier):
    """runs in a child process: one progress line before and after every case (the parent enforces the time limit)"""
    import sys
    import time as _time

    for i, (label, mk) in enumerate(_scaling_cases(tier)):
        sys.stdout.write("START %d\n" % i)
        sys.stdout.flush()
        t0 = _time.time()
        try:
            _scaling_queries(mk())
            sys.stdout.write("DONE %d %.3f\n" % (i, _time.time() - t0))
        except MemoryError:
            sys.stdout.write("MEMORY %d\n" % i)
        sys.stdout.flush()


def extra_scaling_probe(eng, tier, seed):
    """Bounded, native, not counted: the analytic queries named by the property on real types whose capacities / extents
    are astronomically large must return within a fixed time limit, like the same shapes with small capacities do.
    (The deductive obligations above are what decides C16; this probe gives a concrete failing input for replay.)
    The queries run in a CHILD PROCESS that is killed when a case exceeds the limit: a residue computation stuck inside one
    C-level loop (set(map(sum, itertools.product(...)))) cannot be interrupted by a signal handler."""
    import select
    import subprocess
    import sys
    import time as _time

    limit = 10
    labels = [lb for lb, _ in _scaling_cases(tier)]
    violations, checked, slowest = [], 0, 0.0
    root = _os.path.dirname(_os.path.dirname(_os.path.abspath(__file__)))
    env = dict(_os.environ)
    p = subprocess.Popen([sys.executable, "-c", "import sys; sys.path.insert(0, %r); from specs import c16; c16._scaling_child(%r)"
                          % (root, tier)], stdout=subprocess.PIPE, stderr=subprocess.DEVNULL, env=env, cwd=root, bufsize=0)
    fd = p.stdout.fileno()
    current, started, pending, eof = None, _time.time(), b"", False
    try:
        while not eof:
            # complete lines first (several may arrive in one read), then wait for more under the current deadline
            while b"\n" in pending:
                raw, pending = pending.split(b"\n", 1)
                w = raw.decode("ascii", "replace").split()
                if not w:
                    continue
                if w[0] == "START":
                    current, started = int(w[1]), _time.time()
                elif w[0] == "DONE":
                    checked += 1
                    slowest = max(slowest, float(w[2]))
                    current, started = None, _time.time()
                elif w[0] == "MEMORY":
                    violations.append({"name": "C16/native#analytic-queries-within-time-limit",
                                       "concrete": {"type": labels[int(w[1])]}, "detail": "MemoryError"})
                    current, started = None, _time.time()
            budget = (limit if current is not None else 120) - (_time.time() - started)  # 120 s to import and start
            if budget <= 0:
                break
            r, _, _ = select.select([fd], [], [], budget)
            if not r:
                break
            chunk = _os.read(fd, 65536)
            if not chunk:
                eof = True
            pending += chunk
    finally:
        if p.poll() is None:
            p.kill()
        p.wait()
    if eof and p.returncode == 0:
        current = None
    elif eof:
        raise RuntimeError("the scaling probe's child process crashed (exit %s) in case %s" % (
            p.returncode, labels[current] if current is not None else "?"))
    if current is not None:
        violations.append({"name": "C16/native#analytic-queries-within-time-limit", "concrete": {"type": labels[current]},
                           "detail": "min/max/alignment/equality/hash/extent/offset queries did not finish within %d s" % limit})
    elif checked < len(labels) and not violations:
        raise RuntimeError("the scaling probe's child process ended after %d of %d cases" % (checked, len(labels)))
    if violations:
        # the violation is established (concrete type, replayable).  Should the native cross-check that follows get stuck in
        # the same uninterruptible computation, its watchdog ends the run with this verdict instead of `undecided`.
        import json
        from pyvc import native as _native

        rp = _os.path.join(root, "replays", "C16-C16_native_analytic-queries-within-time-limit.json")
        try:
            _os.makedirs(_os.path.dirname(rp), exist_ok=True)
            json.dump({"property": "C16", "obligation": "C16/native#analytic-queries-within-time-limit",
                       "concrete": violations[0]["concrete"], "detail": violations[0]["detail"],
                       "replay": "build the type named in `concrete` with pydsdl's constructors and call the queries of "
                                 "specs/c16._scaling_queries on it"}, open(rp, "w"), indent=1)
            _native._Watchdog.HANG_VERDICT = (1, "VIOLATION property=C16 replay=%s obligation=C16/native#analytic-queries-"
                                                 "within-time-limit" % rp)
        except OSError:
            pass
    return {"check": "analytic queries on types with huge capacities finish within %d s (bounded, native, child process)" % limit,
            "types": checked, "slowest_s": round(slowest, 3), "violations": violations}


import os as _os

# PYVC_NATIVE_BUDGET=0 switches the native cross-check off (used for mutants that make the real code enumerate 2**63-fold
# sums: the native run then only burns time / memory until its limits)
NATIVE_BUDGET = {"quick": int(_os.environ.get("PYVC_NATIVE_BUDGET", "40")),
                 "thorough": int(_os.environ.get("PYVC_NATIVE_BUDGET", "1000"))}
NOT_COVERED = []
EXPLANATION = ""
ASSUMPTIONS = []


EXTRA_CHECKS.append(extra_scaling_probe)
