"""
C06 / C07 / C14(wire) - the serdes module pydsdl/_serdes.py.

Bit layer abstraction (pyvc.bittheory): bitsval(d, off, k) = sum_{i<k} bit(d zero-extended, off+i) * 2**i with
bit p = bit (p mod 8) of byte (p div 8), i.e. the Specification's "least significant bit first, little-endian" reading of a
byte string as a bit string.  The reader contracts say *which bits* are returned (zeros beyond the data and beyond the
limit of a bounded sub-reader); the writer contracts say which bits a byte string produced by the writer holds.
"""
import z3
from pyvc.spec import contract, class_spec, inline_ok, loop_invariant
from pyvc.values import Int, Bool, Str, Opt, ObjOf, Bytes, ByteArray, MutInvObjOf
from pyvc.speclib import AND, OR, NOT, IMPLIES, IFF, ITE, EQ, IS_NONE, VAL, ISINST, AS, LEN, FORALL_IDX, smt
from pyvc import speclib
from pyvc.bittheory import (BITSVAL, BITAT, DLEN, LSB, POW2, H_SPLIT, H_LSB_SPLIT, H_LSB_STEP, H_BEYOND, H_POW2_ADD, H_POW2_MONO)
from . import common  # noqa
from .common import PRIMITIVE, VOID_T, SERIALIZABLE, COMPOSITE

SD = "pydsdl._serdes."
READER = SD + "_BitReader"
WRITER = SD + "_BitWriter"
P67 = ["C06", "C07", "C14"]
LEAN = ["Bits.lean"]
LEVEL = "proof"


# ------------------------------------------------------------------------------------------------ small helpers
def MAX0(x):
    return ITE(x > 0, x, 0)


def MIN(a, b):
    return ITE(a <= b, a, b)


def DIV(a, b):
    """floor division by a positive constant"""
    if smt():
        from pyvc.values import Int as _I

        return _I.unwrap(a) / b
    return a // b


def SAME_BYTES(a, b):
    """the same byte string (identity of content)"""
    if smt():
        return AND(a.arr == b.arr, a.length == b.length)
    return bytes(a) == bytes(b)


def SAME_OPT_INT(a, b):
    return EQ(a, b)


# ------------------------------------------------------------------------------------------------ _BitReader
@class_spec(READER)
class _ReaderSpec:
    fields = dict(_data=Bytes, _start_offset=Int, _bit_offset=Int, _bit_limit=Opt(Int))
    mutable = ["_bit_offset"]
    invariant_at_calls = True

    def invariant(self):
        # positions are never negative and the reader never moves backwards
        return {"offsets": AND(0 <= self._start_offset, self._start_offset <= self._bit_offset)}


def AVAIL(r):
    """Bits left before the limit of a bounded (sub-)reader; only meaningful when the reader has a limit."""
    return MAX0(VAL(r._bit_limit) - (r._bit_offset - r._start_offset))


def EFFECTIVE(r, n):
    """How many of the n requested bits are actually taken from the data: all of them for an unbounded reader,
    at most the bits left before start + limit for a bounded one (the rest read as zero)."""
    if smt():
        return ITE(IS_NONE(r._bit_limit), n, MIN(n, AVAIL(r)))
    return n if r._bit_limit is None else min(n, AVAIL(r))


def READER_FRAME(s):
    """only the position changes"""
    a, b = s.self, s.old.self
    return AND(SAME_BYTES(a._data, b._data), a._start_offset == b._start_offset, EQ(a._bit_limit, b._bit_limit))


@contract(READER + ".__init__", props=P67)
class _ReaderInit:
    params = dict(data=Bytes, bit_offset=Int, bit_limit=Opt(Int))
    instances = lambda: [{"data": Bytes}, {"data": ByteArray}]

    def pre(s):
        return {"offset-nonneg": s.bit_offset >= 0}

    def post(s):
        r = s.self
        return {"data": SAME_BYTES(r._data, s.data), "start": r._start_offset == s.bit_offset,
                "offset": r._bit_offset == s.bit_offset, "limit": EQ(r._bit_limit, s.bit_limit)}


@contract(READER + ".read_bits", props=P67)
class _ReadBits:
    params = dict(bit_length=Int)
    returns = Int
    modifies = ["_bit_offset"]

    def pre(s):
        return {"count-nonneg": s.bit_length >= 0}

    def decreases(s):
        return s.bit_length

    def post(s):
        o = s.old.self
        n = s.bit_length
        eff = EFFECTIVE(o, n)
        return {
            # the value of the bits actually available: zeros beyond the data and beyond start + limit
            "value": s.result == BITSVAL(o._data, o._bit_offset, eff, unfold=False),
            "value-range": AND(0 <= s.result, s.result < POW2(n)),
            # the offset always advances by n
            "advance": s.self._bit_offset == o._bit_offset + n,
            "frame": READER_FRAME(s),
            # proof hints (instances of Lean lemmas; evaluated as checks in the native reading)
            "hint": AND(H_SPLIT(o._data, o._bit_offset, 8 * DIV(eff, 8), eff % 8),
                        H_POW2_MONO(eff, n)),
        }


@loop_invariant(READER + ".read_bits", loop=0)
def _read_bits_slow(s):
    (acc,) = list(s.carried.values())
    r = s.self
    return {"acc-is-bitsval": acc == BITSVAL(r._data, r._bit_offset, s.i),
            "acc-range": AND(0 <= acc, acc < POW2(s.i))}


@contract(READER + ".align_to", props=P67)
class _ReaderAlign:
    params = dict(bit_alignment=Int)
    modifies = ["_bit_offset"]
    # the alignments of DSDL types are 1 and 8 (WFT of specs/c02.py): callers that pass A(T) prove it here once (cut) and
    # are then split into the two cases; the function itself is verified for every integer alignment
    cut = lambda s: {"alignment-is-1-or-8": OR(s.bit_alignment <= 0, s.bit_alignment == 1, s.bit_alignment == 8)}
    case_split = lambda s: [s.bit_alignment == 8]

    def post(s):
        o = s.old.self
        a = s.bit_alignment
        new = s.self._bit_offset
        return {
            "no-op-for-nonpositive": IMPLIES(a <= 0, new == o._bit_offset),
            # the least multiple of the alignment that is not below the old position
            "aligned": IMPLIES(a > 0, lambda: AND(new % a == 0, new >= o._bit_offset, new < o._bit_offset + a)),
            # the two alignments that occur (A(T) is 1 or 8), stated without a symbolic divisor
            "aligned-8": IMPLIES(a == 8, lambda: AND(new % 8 == 0, new >= o._bit_offset, new < o._bit_offset + 8)),
            "aligned-1": IMPLIES(a == 1, new == o._bit_offset),
            "frame": READER_FRAME(s),
        }


@contract(READER + ".bounded_subreader", props=P67)
class _SubReader:
    params = dict(bit_count=Int)
    returns = MutInvObjOf(READER)
    modifies = ["_bit_offset"]

    def post(s):
        o, r = s.old.self, s.result
        return {
            "sub-data": SAME_BYTES(r._data, o._data),
            "sub-start": AND(r._start_offset == o._bit_offset, r._bit_offset == o._bit_offset),
            "sub-limit": AND(NOT(IS_NONE(r._bit_limit)), lambda: VAL(r._bit_limit) == s.bit_count),
            "parent-advance": s.self._bit_offset == o._bit_offset + s.bit_count,
            "frame": READER_FRAME(s),
        }

    def pre(s):
        return {"count-nonneg": s.bit_count >= 0}


@contract(READER + ".remaining_bits", props=P67)
class _Remaining:
    returns = Int

    def post(s):
        r = s.self
        return {
            "bounded": IMPLIES(NOT(IS_NONE(r._bit_limit)), lambda: s.result == AVAIL(r)),
            "unbounded": IMPLIES(IS_NONE(r._bit_limit), lambda: s.result == MAX0(8 * DLEN(r._data) - r._bit_offset)),
        }


inline_ok(READER + ".bit_offset", WRITER + ".bit_offset")


# ------------------------------------------------------------------------------------------------ _BitWriter
def DIV(a, b):
    """floor division by a positive constant"""
    if smt():
        from pyvc.values import Int as _I

        return _I.unwrap(a) / b
    return a // b


def CEIL8(x):
    return DIV(x + 7, 8)


def TAIL_ZERO(buf, off):
    """every bit of the buffer at or beyond position `off` is zero"""
    return BITSVAL(buf, off, 8 * DLEN(buf) - off, unfold=False) == 0


def PREFIX_PRESERVED(new, old, upto):
    """every read that ends at or before bit `upto` gives the same value on both byte strings"""
    if smt():
        from pyvc import bittheory as bt

        p, k = z3.FreshConst(z3.IntSort(), "p"), z3.FreshConst(z3.IntSort(), "k")
        lhs = bt.bitsval_f(new.arr, new.length, p, k)
        return z3.ForAll([p, k], z3.Implies(z3.And(p >= 0, k >= 0, p + k <= upto),
                                            lhs == bt.bitsval_f(old.arr, old.length, p, k)), patterns=[lhs])
    from pyvc.bittheory import native_bit

    return all(native_bit(bytes(new), q) == native_bit(bytes(old), q) for q in range(upto))


@class_spec(WRITER)
class _WriterSpec:
    fields = dict(_buffer=ByteArray, _bit_offset=Int)
    mutable = ["_buffer", "_bit_offset"]
    invariant_at_calls = True

    def invariant(self):
        # WFw: the buffer holds exactly the bytes touched so far and nothing beyond the write position
        return {"offset-nonneg": self._bit_offset >= 0,
                "length": DLEN(self._buffer) == CEIL8(self._bit_offset),
                "tail-zero": TAIL_ZERO(self._buffer, self._bit_offset)}


@contract(WRITER + ".__init__", props=["C06", "C14"])
class _WriterInit:
    def post(s):
        return {"empty": AND(DLEN(s.self._buffer) == 0, s.self._bit_offset == 0)}


@contract(WRITER + ".write_bits", props=["C06", "C14"])
class _WriteBits:
    params = dict(value=Int, bit_length=Int)
    modifies = ["_buffer", "_bit_offset"]

    def pre(s):
        return {"count-nonneg": s.bit_length >= 0}

    def decreases(s):
        return s.bit_length

    def post(s):
        o, w = s.old.self, s.self
        n = s.bit_length
        fb8 = 8 * DIV(n, 8)
        return {
            # bits written so far ++ lsb(value, n): earlier bits unchanged, the n new bits are the low bits of value
            "prefix": PREFIX_PRESERVED(w._buffer, o._buffer, o._bit_offset),
            "written": BITSVAL(w._buffer, o._bit_offset, n, unfold=False) == LSB(s.value, n),
            "advance": w._bit_offset == o._bit_offset + n,
            "hint": AND(H_SPLIT(w._buffer, o._bit_offset, fb8, n % 8), H_LSB_SPLIT(s.value, fb8, n % 8)),
        }


@loop_invariant(WRITER + ".write_bits", loop=0)
def _write_bits_slow(s):
    w, o = s.self, s.old.self
    cur = o._bit_offset + s.i
    buf = w._buffer
    return {
        "length": DLEN(buf) == ITE(s.i > 0, CEIL8(cur), DLEN(o._buffer)),
        "prefix": PREFIX_PRESERVED(buf, o._buffer, o._bit_offset),
        "written": BITSVAL(buf, o._bit_offset, s.i, unfold=False) == LSB(s.value, s.i),
        "tail-zero": TAIL_ZERO(buf, cur),
        "offset-unchanged": w._bit_offset == o._bit_offset,
        "hint": AND(H_LSB_STEP(s.value, s.i), H_BEYOND(buf, cur, 8 * (DLEN(buf) + 1) - cur)),
    }


@contract(WRITER + ".align_to", props=["C06", "C14"])
class _WriterAlign:
    params = dict(bit_alignment=Int)
    modifies = ["_buffer", "_bit_offset"]
    # the alignments of DSDL types are 1 and 8 (WFT of specs/c02.py): callers that pass A(T) prove it here once (cut) and
    # are then split into the two cases; the function itself is verified for every integer alignment
    cut = lambda s: {"alignment-is-1-or-8": OR(s.bit_alignment <= 0, s.bit_alignment == 1, s.bit_alignment == 8)}
    case_split = lambda s: [s.bit_alignment == 8]

    def post(s):
        o, w = s.old.self, s.self
        a = s.bit_alignment
        new = w._bit_offset
        return {
            "no-op-for-nonpositive": IMPLIES(a <= 0, lambda: AND(new == o._bit_offset, SAME_BYTES(w._buffer, o._buffer))),
            "aligned": IMPLIES(a > 0, lambda: AND(new % a == 0, new >= o._bit_offset, new < o._bit_offset + a)),
            # the two alignments that occur (A(T) is 1 or 8), stated without a symbolic divisor
            "aligned-8": IMPLIES(a == 8, lambda: AND(new % 8 == 0, new >= o._bit_offset, new < o._bit_offset + 8)),
            "aligned-1": IMPLIES(a == 1, new == o._bit_offset),
            "prefix": PREFIX_PRESERVED(w._buffer, o._buffer, o._bit_offset),
            "zero-padding": BITSVAL(w._buffer, o._bit_offset, new - o._bit_offset, unfold=False) == 0,
        }


@contract(WRITER + ".finish", props=["C06", "C14"])
class _WriterFinish:
    returns = Bytes

    def post(s):
        w = s.self
        return {"content": SAME_BYTES(s.result, w._buffer),
                "whole-bytes": DLEN(s.result) == CEIL8(w._bit_offset),
                "padding-zero": TAIL_ZERO(s.result, w._bit_offset)}

# ------------------------------------------------------------------------------------------------ primitive codec
from pyvc.values import Kind, Obj, EnumV, RefSort
from pyvc.spec import REG
from . import c12  # noqa: contracts of inclusive_value_range (proved there for every width)
from . import c02  # noqa: class specs of the array / composite types, ghosts L(T), A(T) (read-only)
from .common import (BOOLEAN_T, SIGNED_T, UNSIGNED_T, BYTE_T, UTF8_T, FLOAT_T, CASTMODE, SATURATED, TRUNCATED,
                     cast_mode_ord)

# the value-range contracts are used at call sites here: their result is a ValueRange record
for _q in (SIGNED_T, UNSIGNED_T, FLOAT_T):
    _rc = REG.contracts["pydsdl." + _q.replace("pydsdl.", "") + ".inclusive_value_range"]
    _rc.returns = c12.ValueRangeK
    # ... and their bodies are re-verified in the runs of C06 / C07 (cheap: one instance per width): saturation and the
    # "decoded value lies in the range of its type" clause stand on them
    for _p in ("C06", "C07"):
        if _p not in _rc.props:
            _rc.props.append(_p)


class ConcreteType(Kind):
    """Finite instantiation: one concrete primitive / void type object (class, width, cast mode)."""

    def __init__(self, clsname, n, cast=SATURATED):
        self.clsname, self.n, self.cast = clsname, n, cast

    def build(self, ctx, mk):
        eng = ctx.engine
        cls = eng.repo.cls(self.clsname if self.clsname.startswith("pydsdl.") else "pydsdl." + self.clsname)
        ref = mk("!ref", RefSort)
        ctx.assume(eng.tag_fn(ref) == eng.class_id(cls))
        fields = {"_bit_length": self.n}
        if self.clsname != VOID_T:
            cm = eng.repo.cls("pydsdl." + CASTMODE.replace("pydsdl.", ""))
            name = eng.enum_members(cm)[self.cast]
            fields["_cast_mode"] = EnumV(cm, name, z3.IntVal(self.cast))
            fields["_standard_bit_length"] = self.n in (8, 16, 32, 64)
        return Obj(cls, True, ref, fields, ctx)

    def __repr__(self):
        return "%s%d%s" % (self.clsname.split(".")[-1].replace("Type", ""), self.n, "t" if self.cast == TRUNCATED else "")


def _prim_instances():
    out = [ConcreteType(BOOLEAN_T, 1)]
    out += [ConcreteType(UNSIGNED_T, n, c) for n in range(1, 65) for c in (SATURATED, TRUNCATED)]
    out += [ConcreteType(SIGNED_T, n) for n in range(2, 65)]
    out += [ConcreteType(BYTE_T, 8, TRUNCATED), ConcreteType(UTF8_T, 8, TRUNCATED)]
    out += [ConcreteType(VOID_T, n) for n in range(1, 65)]
    return out


def WIDTH(t):
    return t._bit_length


def WIDTH_OF(t):
    """bit_length of a primitive or void type (abstract object)"""
    if smt():
        return ITE(ISINST(t, "VoidType"), AS(t, VOID_T)._bit_length, AS(t, PRIMITIVE)._bit_length)
    return t.bit_length


def IS_FLOAT(t):
    return ISINST(t, "FloatType")


def CLAMP(v, lo, hi):
    return ITE(v < lo, lo, ITE(v > hi, hi, v))


def RAW(t, v):
    """The Specification's wire value of an integer-like primitive: two's complement of the saturated value, or the low
    bits of the value for the truncated cast mode; a boolean is one bit; void is zero bits set."""
    n = WIDTH(t)
    if smt():
        name = t.cls.name
        signed = t.cls.is_subclass_of(speclib.CTX.engine.class_by_name("SignedIntegerType"))
        if name == "BooleanType":
            return ITE(v != 0, 1, 0)
        if name == "VoidType":
            return 0
        if signed:
            return LSB(CLAMP(v, -(2 ** (n - 1)), 2 ** (n - 1) - 1), n)
        if t._cast_mode.term.eq(z3.IntVal(SATURATED)):
            return CLAMP(v, 0, 2 ** n - 1)
        return LSB(v, n)
    name = type(t).__name__
    if name == "BooleanType":
        return 1 if v else 0
    if name == "VoidType":
        return 0
    if name == "SignedIntegerType":
        return CLAMP(v, -(2 ** (n - 1)), 2 ** (n - 1) - 1) % 2 ** n
    if t.cast_mode.value == SATURATED:
        return CLAMP(v, 0, 2 ** n - 1)
    return v % 2 ** n


def IN_RANGE(t, v):
    n = WIDTH(t)
    if smt():
        name = t.cls.name
        signed = t.cls.is_subclass_of(speclib.CTX.engine.class_by_name("SignedIntegerType"))
    else:
        name = type(t).__name__
        signed = name == "SignedIntegerType"
    if name == "BooleanType":
        return OR(v == 0, v == 1)
    if name == "VoidType":
        return False
    if signed:
        return AND(-(2 ** (n - 1)) <= v, v <= 2 ** (n - 1) - 1)
    return AND(0 <= v, v <= 2 ** n - 1)


def DECODE(t, raw):
    """The value denoted by n wire bits: unsigned as is, signed as two's complement."""
    n = WIDTH(t)
    if smt():
        name = t.cls.name
        signed = t.cls.is_subclass_of(speclib.CTX.engine.class_by_name("SignedIntegerType"))
    else:
        name = type(t).__name__
        signed = name == "SignedIntegerType"
    if signed:
        return ITE(raw >= 2 ** (n - 1), raw - 2 ** n, raw)
    return raw


def IS_NUMERIC(v):
    if smt():
        return isinstance(v, (bool, int)) or (isinstance(v, z3.ExprRef) and (z3.is_int(v) or z3.is_bool(v)))
    return isinstance(v, (bool, int, float))


def NUM(v):
    if smt():
        from pyvc.values import Int as _I

        return _I.unwrap(v) if IS_NUMERIC(v) else z3.IntVal(0)
    return int(v) if isinstance(v, (bool, int)) else 0


def WRITER_ADVANCED(s, n):
    o, w = s.old.writer, s.writer
    return {"prefix": PREFIX_PRESERVED(w._buffer, o._buffer, o._bit_offset),
            "advance": w._bit_offset == o._bit_offset + n}


@contract(SD + "_serialize_primitive", props=["C06"])
class _SerPrim:
    params = dict(writer=MutInvObjOf(WRITER), schema=ObjOf(SERIALIZABLE), value=Int)
    modifies_params = {"writer": ["_buffer", "_bit_offset"]}
    instances = lambda: [{"schema": t, "value": k} for t in _prim_instances() for k in (Int, Str)]
    raises = {"ValueError": lambda s: AND(NOT(ISINST(s.schema, "VoidType")), NOT(IS_NUMERIC(s.value)))}

    def pre(s):
        return {"primitive-or-void": ISINST(s.schema, "PrimitiveType", "VoidType")}

    def post(s):
        t, o, w = s.schema, s.old.writer, s.writer
        n = WIDTH(t) if (not smt() or t.fields is not None) else WIDTH_OF(t)
        out = dict(WRITER_ADVANCED(s, n))
        if smt() and t.fields is None:
            return out  # call site with a symbolic type: only the offset / prefix facts (the wire clause needs the class)
        if (smt() and t.cls.name == "FloatType") or (not smt() and type(t).__name__ == "FloatType"):
            return out
        v = NUM(s.value)
        bits = BITSVAL(w._buffer, o._bit_offset, n, unfold=False)
        out["wire"] = bits == RAW(t, v)
        # what the deserializer returns for these bits is the value itself (in-range values)
        if not ((smt() and t.cls.name == "VoidType") or (not smt() and type(t).__name__ == "VoidType")):
            out["round-trip"] = IMPLIES(IN_RANGE(t, v), lambda: DECODE(t, bits) == v)
        return out


@contract(SD + "_deserialize_primitive", props=["C06", "C07"])
class _DesPrim:
    params = dict(reader=MutInvObjOf(READER), schema=ObjOf(SERIALIZABLE))
    modifies_params = {"reader": ["_bit_offset"]}
    instances = lambda: [{"schema": t} for t in _prim_instances()]

    def pre(s):
        return {"primitive-or-void": ISINST(s.schema, "PrimitiveType", "VoidType")}

    def post(s):
        t, o, r = s.schema, s.old.reader, s.reader
        n = WIDTH(t) if (not smt() or t.fields is not None) else WIDTH_OF(t)
        out = {"advance": r._bit_offset == o._bit_offset + n,
               "frame": AND(SAME_BYTES(r._data, o._data), r._start_offset == o._start_offset, EQ(r._bit_limit, o._bit_limit))}
        if smt() and t.fields is None:
            return out
        name = t.cls.name if smt() else type(t).__name__
        if name == "FloatType":
            return out
        bits = BITSVAL(o._data, o._bit_offset, EFFECTIVE(o, n), unfold=False)
        if name == "VoidType":
            out["value"] = IS_NONE(s.result)
        elif name == "BooleanType":
            out["value"] = EQ(s.result, bits != 0) if smt() else (s.result is (bits != 0))
        else:
            out["value"] = s.result == DECODE(t, bits)
            out["value-in-range"] = IN_RANGE(t, s.result)
        return out


# ------------------------------------------------------------------------------------------------ array / composite decoding
from pyvc.values import AnyValue
from .common import PADDING, FIELD, DELIMITED, SERVICE
from .c02 import ARRAY, FIXED, VARIABLE, STRUCT, UNION, FIELDS

P7 = ["C06", "C07", "C14"]


@class_spec(PADDING)
class _PaddingSpec:
    def invariant(self):
        # PaddingField.__init__ raises TypeParameterError unless the type is void
        return {"void-type": ISINST(self._data_type, "VoidType")}


def READER_UNCHANGED_BUT_POSITION(s):
    o, r = s.old.reader, s.reader
    return AND(SAME_BYTES(r._data, o._data), r._start_offset == o._start_offset, EQ(r._bit_limit, o._bit_limit))


def HEADER_VALUE(o, t):
    """the delimiter header read at the old position of the reader (32 bits, zero extended)"""
    return BITSVAL(o._data, o._bit_offset, EFFECTIVE(o, AS(t, DELIMITED)._delimiter_header_type._bit_length), unfold=False)


def REMAINING_AFTER(o, h):
    """remaining_bits of the reader after h more bits were consumed"""
    if smt():
        return ITE(IS_NONE(o._bit_limit), MAX0(8 * DLEN(o._data) - (o._bit_offset + h)),
                   MAX0(VAL(o._bit_limit) - (o._bit_offset + h - o._start_offset)))
    if o._bit_limit is None:
        return max(0, 8 * len(o._data) - (o._bit_offset + h))
    return max(0, o._bit_limit - (o._bit_offset + h - o._start_offset))


def DES_POST(s, t):
    """What every _deserialize_* function guarantees about the reader, by the class of the type."""
    o, r = s.old.reader, s.reader
    return {
        "frame": READER_UNCHANGED_BUT_POSITION(s),
        "forward": r._bit_offset >= o._bit_offset,
        "primitive-width": IMPLIES(ISINST(t, "PrimitiveType", "VoidType"),
                                   lambda: r._bit_offset == o._bit_offset + (AS(t, PRIMITIVE)._bit_length
                                                                             if not _is_void(t) else AS(t, VOID_T)._bit_length)),
        # C14 wire: a delimited object occupies header + 8 * header-value bits whatever the inner type is
        "delimited-framing": IMPLIES(ISINST(t, "DelimitedType"), lambda: AND(
            r._bit_offset == o._bit_offset + 32 + 8 * HEADER_VALUE(o, t),
            8 * HEADER_VALUE(o, t) <= REMAINING_AFTER(o, 32))),
    }


def _is_void(t):
    if smt():
        return False  # handled through the two class-specific accessors below
    return type(t).__name__ == "VoidType"


def DES_POST2(s, t):
    o, r = s.old.reader, s.reader
    return {
        "frame": READER_UNCHANGED_BUT_POSITION(s),
        "forward": r._bit_offset >= o._bit_offset,
        "primitive-width": IMPLIES(ISINST(t, "PrimitiveType", "VoidType"), lambda: r._bit_offset == o._bit_offset + WIDTH_OF(t)),
        "delimited-framing": IMPLIES(ISINST(t, "DelimitedType"), lambda: AND(
            r._bit_offset == o._bit_offset + 32 + 8 * HEADER_VALUE(o, t),
            8 * HEADER_VALUE(o, t) <= REMAINING_AFTER(o, 32))),
        # decoder positions agree with the Specification's lengths (and hence with the serializer, field by field): the
        # reader - bounded or not - advances by an element of L(T) when no delimited type is nested inside T ...
        "length-in-L": IMPLIES(DEEP_SEALED(t), lambda: IN_L(r._bit_offset - o._bit_offset, t)),
        # ... and a delimited object by 32 + 8 * header, an element of L(T) iff the header respects the extent
        "delimited-length-in-L": IMPLIES(AND(ISINST(t, "DelimitedType"),
                                             lambda: HEADER_VALUE(o, t) <= DIV(AS(t, DELIMITED)._extent, 8)),
                                         lambda: IN_L(r._bit_offset - o._bit_offset, t)),
    }


_sd_f = z3.Function("ghost!deep_sealed", RefSort, z3.BoolSort())


def _native_deep_sealed(t):
    n = type(t).__name__
    if n == "DelimitedType":
        return False
    if n in ("FixedLengthArrayType", "VariableLengthArrayType"):
        return _native_deep_sealed(t.element_type)
    if n in ("StructureType", "UnionType"):
        return all(_native_deep_sealed(f.data_type) for f in t.fields)
    return True


def DEEP_SEALED(t):
    """Ghost: no delimited type occurs anywhere inside the type (defined by structural recursion over the finite type tree:
    primitives / void: yes; arrays: as their element type; structures / unions: only if every field type is; delimited: no).
    The defining equations are given to the solver as instances for the classes / objects at hand (conservative extension)."""
    if not smt():
        return _native_deep_sealed(t)
    ctx = speclib.CTX
    e = ctx.engine
    done = ctx.__dict__.setdefault("c06_sd_axioms", set())
    if "classes" not in done:
        done.add("classes")
        r = z3.Const("sd!r", RefSort)
        ids = lambda *names: z3.Or(*[e.tag_fn(r) == e.class_id(c) for n in names for c in e.class_by_name(n).all_subclasses()])
        elem = e.uf("fld!ArrayType!_element_type", RefSort, RefSort)
        ctx.add_axiom(z3.ForAll([r], z3.Implies(ids("PrimitiveType", "VoidType"), _sd_f(r)), patterns=[_sd_f(r)]))
        ctx.add_axiom(z3.ForAll([r], z3.Implies(ids("ArrayType"), _sd_f(r) == _sd_f(elem(r))), patterns=[_sd_f(r)]))
        ctx.add_axiom(z3.ForAll([r], z3.Implies(ids("DelimitedType"), z3.Not(_sd_f(r))), patterns=[_sd_f(r)]))
    if isinstance(t, Obj) and ("obj", t.ref.get_id()) not in done:
        done.add(("obj", t.ref.get_id()))
        parts = [e.isinstance_of(ctx, t, e.class_by_name(n)) for n in ("StructureType", "UnionType")]
        comp = False if all(x is False for x in parts) else ISINST(t, "StructureType", "UnionType")
        if comp is not False:
            ft = FIELD_TYPES(t)
            i = z3.FreshConst(z3.IntSort(), "sdi")
            from pyvc.loops import mk_forall

            ctx.add_axiom(mk_forall([i], z3.Implies(z3.And(comp if not isinstance(comp, bool) else z3.BoolVal(comp), _sd_f(t.ref),
                                                          0 <= i, i < ft.length), _sd_f(z3.Select(ft.arr, i))),
                                    patterns=[z3.Select(ft.arr, i)]))
    return _sd_f(t.ref)


def ALIGNED_AT(t, off):
    """the position is a multiple of the alignment of the type (A(T) is 1 or 8: only byte alignment is a constraint)"""
    from .c02 import A as _A

    return IMPLIES(_A(t) == 8, off % 8 == 0)


def ALIGNMENT(s, t):
    """the alignment discipline of the decoder: called at an aligned position, it stops at an aligned position"""
    return {"aligned-end": IMPLIES(ALIGNED_AT(t, s.old.reader._bit_offset), lambda: ALIGNED_AT(t, s.reader._bit_offset))}


def NESTED(t):
    """types whose decoding involves validation (anything but primitives and void)"""
    return NOT(ISINST(t, "PrimitiveType", "VoidType"))


DES_RAISES = {
    # SerDesError family: only from types that carry a length prefix / tag / delimiter header somewhere inside
    "SerDesError": lambda s: NESTED(s.schema if hasattr(s, "schema") else s.element_type if hasattr(s, "element_type") else s.field_type),
}


def _type_param(s):
    for n in ("schema", "element_type", "field_type"):
        if n in s.__dict__:
            return s.__dict__[n]
    raise AttributeError("no type parameter")


@contract(SD + "_deserialize_element", props=P7)
class _DesElement:
    params = dict(reader=MutInvObjOf(READER), element_type=ObjOf(SERIALIZABLE))
    returns = AnyValue
    modifies_params = {"reader": ["_bit_offset"]}
    raises_only_if = {"SerDesError": lambda s: NESTED(s.element_type), "ValueError": lambda s: NESTED(s.element_type)}

    def pre(s):
        # model invariant: element / field types are never service types (ArrayType / CompositeType constructors)
        return {"serializable": NOT(ISINST(s.element_type, "ServiceType")),
                "aligned-start": ALIGNED_AT(s.element_type, s.reader._bit_offset)}

    def post(s):
        d = DES_POST2(s, s.element_type)
        d.update(ALIGNMENT(s, s.element_type))
        return d


@contract(SD + "_deserialize_field_value", props=P7)
class _DesField:
    params = dict(reader=MutInvObjOf(READER), field_type=ObjOf(SERIALIZABLE))
    returns = AnyValue
    modifies_params = {"reader": ["_bit_offset"]}
    raises_only_if = {"SerDesError": lambda s: NESTED(s.field_type), "ValueError": lambda s: NESTED(s.field_type)}

    def pre(s):
        # model invariant: field types are never service types (CompositeType constructors, C02 `fields-serializable`)
        return {"serializable": NOT(ISINST(s.field_type, "ServiceType")),
                # alignment before each field (a dropped reader.align_to in the caller violates this)
                "aligned-start": ALIGNED_AT(s.field_type, s.reader._bit_offset)}

    def post(s):
        d = DES_POST2(s, s.field_type)
        d.update(ALIGNMENT(s, s.field_type))
        return d


def PREFIX_READ(o, t):
    """the implicit length prefix read at the old position"""
    return BITSVAL(o._data, o._bit_offset, EFFECTIVE(o, AS(t, VARIABLE)._length_field_type._bit_length), unfold=False)


@contract(SD + "_deserialize_array", props=P7)
class _DesArray:
    params = dict(reader=MutInvObjOf(READER), schema=ObjOf(ARRAY))
    returns = AnyValue
    modifies_params = {"reader": ["_bit_offset"]}
    raises_only_if = {
        # rejected, not clamped: a prefix above the capacity; nested element types may reject as well
        "ArrayLengthError": lambda s: OR(AND(ISINST(s.schema, "VariableLengthArrayType"),
                                             lambda: PREFIX_READ(s.old.reader, s.schema) > s.schema._capacity),
                                         NESTED(s.schema._element_type)),
        "SerDesError": lambda s: NESTED(s.schema._element_type),
        # undecodable UTF-8 (UnicodeDecodeError is a ValueError); "unknown array type" for a class that is neither
        "ValueError": lambda s: OR(NESTED(s.schema._element_type), ISINST(s.schema._element_type, "UTF8Type", "ByteType"),
                                   NOT(ISINST(s.schema, "FixedLengthArrayType", "VariableLengthArrayType"))),
    }

    raises_here = {
        "ArrayLengthError": lambda s: AND(ISINST(s.schema, "VariableLengthArrayType"),
                                          lambda: PREFIX_READ(s.old.reader, s.schema) > s.schema._capacity),
        "ValueError": lambda s: NOT(ISINST(s.schema, "FixedLengthArrayType", "VariableLengthArrayType")),
    }

    def pre(s):
        return {"aligned-start": ALIGNED_AT(s.schema, s.reader._bit_offset)}

    def post(s):
        d = DES_POST2(s, s.schema)
        d.update(ALIGNMENT(s, s.schema))
        d["length-not-clamped"] = IMPLIES(ISINST(s.schema, "VariableLengthArrayType"),
                                          lambda: PREFIX_READ(s.old.reader, s.schema) <= s.schema._capacity)
        return d


@loop_invariant(SD + "_deserialize_array", loop=0)
def _des_array_loop(s):
    o, r = s.old.reader, s.reader
    return {"frame": AND(SAME_BYTES(r._data, o._data), r._start_offset == o._start_offset, EQ(r._bit_limit, o._bit_limit)),
            "forward": r._bit_offset >= o._bit_offset,
            "element-aligned": ALIGNED_AT(s.schema._element_type, r._bit_offset),
            # i elements of a deep-sealed element type: the position is (prefix +) a k-fold sum of element lengths
            "progress": IMPLIES(DEEP_SEALED(s.schema._element_type), lambda: MEM(
                r._bit_offset - o._bit_offset - ITE(ISINST(s.schema, "VariableLengthArrayType"), PREFIX_W(s.schema), 0),
                kfold_s(L_OF(s.schema._element_type), s.i))),
            **_array_element_protocol(s, "_deserialize_element", "reader", "des")}


def _des_array_triggers(s):
    return [st.kfold_unfold(L_OF(s.schema._element_type), s.i)]


_des_array_loop.triggers = _des_array_triggers


@contract(SD + "_deserialize_composite", props=P7)
class _DesComposite:
    params = dict(reader=MutInvObjOf(READER), schema=ObjOf(COMPOSITE))
    returns = AnyValue
    modifies_params = {"reader": ["_bit_offset"]}
    # TypeError iff the type is a service type: fields / inner types are never services (C02 class invariants)
    raises = {"TypeError": lambda s: ISINST(s.schema, "ServiceType")}
    raises_only_if = {"SerDesError": lambda s: True, "ValueError": lambda s: True}
    # cuts about the intermediate positions (same steps as on the serializer side, under the premise that no delimited type
    # is nested inside the schema)
    at_call = {
        "_BitReader.align_to": lambda s, c: dict(
            _union_before_padding(s, c, dev="reader", premise=DEEP_SEALED(s.schema)), **_struct_before_alignment(s, c, dev="reader")),
        "_deserialize_field_value": lambda s, c: _struct_field_aligned(s, c, dev="reader", premise=DEEP_SEALED(s.schema)),
    }
    # rejected, not clamped (exceptions raised by this function itself, as opposed to nested objects)
    raises_here = {
        "DelimiterHeaderError": lambda s: AND(ISINST(s.schema, "DelimitedType"),
                                              lambda: 8 * HEADER_VALUE(s.old.reader, s.schema) > REMAINING_AFTER(s.old.reader, 32)),
        "UnionTagError": lambda s: AND(ISINST(s.schema, "UnionType"), lambda: TAG_READ(s.old.reader, s.schema) >= LEN(FIELDS(s.schema))),
        "ValueError": lambda s: NOT(ISINST(s.schema, "DelimitedType", "UnionType", "StructureType", "ServiceType")),
    }

    def pre(s):
        return {"aligned-start": ALIGNED_AT(s.schema, s.reader._bit_offset)}

    def post(s):
        d = DES_POST2(s, s.schema)
        # final padding to the alignment of the composite (byte)
        d["aligned-end"] = IMPLIES(NOT(ISINST(s.schema, "ServiceType")), s.reader._bit_offset % 8 == 0)
        d["cut-delimited-steps"] = IMPLIES(AND(ISINST(s.schema, "DelimitedType"), lambda: HEADER_VALUE(
            s.old.reader, s.schema) <= DIV(AS(s.schema, DELIMITED)._extent, 8)), lambda: _des_delimited_chain(s))
        d["tag-not-clamped"] = IMPLIES(ISINST(s.schema, "UnionType"),
                                       lambda: TAG_READ(s.old.reader, s.schema) < LEN(FIELDS(s.schema)))
        d["union-variant-decoded"] = IMPLIES(ISINST(s.schema, "UnionType"),
                                             lambda: _union_variant_call(s, "_deserialize_field_value", False))
        return d


def _des_delimited_chain(s):
    t = s.schema
    if not smt():
        return True
    n = V_Int(HEADER_VALUE(s.old.reader, t))
    K = V_Int(DIV(AS(t, DELIMITED)._extent, 8))
    M = st.mults_f(z3.IntVal(8), K)
    S32 = st.sumset_f(st.singleton_f(z3.IntVal(32)), M)
    H_MULT(8, K, n)
    return AND(z3.Select(M, n * 8), z3.Select(st.singleton_f(z3.IntVal(32)), z3.IntVal(32)), z3.Select(S32, 32 + n * 8),
               MEM(32 + n * 8, L_OF(t)))


def TAG_READ(o, t):
    return BITSVAL(o._data, o._bit_offset, EFFECTIVE(o, AS(t, UNION)._tag_field_type._bit_length), unfold=False)


@loop_invariant(SD + "_deserialize_composite", loop=0)
def _des_struct_loop(s):
    o, r = s.old.reader, s.reader
    ft = FIELD_TYPES(s.schema)
    sf = st.V.SymSet(st.sfold_f(st.lmap_f(ft.arr), st.amap_f(ft.arr), st._i(s.i)))
    y = r._bit_offset - o._bit_offset
    d = {"frame": AND(SAME_BYTES(r._data, o._data), r._start_offset == o._start_offset, EQ(r._bit_limit, o._bit_limit)),
         "forward": r._bit_offset >= o._bit_offset,
         "hint": AND(H_PAD(y), H_PADSET_IN(sf, y)),
         # the position after i fields is in the layout fold of the first i fields (as on the serializer side)
         "progress": IMPLIES(DEEP_SEALED(s.schema), lambda: MEM(y, sf))}
    d.update(_struct_field_decoding_protocol(s))
    return d


def _struct_field_decoding_protocol(s):
    """Every field is decoded exactly once, in order, by the decoder of its own type from this reader: per iteration of the
    structure loop a padding field makes no call of the field decoder, any other field exactly one (obligation side only -
    see _iteration_calls)."""
    r = _iteration_calls(s, "c06_des_struct_iter_mark")
    if r is None:
        return {}
    i0, calls = r
    des = [e for e in calls if e["callee"].endswith("_deserialize_field_value")]
    f = AT(FIELDS(s.schema), i0)
    is_pad = ISINST(f, "PaddingField")
    if not des:
        return {"field-decoded-once": is_pad}
    c = des[0]["ns"]
    return {"field-decoded-once": AND(NOT(is_pad), len(des) == 1),
            "field-decoded-by-own-type": _same_ref(c.field_type, f._data_type),
            "field-decoded-from-this-reader": _same_ref(c.reader, s.reader)}


def _des_struct_triggers(s):
    ft = FIELD_TYPES(s.schema)
    F, M = st.lmap_f(ft.arr), st.amap_f(ft.arr)
    return [st.sfold_unfold(F, M, s.i), st.sfold_unfold(F, M, 0)]


_des_struct_loop.triggers = _des_struct_triggers


def FIELDS_SERIALIZABLE(seq):
    """no field of a composite is of a service type (established by the CompositeType constructors)"""
    if smt():
        from pyvc.loops import mk_forall

        i = z3.FreshConst(z3.IntSort(), "fi")
        body = NOT(ISINST(seq.at(speclib.CTX, i)._data_type, "ServiceType"))
        return mk_forall([i], z3.Implies(z3.And(0 <= i, i < seq.length), body), patterns=[z3.Select(seq.arr, i)])
    return all(type(f.data_type).__name__ != "ServiceType" for f in seq)


# ------------------------------------------------------------------------------------------------ array / composite encoding
from pyvc.dynmodel import Dyn, DynV
from pyvc import dynmodel as dm
from pyvc import settheory as st
from pyvc.settheory import MEM, kfold_s
from .c02 import L as L_OF, A as A_OF, FIELD_TYPES


def _nset_contains(ns, x, memo=None):
    """native membership in the lazily represented set of specs/c01.NSet without enumerating it"""
    memo = {} if memo is None else memo
    key = (id(ns), x)
    if key in memo:
        return memo[key]
    k, a = ns.kind, ns.args
    if x < 0:
        r = False
    elif k in ("leaf", "set"):
        r = x in a[0]
    elif k == "pad":
        r = x % a[1] == 0 and any(_nset_contains(a[0], y, memo) for y in range(max(0, x - a[1] + 1), x + 1))
    elif k == "uni":
        r = any(_nset_contains(c, x, memo) for c in a[0])
    elif k == "cat":
        r = _cat_contains(list(a[0]), x, memo)
    elif k in ("rep", "rng"):
        child, cnt = a
        lo, hi = child.min(), child.max()
        if lo == hi:
            q = (x // lo) if lo else 0
            ok = (x == q * lo) if lo else (x == 0)
            r = ok and (q == cnt if k == "rep" else 0 <= q <= cnt) if lo else (x == 0)
        else:
            counts = [cnt] if k == "rep" else range(0, cnt + 1)
            r = any(_rep_contains(child, c, x, memo) for c in counts if c * lo <= x <= c * hi)
    else:
        r = x in ns.elements()
    memo[key] = r
    return r


def _cat_contains(children, x, memo):
    if not children:
        return x == 0
    first, rest = children[0], children[1:]
    return any(_nset_contains(first, y, memo) and _cat_contains(rest, x - y, memo) for y in range(first.min(), min(x, first.max()) + 1))


def _rep_contains(child, c, x, memo):
    key = ("rep", id(child), c, x)
    if key in memo:
        return memo[key]
    if c == 0:
        r = x == 0
    else:
        r = any(_nset_contains(child, y, memo) and _rep_contains(child, c - 1, x - y, memo)
                for y in range(child.min(), min(x, child.max()) + 1))
    memo[key] = r
    return r


def IN_L(x, t):
    """x is one of the Specification's bit lengths of the type (ghost L of specs/c02.py)"""
    if smt():
        return MEM(x, L_OF(t))
    return _nset_contains(L_OF(t), x)


def DTAG(v, *tags):
    """the dynamic value is of one of the builtin types"""
    if smt():
        return dm.tag_in(v.term, tags)
    table = {dm.T_NONE: type(None), dm.T_BOOL: bool, dm.T_INT: int, dm.T_FLOAT: float, dm.T_STR: str, dm.T_BYTES: bytes,
             dm.T_BYTEARRAY: bytearray, dm.T_LIST: list, dm.T_TUPLE: tuple, dm.T_DICT: dict}
    return any((type(v) is table[t]) if t in (dm.T_INT, dm.T_BOOL) else isinstance(v, table[t]) for t in tags)


def DLEN_OF(v):
    if smt():
        return dm.len_f(v.term)
    return len(v)


def ADVANCE(s):
    return s.writer._bit_offset - s.old.writer._bit_offset


def W_POST(s, t):
    """What every _serialize_* function guarantees about the writer (called at a position aligned to A(T))."""
    o, w = s.old.writer, s.writer
    return {
        "prefix": PREFIX_PRESERVED(w._buffer, o._buffer, o._bit_offset),
        # the produced length is one of the Specification's lengths of the type (ghost L from specs/c02.py)
        "length-in-L": IN_L(ADVANCE(s), t),
        "aligned-end": ALIGNED_AT(t, w._bit_offset),
    }


def W_PRE(s, t):
    return {"serializable": NOT(ISINST(t, "ServiceType")),
            # alignment before each field / element (a caller that skips writer.align_to violates this)
            "aligned-start": ALIGNED_AT(t, s.writer._bit_offset)}


@contract(SD + "_serialize_element", props=["C06", "C14"])
class _SerElement:
    params = dict(writer=MutInvObjOf(WRITER), element_type=ObjOf(SERIALIZABLE), value=Dyn)
    modifies_params = {"writer": ["_buffer", "_bit_offset"]}
    raises_only_if = {"SerDesError": lambda s: NESTED(s.element_type), "ValueError": lambda s: True,
                      "TypeError": lambda s: NESTED(s.element_type)}

    def pre(s):
        return W_PRE(s, s.element_type)

    def post(s):
        return W_POST(s, s.element_type)


@contract(SD + "_serialize_field_value", props=["C06", "C14"])
class _SerField:
    params = dict(writer=MutInvObjOf(WRITER), field_type=ObjOf(SERIALIZABLE), value=Dyn)
    modifies_params = {"writer": ["_buffer", "_bit_offset"]}
    raises_only_if = {"SerDesError": lambda s: NESTED(s.field_type), "ValueError": lambda s: True,
                      "TypeError": lambda s: NESTED(s.field_type)}

    def pre(s):
        return W_PRE(s, s.field_type)

    def post(s):
        return W_POST(s, s.field_type)


def ELEM(t):
    return AS(t, ARRAY)._element_type


def PREFIX_W(t):
    return AS(t, VARIABLE)._length_field_type._bit_length


def ARRAY_INPUT_OK(t, v):
    """input types accepted for an array value: str / bytes / bytearray for utf8 and byte arrays, also list / tuple for byte
    arrays, list / tuple for all other arrays"""
    return ITE(ISINST(ELEM(t), "UTF8Type"), DTAG(v, dm.T_STR, dm.T_BYTES, dm.T_BYTEARRAY),
               ITE(ISINST(ELEM(t), "ByteType"), DTAG(v, dm.T_STR, dm.T_BYTES, dm.T_BYTEARRAY, dm.T_LIST, dm.T_TUPLE),
                   DTAG(v, dm.T_LIST, dm.T_TUPLE)))


def ARRAY_LEN_BAD(t, v):
    """the number of elements does not fit the array (for inputs whose length is the element count, i.e. not str)"""
    return ITE(ISINST(t, "FixedLengthArrayType"), DLEN_OF(v) != AS(t, ARRAY)._capacity, DLEN_OF(v) > AS(t, ARRAY)._capacity)


@contract(SD + "_serialize_array", props=["C06", "C14"])
class _SerArray:
    params = dict(writer=MutInvObjOf(WRITER), schema=ObjOf(ARRAY), value=Dyn)
    modifies_params = {"writer": ["_buffer", "_bit_offset"]}
    raises_only_if = {"SerDesError": lambda s: True, "ValueError": lambda s: True, "TypeError": lambda s: True}
    raises_here = {
        "TypeError": lambda s: NOT(ARRAY_INPUT_OK(s.schema, s.value)),
        # both array kinds reject a wrong element count (for a str input the count is that of its UTF-8 encoding)
        "ArrayLengthError": lambda s: OR(DTAG(s.value, dm.T_STR), ARRAY_LEN_BAD(s.schema, s.value)),
    }

    def pre(s):
        return W_PRE(s, s.schema)

    def post(s):
        d = W_POST(s, s.schema)
        d["input-type-accepted"] = ARRAY_INPUT_OK(s.schema, s.value)
        d["length-accepted"] = IMPLIES(NOT(DTAG(s.value, dm.T_STR)), NOT(ARRAY_LEN_BAD(s.schema, s.value)))
        # implicit length prefix of a variable-length array: the number of elements
        d["length-prefix"] = IMPLIES(AND(ISINST(s.schema, "VariableLengthArrayType"), NOT(DTAG(s.value, dm.T_STR))),
                                     lambda: BITSVAL(s.writer._buffer, s.old.writer._bit_offset, PREFIX_W(s.schema),
                                                     unfold=False) == DLEN_OF(s.value))
        return d


def _array_element_protocol(s, callee_suffix, dev, tag):
    """Every element is encoded / decoded exactly once, in order, by the codec of the element type on this device: per
    iteration of the element loop exactly one call of the element codec (serializer: for element i of the sequence that is
    iterated).  Obligation side only - see _iteration_calls."""
    r = _iteration_calls(s, "c06_array_iter_mark_%s_%s" % (callee_suffix, tag))
    if r is None:
        return {}
    i0, calls = r
    el = [e for e in calls if e["callee"].endswith(callee_suffix)]
    if len(el) != 1:
        return {"element-coded-once": False}
    c = el[0]["ns"]
    out = {"element-coded-once": True,
           "element-coded-by-element-type": _same_ref(c.element_type, ELEM(s.schema)),
           "element-coded-on-this-device": _same_ref(getattr(c, dev), getattr(s, dev))}
    if dev == "writer":
        it = AT(s.seq, i0)
        vt, et = getattr(c.value, "term", None), getattr(it, "term", None)
        out["element-is-the-ith"] = (vt == et) if (vt is not None and et is not None) else (c.value is it)
    return out


def _ser_array_inv(variable):
    def inv(s):
        o, w = s.old.writer, s.writer
        t = s.schema
        base = o._bit_offset + (PREFIX_W(t) if variable else 0)
        d = {"prefix": PREFIX_PRESERVED(w._buffer, o._buffer, o._bit_offset),
             "progress": MEM(w._bit_offset - base, kfold_s(L_OF(ELEM(t)), s.i)),
             "element-aligned": ALIGNED_AT(ELEM(t), w._bit_offset)}
        if variable:
            d["length-prefix"] = BITSVAL(w._buffer, o._bit_offset, PREFIX_W(t), unfold=False) == LEN(s.seq)
        d.update(_array_element_protocol(s, "_serialize_element", "writer", variable))
        return d

    def triggers(s):
        return [st.kfold_unfold(L_OF(ELEM(s.schema)), s.i)]

    inv.triggers = triggers
    return inv


loop_invariant(SD + "_serialize_array", loop=0)(_ser_array_inv(False))
loop_invariant(SD + "_serialize_array", loop=1)(_ser_array_inv(True))


from .c02 import FIELDS
from pyvc.speclib import FILTER, EXISTS_IDX, AT


def NONPAD_FIELDS(t):
    """the non-padding fields of a composite, in order"""
    if smt():
        return FILTER(t._attributes, lambda a: AND(ISINST(a, "Field"), NOT(ISINST(a, "PaddingField"))))
    return list(t.fields_except_padding)


def FNAME(f):
    return f._name if smt() else f.name


def DKEYS(v):
    if smt():
        return dm.keys_seq(speclib.CTX, v)
    return list(v.keys())


def UNION_BAD_SHAPE(obj):
    return OR(NOT(DTAG(obj, dm.T_DICT)), lambda: DLEN_OF(obj) != 1)


def UNION_KEY(obj):
    return AT(DKEYS(obj), 0)


def NAMES_A_VARIANT(t, key):
    return EXISTS_IDX(FIELDS(t), lambda i, f: EQ(FNAME(f), key))


def STRUCT_KEYS_VALID(t, obj):
    """every key of the dict names a non-padding field of this structure"""
    np = NONPAD_FIELDS(t)
    if smt():
        keys = DKEYS(obj)
        i, j = z3.FreshConst(z3.IntSort(), "ki"), z3.FreshConst(z3.IntSort(), "fj")
        name_j = np.at(speclib.CTX, j)._name
        inner = z3.Exists([j], z3.And(0 <= j, j < np.length, name_j == z3.Select(keys.arr, i)), patterns=[z3.Select(np.arr, j)])
        return z3.ForAll([i], z3.Implies(z3.And(0 <= i, i < keys.length), inner), patterns=[z3.Select(keys.arr, i)])
    return FORALL_IDX(DKEYS(obj), lambda i, k: EXISTS_IDX(np, lambda j, f: EQ(FNAME(f), k), name="j"))


def H_MULT(a, K, n):
    """definitional instance (Lean Basic: multiples a K = {0, a, ..., K*a}): 0 <= n <= K -> n*a in multiples a K"""
    if smt():
        from pyvc.bittheory import _fact
        from pyvc.values import Int as _I

        a, K, n = _I.unwrap(a), _I.unwrap(K), _I.unwrap(n)
        speclib.CTX.pc.append(z3.Implies(z3.And(0 <= n, n <= K), z3.Select(st.mults_f(a, K), n * a)))
        return True
    return True


def HDR_W(t):
    """width of the delimiter header (32 by the class invariant of DelimitedType; kept symbolic to match the code)"""
    return AS(t, DELIMITED)._delimiter_header_type._bit_length


def H_PAD(x):
    """definitional instances (Lean Basic.pad: pad r x = (x + r - 1) / r * r) for the two alignments that occur"""
    if smt():
        from pyvc.values import Int as _I

        x = _I.unwrap(x)
        speclib.CTX.pc.append(z3.And(st.pad_f(z3.IntVal(8), x) == ((x + 7) / 8) * 8, st.pad_f(z3.IntVal(1), x) == x))
        return True
    return True


def H_PADSET_IN(S, x):
    """definitional instances (padset A r = A.image (pad r)) for r = 8 and r = 1: x in A -> pad r x in padset A r"""
    if smt():
        from pyvc.values import Int as _I

        x = _I.unwrap(x)
        A_ = S.term
        for r in (8, 1):
            speclib.CTX.pc.append(z3.Implies(z3.Select(A_, x), z3.Select(st.padset_f(A_, z3.IntVal(r)), st.pad_f(z3.IntVal(r), x))))
        return True
    return True


def H_UNION_CHAIN(t):
    """partial instances (set arguments fixed) of the prelude axioms unions-in, sumset-in, padset-in, pad-def for the layout
    of this union: L = padset(sumset({tag width}, U_i L(variant i)), 8)"""
    if smt():
        ft = FIELD_TYPES(t)
        F, n = st.lmap_f(ft.arr), ft.length
        U = st.unions_f(F, n)
        w = V_Int(TAG_W(t))
        S = st.sumset_f(st.singleton_f(w), U)
        i, x, y = z3.Ints("hu!i hu!x hu!y")
        pc = speclib.CTX.pc
        sel = z3.Select
        pc.append(z3.ForAll([i, x], z3.Implies(z3.And(0 <= i, i < n, sel(sel(F, i), x)), sel(U, x)), patterns=[sel(sel(F, i), x)]))
        pc.append(z3.ForAll([x], z3.Implies(sel(U, x), sel(S, w + x)), patterns=[sel(U, x)]))
        pc.append(z3.ForAll([y], z3.Implies(sel(S, y), z3.And(sel(st.padset_f(S, z3.IntVal(8)), st.pad_f(z3.IntVal(8), y)),
                                                              st.pad_f(z3.IntVal(8), y) == ((y + 7) / 8) * 8)),
                            patterns=[sel(S, y)]))
        return True
    return True


def V_Int(x):
    from pyvc.values import Int as _I

    return _I.unwrap(x)


def TAG_W(t):
    return AS(t, UNION)._tag_field_type._bit_length


@contract(SD + "_serialize_composite", props=["C06", "C14"])
class _SerComposite:
    params = dict(writer=MutInvObjOf(WRITER), schema=ObjOf(COMPOSITE), obj=Dyn)
    modifies_params = {"writer": ["_buffer", "_bit_offset"]}
    raises_only_if = {"SerDesError": lambda s: True, "ValueError": lambda s: True, "TypeError": lambda s: True}
    raises_here = {
        "TypeError": lambda s: ISINST(s.schema, "ServiceType"),
        "ValueError": lambda s: OR(AND(ISINST(s.schema, "UnionType"), lambda: UNION_BAD_SHAPE(s.obj)),
                                   AND(ISINST(s.schema, "StructureType"),
                                       lambda: OR(NOT(DTAG(s.obj, dm.T_DICT)), lambda: NOT(STRUCT_KEYS_VALID(s.schema, s.obj))))),
        "UnionFieldError": lambda s: AND(ISINST(s.schema, "UnionType"), NOT(UNION_BAD_SHAPE(s.obj)),
                                         lambda: NOT(NAMES_A_VARIANT(s.schema, UNION_KEY(s.obj)))),
    }

    # cuts at the final writer.align_to of the union branch: the unpadded length is tag width + a length of some variant
    at_call = {"_BitWriter.align_to": lambda s, c: dict(_union_before_padding(s, c), **_struct_before_alignment(s, c)),
               # structure loop: after the per-field alignment the position is in padset(SFold(first i fields), A(field i))
               "_serialize_field_value": lambda s, c: _struct_field_aligned(s, c)}

    def pre(s):
        return {"aligned-start": ALIGNED_AT(s.schema, s.writer._bit_offset)}

    def post(s):
        t, o, w = s.schema, s.old.writer, s.writer
        d = W_POST(s, t)
        d["not-a-service"] = NOT(ISINST(t, "ServiceType"))
        d["byte-aligned-end"] = w._bit_offset % 8 == 0
        d["union-input"] = IMPLIES(ISINST(t, "UnionType"), lambda: AND(
            NOT(UNION_BAD_SHAPE(s.obj)), NAMES_A_VARIANT(t, UNION_KEY(s.obj))))
        d["struct-input"] = IMPLIES(ISINST(t, "StructureType"),
                                    lambda: AND(DTAG(s.obj, dm.T_DICT), STRUCT_KEYS_VALID(t, s.obj)))
        # union tag = index of the (first) variant named by the key
        d["union-tag"] = IMPLIES(ISINST(t, "UnionType"), lambda: _tag_is_variant_index(s))
        # ... and what follows the tag is the given value of that variant, encoded by that variant's own type, once
        d["union-variant-encoded"] = IMPLIES(ISINST(t, "UnionType"), lambda: _union_variant_call(s, "_serialize_field_value", True))
        # delimiter header = byte length of the inner representation, followed by exactly that many bytes
        # hint for length-in-L of a delimited type: 32 + 8 * n with n <= extent / 8 (definition of `multiples`)
        d["hint-delimited"] = IMPLIES(ISINST(t, "DelimitedType"), lambda: H_MULT(
            8, DIV(AS(t, DELIMITED)._extent, 8), DIV(ADVANCE(s) - 32, 8)))
        # cut: the payload is a whole number of bytes that fits the extent (proved first, used by length-in-L)
        d["cut-delimited-payload"] = IMPLIES(ISINST(t, "DelimitedType"), lambda: AND(
            ADVANCE(s) >= 32, (ADVANCE(s) - 32) % 8 == 0, DIV(ADVANCE(s) - 32, 8) <= DIV(AS(t, DELIMITED)._extent, 8)))
        d["cut-delimited-steps"] = IMPLIES(ISINST(t, "DelimitedType"), lambda: _delimited_membership_chain(s))
        d["delimiter-header"] = IMPLIES(ISINST(t, "DelimitedType"), lambda: AND(
            ADVANCE(s) >= 32, (ADVANCE(s) - 32) % 8 == 0,
            BITSVAL(w._buffer, o._bit_offset, HDR_W(t), unfold=False) == LSB(DIV(ADVANCE(s) - 32, 8), HDR_W(t))))
        return d


def _struct_ctx(s):
    """(loop index, F, M) when the path is inside the structure loop of _serialize_composite, else None"""
    t = s.schema
    if not smt():
        return None
    idx = getattr(s.ctx, "loop_indices", None)
    g = ISINST(t, "StructureType")
    if not idx or g is False or (not isinstance(g, bool) and not speclib.CTX.engine.feasible(speclib.CTX, g)):
        return None
    ft = FIELD_TYPES(t)
    return idx[-1], st.lmap_f(ft.arr), st.amap_f(ft.arr)


def _dev(ns, dev):
    return ns.__dict__[dev]


def _struct_before_alignment(s, c, dev="writer"):
    """at <device>.align_to inside the structure loop: remember the unaligned prefix length (used by the next cut)"""
    sc = _struct_ctx(s)
    if sc is None:
        return {}
    s.ctx.__dict__["c06_unaligned"] = V_Int(c.self._bit_offset - _dev(s.old, dev)._bit_offset)
    return {}


def _struct_field_aligned(s, c, dev="writer", premise=None):
    """at _serialize_field_value inside the structure loop, in small steps: the entry position is byte aligned; the
    alignment of field i is Amap[i]; the position is pad(A, unaligned prefix length); hence it is in
    padset(SFold(first i fields), A(field i))"""
    sc = _struct_ctx(s)
    y0 = getattr(s.ctx, "c06_unaligned", None)
    if sc is None or y0 is None:
        return {}
    i, F, M = sc
    y = V_Int(_dev(c, dev)._bit_offset - _dev(s.old, dev)._bit_offset)
    a = V_Int(A_OF(c.field_type))
    g = (lambda f: f) if premise is None else (lambda f: z3.Implies(premise, f))
    return {"entry-aligned": V_Int(_dev(s.old, dev)._bit_offset) % 8 == 0,
            "field-alignment": z3.Select(M, i) == a,
            "aligned-position": z3.Or(z3.And(a == 8, y == st.pad_f(z3.IntVal(8), y0)), z3.And(a == 1, y == st.pad_f(z3.IntVal(1), y0))),
            "aligned-prefix-length": g(z3.Select(st.padset_f(st.sfold_f(F, M, i), z3.Select(M, i)), y))}


def _union_before_padding(s, c, dev="writer", premise=None):
    t = s.schema
    if not smt():
        return {}
    from pyvc.values import Obj as _Obj

    is_union = ISINST(t, "UnionType")
    if is_union is False:
        return {}
    ft = FIELD_TYPES(t)
    F, n = st.lmap_f(ft.arr), ft.length
    U = st.unions_f(F, n)
    w = V_Int(TAG_W(t))
    S = st.sumset_f(st.singleton_f(w), U)
    y = V_Int(c.self._bit_offset - _dev(s.old, dev)._bit_offset)
    g = is_union if not isinstance(is_union, bool) else z3.BoolVal(is_union)
    if not speclib.CTX.engine.feasible(speclib.CTX, g):
        return {}  # not on the union path
    if premise is not None:
        g = z3.And(g, premise)
    return {"variant-length": z3.Implies(g, z3.Select(U, y - w)),
            "tagged-length": z3.Implies(g, z3.And(z3.Select(st.singleton_f(w), w), z3.Select(S, y))),
            "padded-length": z3.Implies(g, z3.And(z3.Select(st.padset_f(S, z3.IntVal(8)), st.pad_f(z3.IntVal(8), y)),
                                                  st.pad_f(z3.IntVal(8), y) == ((y + 7) / 8) * 8)),
            "padded-in-L": z3.Implies(g, z3.Select(L_OF(t).term, st.pad_f(z3.IntVal(8), y)))}


def _delimited_membership_chain(s):
    """32 + 8n is in L(Delimited) = sumset({32}, multiples(8, extent / 8)), step by step (each conjunct is its own obligation)"""
    t = s.schema
    if not smt():
        return True
    n = V_Int(DIV(ADVANCE(s) - 32, 8))
    K = V_Int(DIV(AS(t, DELIMITED)._extent, 8))
    M = st.mults_f(z3.IntVal(8), K)
    S32 = st.sumset_f(st.singleton_f(z3.IntVal(32)), M)
    return AND(z3.Select(M, n * 8), z3.Select(st.singleton_f(z3.IntVal(32)), z3.IntVal(32)), z3.Select(S32, 32 + n * 8),
               MEM(32 + n * 8, L_OF(t)))


def _union_variant_call(s, callee_suffix, with_value):
    """SMT reading (protocol over the ghost call log of this path): exactly one call of the field codec, for the type of the
    variant selected by the tag (serializer: with the value stored under the key of the input dict)."""
    if not smt():
        return True
    t = s.schema
    calls = [e for e in speclib.CTX.call_log if e["callee"].endswith(callee_suffix)]
    if len(calls) != 1:
        return False
    c = calls[0]["ns"]
    fs = FIELDS(t)
    if with_value:
        tag = BITSVAL(s.writer._buffer, s.old.writer._bit_offset, TAG_W(t), unfold=False)
        key = UNION_KEY(s.obj)
        vt = c.value.term if isinstance(c.value, DynV) else None
        if vt is None:
            return False
        return AND(_same_ref(c.field_type, AT(fs, tag)._data_type), _same_ref(c.writer, s.writer),
                   vt == dm.get_f(s.obj.term, V_Str(key)))
    tag = TAG_READ(s.old.reader, t)
    return AND(_same_ref(c.field_type, AT(fs, tag)._data_type), _same_ref(c.reader, s.reader))


def _tag_is_variant_index(s):
    t, o, w = s.schema, s.old.writer, s.writer
    fs = FIELDS(t)
    tag = BITSVAL(w._buffer, o._bit_offset, TAG_W(t), unfold=False)
    key = UNION_KEY(s.obj)
    if smt():
        return AND(0 <= tag, tag < LEN(fs), EQ(FNAME(AT(fs, tag)), key),
                   FORALL_IDX(fs, lambda j, f: NOT(EQ(FNAME(f), key)), hi=tag, name="tj"))
    return 0 <= tag < len(fs) and fs[tag].name == key and all(f.name != key for f in fs[:tag])


@loop_invariant(SD + "_serialize_composite", loop=0)
def _ser_delimited_copy(s):
    o, w = s.old.writer, s.writer
    return {"prefix": PREFIX_PRESERVED(w._buffer, o._buffer, o._bit_offset),
            "position": w._bit_offset == o._bit_offset + HDR_W(s.schema) + 8 * s.i,
            "header": BITSVAL(w._buffer, o._bit_offset, HDR_W(s.schema), unfold=False) == LSB(LEN(s.seq), HDR_W(s.schema))}


def _iteration_calls(s, key):
    """The calls logged during the arbitrary iteration that has just been executed, as (index term of that iteration, log
    entries) - only when the invariant is being evaluated at the END of that iteration (the obligation side); None when it is
    evaluated where it is assumed (initiation, start of the arbitrary iteration, loop exit), so that nothing about calls is
    ever assumed.  SMT reading only."""
    if not smt():
        return None
    d = s.ctx.__dict__
    mark = d.get(key)
    d[key] = (s.i, len(s.ctx.call_log))
    if mark is None:
        return None
    i0, n0 = mark
    si = s.i
    if z3.is_expr(si) and z3.is_expr(i0) and z3.is_add(si) and si.num_args() == 2 and si.arg(0).eq(i0) \
            and z3.is_int_value(si.arg(1)) and si.arg(1).as_long() == 1:
        return i0, list(s.ctx.call_log[n0:])
    return None


def _struct_field_protocol(s):
    """Statement: every field is encoded exactly once, in order, from the value given for it - or, when the dict omits it,
    from the default (zero / empty / first variant) VALUE of its type, encoded like any other value.  Per iteration of the
    structure loop: a padding field makes no call of the field serializer; any other field makes exactly one, for the
    field's own type, with obj[name] if the dict has the name, else with what _default_value(field type) returned."""
    r = _iteration_calls(s, "c06_struct_iter_mark")
    if r is None:
        return {}
    i0, calls = r
    sers = [e for e in calls if e["callee"].endswith("_serialize_field_value")]
    defs = [e for e in calls if e["callee"].endswith("._default_value")]
    f = AT(FIELDS(s.schema), i0)
    is_pad = ISINST(f, "PaddingField")
    out = {}
    if not sers:
        out["field-encoded-once"] = is_pad  # no call of the field serializer: only right for a padding field
        return out
    out["field-encoded-once"] = AND(NOT(is_pad), len(sers) == 1)
    c = sers[0]["ns"]
    out["field-encoded-by-own-type"] = _same_ref(c.field_type, f._data_type)
    out["field-encoded-to-this-writer"] = _same_ref(c.writer, s.writer)
    has = dm.has_f(s.obj.term, V_Str(FNAME(f)))
    given = dm.get_f(s.obj.term, V_Str(FNAME(f)))
    vt = c.value.term if isinstance(c.value, DynV) else None
    if vt is None:
        out["field-value-or-default"] = False
        return out
    if defs:
        dres = defs[-1]["result"]
        dt = dres.term if isinstance(dres, DynV) else None
        out["default-of-own-type"] = AND(len(defs) == 1, _same_ref(defs[-1]["ns"].schema, f._data_type))
        out["field-value-or-default"] = AND(z3.Not(has), dt is not None and vt.eq(dt)) if dt is not None else False
    else:
        out["field-value-or-default"] = z3.And(has, vt == given)
    return out


def _same_ref(a, b):
    """object identity of two engine objects (no __eq__ of the repository is involved)"""
    if a is b:
        return True
    return a.ref == b.ref


def V_Str(x):
    from pyvc import values as _V
    return _V.Str.unwrap(x)


@loop_invariant(SD + "_serialize_composite", loop=3)
def _ser_struct_fields(s):
    o, w = s.old.writer, s.writer
    ft = FIELD_TYPES(s.schema)
    return dict(_ser_struct_fields_layout(s, o, w, ft), **_struct_field_protocol(s))


def _ser_struct_fields_layout(s, o, w, ft):
    return {"prefix": PREFIX_PRESERVED(w._buffer, o._buffer, o._bit_offset),
            "forward": w._bit_offset >= o._bit_offset,
            "hint": AND(H_PAD(w._bit_offset - o._bit_offset),
                        H_PADSET_IN(st.V.SymSet(st.sfold_f(st.lmap_f(ft.arr), st.amap_f(ft.arr), st._i(s.i))),
                                    w._bit_offset - o._bit_offset)),
            # offset in padset-then-sumset form: the layout fold of the first i fields (SFold of specs/c02.py)
            "progress": MEM(w._bit_offset - o._bit_offset,
                            st.V.SymSet(st.sfold_f(st.lmap_f(ft.arr), st.amap_f(ft.arr), st._i(s.i))))}


def _ser_struct_triggers(s):
    ft = FIELD_TYPES(s.schema)
    F, M = st.lmap_f(ft.arr), st.amap_f(ft.arr)
    return [st.sfold_unfold(F, M, s.i), st.sfold_unfold(F, M, 0)]


_ser_struct_fields.triggers = _ser_struct_triggers


def NATIVE_DEFAULT(t):
    """Statement: structure fields omitted from the value are encoded as zero / empty / first variant (independent oracle)."""
    n = type(t).__name__
    if n == "BooleanType":
        return False
    if n in ("SignedIntegerType", "UnsignedIntegerType", "ByteType", "UTF8Type"):
        return 0
    if n == "FloatType":
        return 0.0
    if n == "VoidType":
        return None
    if n == "FixedLengthArrayType":
        return [NATIVE_DEFAULT(t.element_type)] * t.capacity
    if n == "VariableLengthArrayType":
        en = type(t.element_type).__name__
        return "" if en == "UTF8Type" else b"" if en == "ByteType" else []
    if n == "StructureType":
        return {f.name: NATIVE_DEFAULT(f.data_type) for f in t.fields if type(f).__name__ != "PaddingField"}
    if n == "UnionType":
        return {t.fields[0].name: NATIVE_DEFAULT(t.fields[0].data_type)}
    if n == "DelimitedType":
        return NATIVE_DEFAULT(t.inner_type)
    raise ValueError(n)


def _same_value(a, b):
    """== with the types compared too (False is not 0, 0 is not 0.0, '' is not b'')"""
    if type(a) is not type(b):
        return False
    if isinstance(a, dict):
        return list(a.keys()) == list(b.keys()) and all(_same_value(a[k], b[k]) for k in a)
    if isinstance(a, list):
        return len(a) == len(b) and all(_same_value(x, y) for x, y in zip(a, b))
    return a == b


def DEFAULT_IS(result, t):
    """the result is the default value of the type, as far as each reading can say:
       native: the whole value (incl. key order, element types); SMT: by class - the scalar defaults, the empty str / bytes /
       list, the list length of a fixed array; that structures / unions give a dict"""
    if not smt():
        return _same_value(result, NATIVE_DEFAULT(t))
    r = result
    out = []

    def case(cond, claim):
        out.append(IMPLIES(cond, claim))

    if isinstance(r, DynV):
        tg = lambda *k: dm.tag_in(r.term, k)
        case(ISINST(t, "BooleanType"), AND(tg(dm.T_BOOL), dm.ival_f(r.term) == 0))
        case(ISINST(t, "IntegerType"), AND(tg(dm.T_INT), dm.ival_f(r.term) == 0))
        case(ISINST(t, "FloatType"), tg(dm.T_FLOAT))
        case(ISINST(t, "VoidType"), tg(dm.T_NONE))
        case(ISINST(t, "FixedLengthArrayType"), lambda: AND(tg(dm.T_LIST), dm.len_f(r.term) == AS(t, ARRAY)._capacity))
        case(ISINST(t, "VariableLengthArrayType"), lambda: AND(
            dm.len_f(r.term) == 0, ITE(ISINST(ELEM(t), "UTF8Type"), tg(dm.T_STR), ITE(ISINST(ELEM(t), "ByteType"), tg(dm.T_BYTES),
                                                                                       tg(dm.T_LIST)))))
        case(ISINST(t, "StructureType", "UnionType"), tg(dm.T_DICT))
        return AND(*out)
    # the function under verification: the result is an engine value
    from pyvc import values as _V

    is_false = r is False
    is_zero = isinstance(r, int) and not isinstance(r, bool) and r == 0
    is_fzero = isinstance(r, _V.FloatV) and r.value == 0.0
    is_none = r is None
    is_list = isinstance(r, (_V.PyList, _V.SymSeq))
    is_dict = isinstance(r, (_V.PyDict, _V.SymMap))
    is_empty_str = isinstance(r, str) and r == ""
    is_empty_bytes = isinstance(r, _V.BytesV) and r.concrete == b""
    is_empty_list = isinstance(r, _V.PyList) and not r.items
    case(ISINST(t, "BooleanType"), is_false)
    case(ISINST(t, "IntegerType"), is_zero)
    case(ISINST(t, "FloatType"), is_fzero)
    case(ISINST(t, "VoidType"), is_none)
    case(ISINST(t, "FixedLengthArrayType"), lambda: AND(is_list, LEN(r) == AS(t, ARRAY)._capacity if is_list else False))
    case(ISINST(t, "VariableLengthArrayType"), lambda: ITE(ISINST(ELEM(t), "UTF8Type"), is_empty_str,
                                                           ITE(ISINST(ELEM(t), "ByteType"), is_empty_bytes, is_empty_list)))
    case(ISINST(t, "StructureType", "UnionType"), is_dict)
    return AND(*out)


@contract(SD + "_default_value", props=["C06"])
class _DefaultValue:
    """value used for a structure field that the input dict omits"""
    params = dict(schema=ObjOf(SERIALIZABLE))
    returns = Dyn
    raises_here = {"ValueError": lambda s: NOT(ISINST(s.schema, "PrimitiveType", "VoidType", "ArrayType", "StructureType",
                                                        "UnionType", "DelimitedType"))}
    raises_only_if = {"ValueError": lambda s: True}

    def post(s):
        return {"default-by-class": DEFAULT_IS(s.result, s.schema),
                "serializable-class": ISINST(s.schema, "PrimitiveType", "VoidType", "ArrayType", "StructureType",
                                             "UnionType", "DelimitedType")}


@loop_invariant(SD + "_default_value", loop=0)
def _default_struct_loop(s):
    # the dict of field defaults is built key by key; its contents are not tracked by the engine (the value level is
    # covered by the native reading of the contract)
    return {}


@contract(SD + "_normalize_relaxed_value", props=["C06"])
class _NormalizeRelaxed:
    """relaxed input forms -> explicit form (interface used by serialize)"""
    params = dict(schema=ObjOf(SERIALIZABLE), value=Dyn)
    returns = Dyn
    verify = False
    assumed = "used at the call site in serialize(relaxed=True); not yet verified (no claim about the value is used there)"
    raises_only_if = {"ValueError": lambda s: True}


@contract(SD + "serialize", props=["C06", "C14"])
class _Serialize:
    params = dict(schema=ObjOf(COMPOSITE), obj=Dyn, with_delimiter_header=Bool, relaxed=Bool)
    returns = Bytes
    raises_only_if = {"SerDesError": lambda s: True, "ValueError": lambda s: True, "TypeError": lambda s: True}
    raises_here = {
        "TypeError": lambda s: ISINST(s.schema, "ServiceType"),
        "ValueError": lambda s: AND(s.with_delimiter_header, NOT(ISINST(s.schema, "DelimitedType"))),
    }

    def post(s):
        t = s.schema
        n = 8 * DLEN(s.result)
        d = {
            "not-a-service": NOT(ISINST(t, "ServiceType")),
            "header-flag-only-for-delimited": IMPLIES(s.with_delimiter_header, ISINST(t, "DelimitedType")),
            # the produced length is an element of the bit length set of the type - of the inner type when a delimited
            # type is written without its header
            "length-in-L": IMPLIES(OR(s.with_delimiter_header, NOT(ISINST(t, "DelimitedType"))), lambda: IN_L(n, t)),
            "length-in-L-of-inner": IMPLIES(AND(NOT(s.with_delimiter_header), ISINST(t, "DelimitedType")),
                                            lambda: IN_L(n, AS(t, DELIMITED)._inner)),
            "cut-delimited-payload": IMPLIES(AND(s.with_delimiter_header, ISINST(t, "DelimitedType")), lambda: AND(
                n >= 32, (n - 32) % 8 == 0, DIV(n - 32, 8) <= DIV(AS(t, DELIMITED)._extent, 8))),
            "cut-delimited-steps": IMPLIES(AND(s.with_delimiter_header, ISINST(t, "DelimitedType")),
                                           lambda: _top_delimited_chain(s, n)),
            "delimiter-header": IMPLIES(AND(s.with_delimiter_header, ISINST(t, "DelimitedType")),
                                        lambda: BITSVAL(s.result, 0, HDR_W(t), unfold=False) == LSB(DIV(n - 32, 8), HDR_W(t))),
        }
        return d


def _top_delimited_chain(s, n):
    t = s.schema
    if not smt():
        return True
    k = V_Int(DIV(n - 32, 8))
    K = V_Int(DIV(AS(t, DELIMITED)._extent, 8))
    M = st.mults_f(z3.IntVal(8), K)
    S32 = st.sumset_f(st.singleton_f(z3.IntVal(32)), M)
    H_MULT(8, K, k)
    return AND(z3.Select(M, k * 8), z3.Select(st.singleton_f(z3.IntVal(32)), z3.IntVal(32)), z3.Select(S32, 32 + k * 8),
               MEM(32 + k * 8, L_OF(t)))


@loop_invariant(SD + "serialize", loop=0)
def _serialize_copy(s):
    (w,) = [x for x in s.touched if x.cls.name == "_BitWriter"]
    t = s.schema
    return {"position": w._bit_offset == HDR_W(t) + 8 * s.i,
            "header": BITSVAL(w._buffer, 0, HDR_W(t), unfold=False) == LSB(LEN(s.seq), HDR_W(t))}


def TOP_HEADER(data):
    return BITSVAL(data, 0, 32, unfold=False)


@contract(SD + "deserialize", props=["C06", "C07", "C14"])
class _Deserialize:
    params = dict(schema=ObjOf(COMPOSITE), data=Bytes, with_delimiter_header=Bool)
    instances = lambda: [{"data": Bytes}, {"data": ByteArray}]
    returns = AnyValue
    raises = {"TypeError": lambda s: ISINST(s.schema, "ServiceType")}
    raises_only_if = {"SerDesError": lambda s: True, "ValueError": lambda s: True}
    raises_here = {
        "ValueError": lambda s: AND(s.with_delimiter_header, NOT(ISINST(s.schema, "DelimitedType"))),
        # the header must not promise more than the data that follows it
        "DelimiterHeaderError": lambda s: AND(s.with_delimiter_header, ISINST(s.schema, "DelimitedType"),
                                              lambda: 8 * TOP_HEADER(s.data) > MAX0(8 * DLEN(s.data) - 32)),
    }

    def post(s):
        return {
            "header-flag-only-for-delimited": IMPLIES(s.with_delimiter_header, ISINST(s.schema, "DelimitedType")),
            "header-not-clamped": IMPLIES(AND(s.with_delimiter_header, ISINST(s.schema, "DelimitedType")),
                                          lambda: 8 * TOP_HEADER(s.data) <= MAX0(8 * DLEN(s.data) - 32)),
        }


# ------------------------------------------------------------------------------------------------ native harness
from pyvc.native import NativeSuite

NATIVE = NativeSuite()
NATIVE_BUDGET = {"quick": 300, "thorough": 5000}


def _gen_reader(rng, i):
    n = rng.choice([0, 0, 1, 2, 3, 5, 9])
    data = [rng.choice([0, 255, rng.randrange(256)]) for _ in range(n)]
    start = rng.choice([0, 0, 1, 3, 7, 8, 9, 16, 8 * n, 8 * n + 3])
    off = start + rng.choice([0, 0, 1, 2, 7, 8, 13])
    limit = rng.choice([None, None, 0, 1, 5, 8, 9, 16, 17, 40, 100])
    return {"data": data, "start": start, "off": off, "limit": limit,
            "n": rng.choice([0, 1, 2, 3, 7, 8, 9, 12, 15, 16, 17, 24, 31, 32, 33, 64]),
            "a": rng.choice([-1, 0, 1, 2, 3, 8, 16, 64])}


def _mk_reader(d):
    from pydsdl import _serdes

    r = _serdes._BitReader(bytes(d["data"]), d["start"], d["limit"])
    r._bit_offset = d["off"]
    return r


def _build_read_bits(d):
    r = _mk_reader(d)
    return (lambda: r.read_bits(d["n"])), {"self": r, "bit_length": d["n"]}


def _build_align(d):
    r = _mk_reader(d)
    return (lambda: r.align_to(d["a"])), {"self": r, "bit_alignment": d["a"]}


def _build_sub(d):
    r = _mk_reader(d)
    return (lambda: r.bounded_subreader(d["n"])), {"self": r, "bit_count": d["n"]}


def _build_remaining(d):
    r = _mk_reader(d)
    return (lambda: r.remaining_bits), {"self": r}


def _build_reader_init(d):
    from pydsdl import _serdes

    data = bytes(d["data"]) if d["n"] % 2 else bytearray(d["data"])
    return (lambda: _serdes._BitReader(data, d["start"], d["limit"])), {"data": data, "bit_offset": d["start"],
                                                                        "bit_limit": d["limit"]}


NATIVE.add(READER + ".read_bits", _gen_reader, _build_read_bits)
NATIVE.add(READER + ".align_to", _gen_reader, _build_align)
NATIVE.add(READER + ".bounded_subreader", _gen_reader, _build_sub)
NATIVE.add(READER + ".remaining_bits", _gen_reader, _build_remaining)
NATIVE.add(READER + ".__init__", _gen_reader, _build_reader_init)



def _gen_writer(rng, i):
    ops = [(rng.choice([0, 1, 5, 255, 256, 65535, -1, -2, 2 ** 40 + 12345, rng.randrange(-2 ** 20, 2 ** 70)]),
            rng.choice([0, 1, 2, 3, 7, 8, 9, 12, 16, 17, 24, 33, 64])) for _ in range(rng.choice([0, 1, 2, 3]))]
    return {"ops": ops, "value": rng.choice([0, 1, 2, 170, 255, 256, 43690, -1, -129, 2 ** 64 - 1, rng.randrange(-2 ** 66, 2 ** 66)]),
            "n": rng.choice([0, 1, 2, 3, 7, 8, 9, 12, 15, 16, 17, 24, 31, 32, 33, 64]),
            "a": rng.choice([-1, 0, 1, 2, 3, 8, 16, 64])}


def _mk_writer(d):
    from pydsdl import _serdes

    w = _serdes._BitWriter()
    for v, n in d["ops"]:
        w.write_bits(v, n)
    return w


def _build_write_bits(d):
    w = _mk_writer(d)
    return (lambda: w.write_bits(d["value"], d["n"])), {"self": w, "value": d["value"], "bit_length": d["n"]}


def _build_walign(d):
    w = _mk_writer(d)
    return (lambda: w.align_to(d["a"])), {"self": w, "bit_alignment": d["a"]}


def _build_finish(d):
    w = _mk_writer(d)
    return (lambda: w.finish()), {"self": w}


def _writer_inv_native(s):
    w = s.self
    return (w._bit_offset >= 0 and len(w._buffer) == (w._bit_offset + 7) // 8
            and BITSVAL(w._buffer, w._bit_offset, 8 * len(w._buffer) - w._bit_offset) == 0)


_WriteBits.native_extra_post = staticmethod(_writer_inv_native)
_WriterAlign.native_extra_post = staticmethod(_writer_inv_native)
NATIVE.add(WRITER + ".write_bits", _gen_writer, _build_write_bits)
NATIVE.add(WRITER + ".align_to", _gen_writer, _build_walign)
NATIVE.add(WRITER + ".finish", _gen_writer, _build_finish)



def _gen_prim(rng, i):
    k = rng.choice(["bool", "uint", "uint", "int", "int", "void", "byte", "utf8"])
    n = {"bool": 1, "byte": 8, "utf8": 8}.get(k) or rng.choice([1, 2, 3, 7, 8, 9, 15, 16, 17, 31, 32, 33, 63, 64])
    if k == "int":
        n = max(n, 2)
    cast = rng.choice(["s", "t"])
    base = rng.choice([0, 1, -1, 2, 2 ** n - 1, 2 ** n, 2 ** n + 1, 2 ** (n - 1), 2 ** (n - 1) - 1, -(2 ** (n - 1)),
                       -(2 ** (n - 1)) - 1, -(2 ** n), rng.randrange(-2 ** 66, 2 ** 66), rng.randrange(-300, 300)])
    value = rng.choice([base, base, base, base, True, False, "x", None])
    d = _gen_writer(rng, i)
    d.update(_gen_reader(rng, i))
    d.update({"type": {"k": k, "n": n, "cast": cast}, "pvalue": value})
    return d


def _mk_prim_type(t):
    if t["k"] == "int":
        t = dict(t, cast="s")
    if t["k"] == "utf8":
        from pydsdl import _serializable as S

        return S.UTF8Type()
    return c12._mk_type(t)


def _build_ser_prim(d):
    from pydsdl import _serdes

    w = _mk_writer(d)
    t = _mk_prim_type(d["type"])
    return (lambda: _serdes._serialize_primitive(w, t, d["pvalue"])), {"writer": w, "schema": t, "value": d["pvalue"]}


def _build_des_prim(d):
    from pydsdl import _serdes

    r = _mk_reader(d)
    t = _mk_prim_type(d["type"])
    return (lambda: _serdes._deserialize_primitive(r, t)), {"reader": r, "schema": t}


NATIVE.add(SD + "_serialize_primitive", _gen_prim, _build_ser_prim)
NATIVE.add(SD + "_deserialize_primitive", _gen_prim, _build_des_prim)


# ---- nested types (JSON descriptions) for the decoding contracts and the bounded stand-in
def _gen_type(rng, depth=0, composite_only=False):
    kinds = ["struct", "union", "delim"] if composite_only else \
        ["uint", "uint", "int", "bool", "float", "farr", "varr", "varr", "bytes", "utf8", "struct", "union", "delim"]
    if depth >= 2:
        kinds = [k for k in kinds if k in ("uint", "int", "bool", "float", "bytes", "utf8")] or ["struct"]
        if composite_only:
            kinds = ["struct"]
    k = rng.choice(kinds)
    if k in ("uint", "int"):
        return {"k": k, "n": rng.choice([1, 2, 3, 5, 7, 8, 9, 13, 16, 17, 32, 33, 64]) if k == "uint" else
                rng.choice([2, 3, 7, 8, 9, 16, 31, 32, 64]), "cast": rng.choice(["s", "t"])}
    if k == "bool":
        return {"k": "bool"}
    if k == "float":
        return {"k": "float", "n": rng.choice([16, 32, 64]), "cast": rng.choice(["s", "t"])}
    if k in ("farr", "varr"):
        el = _gen_type(rng, depth + 1)
        big = el["k"] in ("uint", "int", "bool", "float")  # large capacities only over fixed-size elements
        return {"k": k, "cap": rng.choice([1, 2, 3, 5] + ([255, 256] if big else [])) if k == "varr" else rng.choice([1, 2, 3]),
                "el": el}
    if k in ("bytes", "utf8"):
        return {"k": k, "cap": rng.choice([1, 3, 10, 255, 256])}
    if k == "struct":
        n = rng.choice([0, 1, 2, 3]) if depth < 2 else rng.choice([0, 1, 2])
        fs = []
        for _ in range(n):
            fs.append({"pad": rng.choice([1, 3, 8])} if rng.random() < 0.15 else _gen_type(rng, depth + 1))
        return {"k": "struct", "fields": fs}
    if k == "union":
        return {"k": "union", "fields": [_gen_type(rng, depth + 1) for _ in range(rng.choice([2, 3]))]}
    inner = _gen_type(rng, depth + 1, composite_only=True)
    while inner["k"] == "delim":
        inner = inner["inner"]
    return {"k": "delim", "inner": inner, "slack": rng.choice([0, 0, 8, 64])}


_counter = [0]


def _mk_any_type(d):
    from pathlib import Path
    from pydsdl import _serializable as S
    from pydsdl._serializable._composite import Version

    k = d["k"]
    if k in ("uint", "int", "bool", "float"):
        return c12._mk_type(d if k != "int" else dict(d, cast="s"))
    CM = S.PrimitiveType.CastMode
    if k == "farr":
        return S.FixedLengthArrayType(_mk_any_type(d["el"]), d["cap"])
    if k == "varr":
        return S.VariableLengthArrayType(_mk_any_type(d["el"]), d["cap"])
    if k == "bytes":
        return S.VariableLengthArrayType(S.ByteType(), d["cap"])
    if k == "utf8":
        return S.VariableLengthArrayType(S.UTF8Type(), d["cap"])
    _counter[0] += 1
    common = dict(version=Version(1, 0), deprecated=False, fixed_port_id=None, source_file_path=Path("t", "T"),
                  has_parent_service=False)
    if k == "struct":
        attrs = []
        for i, f in enumerate(d["fields"]):
            attrs.append(S.PaddingField(S.VoidType(f["pad"])) if "pad" in f else S.Field(_mk_any_type(f), "f%d" % i))
        return S.StructureType(name="t.S%d" % _counter[0], attributes=attrs, **common)
    if k == "union":
        attrs = [S.Field(_mk_any_type(f), "v%d" % i) for i, f in enumerate(d["fields"])]
        return S.UnionType(name="t.U%d" % _counter[0], attributes=attrs, **common)
    inner = _mk_any_type(d["inner"])
    return S.DelimitedType(inner, inner.extent + d["slack"])


def _gen_value(rng, t):
    """a value valid for the real type object t (strict form)"""
    from pydsdl import _serializable as S

    if isinstance(t, S.BooleanType):
        return rng.random() < 0.5
    if isinstance(t, S.FloatType):
        return rng.choice([0.0, 1.0, -2.5, 65504.0, 1e-7, float("inf"), float("-inf")])
    if isinstance(t, S.IntegerType):
        r = t.inclusive_value_range
        return rng.choice([int(r.min), int(r.max), 0, rng.randint(int(r.min), int(r.max))])
    if isinstance(t, S.ArrayType):
        n = t.capacity if isinstance(t, S.FixedLengthArrayType) else rng.choice([0, 1, min(2, t.capacity), min(3, t.capacity)])
        if isinstance(t.element_type, S.UTF8Type):
            return "".join(rng.choice(["a", "z", "0"]) for _ in range(n))
        if isinstance(t.element_type, S.ByteType):
            return bytes(rng.randrange(256) for _ in range(n))
        return [_gen_value(rng, t.element_type) for _ in range(n)]
    if isinstance(t, S.DelimitedType):
        return _gen_value(rng, t.inner_type)
    if isinstance(t, S.UnionType):
        f = rng.choice(t.fields)
        return {f.name: _gen_value(rng, f.data_type)}
    if isinstance(t, S.StructureType):
        return {f.name: _gen_value(rng, f.data_type) for f in t.fields_except_padding}
    raise TypeError(t)


def _gen_des(rng, i):
    d = _gen_reader(rng, i)
    d["data"] = [rng.choice([0, 0, 1, 2, 3, 255, rng.randrange(256)]) for _ in range(rng.choice([0, 1, 2, 4, 6, 9, 14]))]
    d["start"] = rng.choice([0, 0, 0, 8, 3])
    d["off"] = d["start"] + rng.choice([0, 0, 8, 5])
    d["type"] = _gen_type(rng, composite_only=rng.random() < 0.6)
    d["hdr"] = rng.random() < 0.4
    return d


def _build_des(which):
    def build(d):
        from pydsdl import _serdes, _serializable as S

        t = _mk_any_type(d["type"])
        r = _mk_reader(d)
        if which == "array":
            if not isinstance(t, S.ArrayType):
                raise ValueError("not an array")
            return (lambda: _serdes._deserialize_array(r, t)), {"reader": r, "schema": t}
        if which == "composite":
            if not isinstance(t, S.CompositeType):
                raise ValueError("not a composite")
            return (lambda: _serdes._deserialize_composite(r, t)), {"reader": r, "schema": t}
        if which == "element":
            return (lambda: _serdes._deserialize_element(r, t)), {"reader": r, "element_type": t}
        if which == "field":
            return (lambda: _serdes._deserialize_field_value(r, t)), {"reader": r, "field_type": t}
        if not isinstance(t, S.CompositeType):
            raise ValueError("not a composite")
        data = bytes(d["data"])
        return (lambda: _serdes.deserialize(t, data, with_delimiter_header=d["hdr"])), {
            "schema": t, "data": data, "with_delimiter_header": d["hdr"]}

    return build


def _gen_ser(rng, i):
    d = _gen_writer(rng, i)
    d["type"] = _gen_type(rng, composite_only=rng.random() < 0.5)
    d["vseed"] = rng.randrange(10 ** 6)
    d["corrupt"] = rng.choice([0, 0, 0, 1, 2, 3, 4, 5])
    d["hdr"] = rng.random() < 0.4
    return d


def _corrupt(rng, t, v, how):
    """make the value invalid in one of the ways the serializer must reject"""
    from pydsdl import _serializable as S

    if how == 0:
        return v
    if isinstance(t, S.ArrayType):
        if how == 1 and isinstance(v, (list, bytes, str)):
            return v + v[:1] * (t.capacity + 1 - len(v)) if len(v) else v  # too long
        if how == 2 and isinstance(v, (list, bytes, str)) and len(v):
            return v[:-1]  # too short for a fixed array
        if how == 3:
            return 17  # wrong input type
        if how == 4 and isinstance(v, list):
            return tuple(v)
        return v
    if isinstance(t, S.DelimitedType):
        return _corrupt(rng, t.inner_type, v, how)
    if isinstance(t, S.UnionType) and isinstance(v, dict):
        if how == 1:
            return {}
        if how == 2:
            return dict(v, extra=1)
        if how == 3:
            return {"nope": 0}
        if how == 4:
            return [1]
        return v
    if isinstance(t, S.StructureType) and isinstance(v, dict):
        if how == 1:
            return dict(v, nope=1)
        if how == 2 and v:
            w = dict(v)
            w.pop(sorted(w)[0])  # omitted field -> default
            return w
        if how == 3:
            return "text"
        return v
    if how == 3:
        return "x"
    return v


def _build_ser(which):
    def build(d):
        import random
        from pydsdl import _serdes, _serializable as S

        t = _mk_any_type(d["type"])
        if which == "array" and not isinstance(t, S.ArrayType):
            raise ValueError("not an array")
        if which in ("composite", "top") and not isinstance(t, S.CompositeType):
            raise ValueError("not a composite")
        rng2 = random.Random(d["vseed"])
        v = _corrupt(rng2, t, _gen_value(rng2, t), d["corrupt"])
        w = _mk_writer(d)
        if _native_A_of(t) == 8:
            w.align_to(8)
        if which == "array":
            return (lambda: _serdes._serialize_array(w, t, v)), {"writer": w, "schema": t, "value": v}
        if which == "composite":
            return (lambda: _serdes._serialize_composite(w, t, v)), {"writer": w, "schema": t, "obj": v}
        if which == "element":
            return (lambda: _serdes._serialize_element(w, t, v)), {"writer": w, "element_type": t, "value": v}
        if which == "field":
            return (lambda: _serdes._serialize_field_value(w, t, v)), {"writer": w, "field_type": t, "value": v}
        hdr = d["hdr"]
        return (lambda: _serdes.serialize(t, v, with_delimiter_header=hdr)), {
            "schema": t, "obj": v, "with_delimiter_header": hdr, "relaxed": False}

    return build


def _native_A_of(t):
    from .c02 import _native_A

    return _native_A(t)


def _build_default(d):
    from pydsdl import _serdes

    t = _mk_any_type(d["type"])
    return (lambda: _serdes._default_value(t)), {"schema": t}


NATIVE.add(SD + "_default_value", _gen_ser, _build_default)
NATIVE.add(SD + "_serialize_array", _gen_ser, _build_ser("array"))
NATIVE.add(SD + "_serialize_composite", _gen_ser, _build_ser("composite"))
NATIVE.add(SD + "_serialize_element", _gen_ser, _build_ser("element"))
NATIVE.add(SD + "_serialize_field_value", _gen_ser, _build_ser("field"))
NATIVE.add(SD + "serialize", _gen_ser, _build_ser("top"))
NATIVE.add(SD + "_deserialize_array", _gen_des, _build_des("array"))
NATIVE.add(SD + "_deserialize_composite", _gen_des, _build_des("composite"))
NATIVE.add(SD + "_deserialize_element", _gen_des, _build_des("element"))
NATIVE.add(SD + "_deserialize_field_value", _gen_des, _build_des("field"))
NATIVE.add(SD + "deserialize", _gen_des, _build_des("top"))


# ------------------------------------------------------------------------------------------------ bounded stand-ins
def _has_float(d):
    if d["k"] == "float":
        return True
    return any(_has_float(x) for x in ([d.get("el")] if d.get("el") else []) + [f for f in d.get("fields", []) if "k" in f]
               + ([d["inner"]] if d.get("inner") else []))


def _bounded_codec(eng, tier, seed):
    """BOUNDED stand-in (native, seeded random nested types x values) for the parts of C06/C07/C14 that the contracts do
       not reach: the serializer for arrays / composites, the composite-level round trip, length in bit_length_set,
       implicit truncation / zero extension of whole objects, evolution of delimited types."""
    import random
    from pydsdl import _serdes, _serializable as S, serialize, deserialize

    rng = random.Random(seed + 606)
    budget = 400 if tier == "quick" else 6000
    viol = []
    stats = {"types": 0, "round_trips": 0, "truncation_checks": 0, "garbage_inputs": 0, "evolution_pairs": 0}

    def bad(name, detail, concrete):
        if len(viol) < 5:
            viol.append({"name": "_serdes.bounded/" + name, "detail": detail, "concrete": concrete})

    def lens(t):
        return {(x + 7) // 8 * 8 for x in t.bit_length_set}

    import signal

    class _Slow(Exception):
        pass

    def _alarm(*a):
        raise _Slow()

    stats["skipped_slow"] = 0
    def one_type():
        td = _gen_type(rng, composite_only=True)
        try:
            t = _mk_any_type(td)
        except _Slow:
            raise
        except Exception:
            return
        stats["types"] += 1
        flt = _has_float(td)
        lens(t)
        for _k in range(3):
            v = _gen_value(rng, t)
            hdr = isinstance(t, S.DelimitedType) and rng.random() < 0.5
            try:
                b = serialize(t, v, with_delimiter_header=hdr)
                allowed = lens(t) if (hdr or not isinstance(t, S.DelimitedType)) else lens(t.inner_type)
                if 8 * len(b) not in allowed:
                    bad("length-in-bit-length-set", "%d bits not in the set" % (8 * len(b)), {"type": td, "value": repr(v)})
                back = deserialize(t, b, with_delimiter_header=hdr)
                if serialize(t, back, with_delimiter_header=hdr) != b or (not flt and back != v):
                    bad("round-trip", "deserialize(serialize(v)) differs", {"type": td, "value": repr(v), "back": repr(back)})
                stats["round_trips"] += 1
                # an omitted structure field is encoded as the default VALUE of its type (independent oracle NATIVE_DEFAULT)
                st_t = t.inner_type if isinstance(t, S.DelimitedType) else t
                if isinstance(st_t, S.StructureType) and isinstance(v, dict) and v:
                    k_ = rng.choice(sorted(v.keys()))
                    f_ = [f for f in st_t.fields_except_padding if f.name == k_][0]
                    v_omit = {a: b_ for a, b_ in v.items() if a != k_}
                    v_dflt = dict(v, **{k_: NATIVE_DEFAULT(f_.data_type)})
                    stats["omitted_field_checks"] = stats.get("omitted_field_checks", 0) + 1
                    if serialize(t, v_omit, with_delimiter_header=hdr) != serialize(t, v_dflt, with_delimiter_header=hdr):
                        bad("omitted-field-is-default-value", "an omitted field is not encoded like its zero / empty / first-variant value",
                            {"type": td, "value": repr(v_omit), "omitted": k_})
                if not hdr:
                    junk = bytes(rng.randrange(256) for _ in range(rng.choice([1, 3, 8])))
                    if repr(deserialize(t, b + junk)) != repr(back) or repr(deserialize(t, b + bytes(5))) != repr(back):
                        bad("implicit-truncation", "trailing bytes change the result", {"type": td, "value": repr(v)})
                    stats["truncation_checks"] += 1
                    # every prefix: decodes like the zero-extended prefix, or is rejected by a SerDesError / ValueError
                    cut = rng.randrange(len(b) + 1)
                    res = []
                    for data in (b[:cut], b[:cut] + bytes(len(b) - cut + 4)):
                        try:
                            res.append(repr(deserialize(t, data)))
                        except (_serdes.SerDesError, ValueError):
                            res.append("rejected")
                    if res[0] != res[1] and "rejected" not in res:
                        bad("zero-extension", "missing trailing bytes do not read as zeros", {"type": td, "value": repr(v), "cut": cut})
            except Exception as e:  # noqa
                bad("serialize-valid-value", "%s: %s" % (type(e).__name__, e), {"type": td, "value": repr(v)})
        # totality on garbage
        data = bytes(rng.choice([0, 255, rng.randrange(256)]) for _ in range(rng.choice([0, 1, 2, 5, 9, 17])))
        for hdr in ((False, True) if isinstance(t, S.DelimitedType) else (False,)):
            stats["garbage_inputs"] += 1
            try:
                r = deserialize(t, data, with_delimiter_header=hdr)
                again = deserialize(t, serialize(t, r, with_delimiter_header=hdr), with_delimiter_header=hdr)
                if not _has_float(td) and again != r:
                    bad("decoded-object-is-valid", "re-encoding the decoded object is not a fixed point", {"type": td, "data": list(data)})
            except (_serdes.SerDesError, ValueError):
                pass
            except Exception as e:  # noqa
                bad("totality", "%s escaped from deserialize: %s" % (type(e).__name__, e), {"type": td, "data": list(data), "hdr": hdr})

    old_handler = signal.signal(signal.SIGALRM, _alarm)
    for _ in range(budget):
        signal.setitimer(signal.ITIMER_REAL, 2.0)  # a type whose bit length set is huge is skipped (counted)
        try:
            one_type()
        except _Slow:
            stats["skipped_slow"] += 1
        finally:
            signal.setitimer(signal.ITIMER_REAL, 0)
    signal.signal(signal.SIGALRM, old_handler)
    # C14 wire: revisions of a delimited type with the same extent inside containers
    CM = S.PrimitiveType.CastMode
    u = lambda n: S.UnsignedIntegerType(n, CM.TRUNCATED)
    # revisions: each is the previous one with a field appended - integers, then a fixed byte string, a fixed uint8 array and a
    # variable-length utf8 string (decoded through the array code path; all within the extent of 128 bits)
    revs = [[("a", u(8))], [("a", u(8)), ("b", u(16))], [("a", u(8)), ("b", u(16)), ("c", u(32))],
            [("a", u(8)), ("b", u(16)), ("c", u(32)), ("d", S.FixedLengthArrayType(S.ByteType(), 3))],
            [("a", u(8)), ("b", u(16)), ("c", u(32)), ("d", S.FixedLengthArrayType(S.ByteType(), 3)),
             ("e", S.FixedLengthArrayType(u(8), 2))],
            [("a", u(8)), ("b", u(16)), ("c", u(32)), ("d", S.FixedLengthArrayType(S.ByteType(), 3)),
             ("e", S.FixedLengthArrayType(u(8), 2)), ("f", S.VariableLengthArrayType(S.UTF8Type(), 2))]]

    def zero_of(ft):
        """the value a field unknown to the writer must read as (all bits zero)"""
        if isinstance(ft, S.FixedLengthArrayType):
            return bytes(ft.capacity) if isinstance(ft.element_type, S.ByteType) else [0] * ft.capacity
        if isinstance(ft, S.VariableLengthArrayType):
            return "" if isinstance(ft.element_type, S.UTF8Type) else []
        return 0

    def mk_struct(name, fields):
        from pathlib import Path
        from pydsdl._serializable._composite import Version

        return S.StructureType(name=name, version=Version(1, 0), attributes=[S.Field(ft, fn) for fn, ft in fields],
                               deprecated=False, fixed_port_id=None, source_file_path=Path("t", "T"), has_parent_service=False)

    def containers(d):
        from pathlib import Path
        from pydsdl._serializable._composite import Version

        yield "field", mk_struct("t.C1", [("x", d), ("tail", u(8))])
        yield "array", mk_struct("t.C2", [("pre", u(3)), ("xs", S.FixedLengthArrayType(d, 2)), ("tail", u(16))])
        yield "vararray", mk_struct("t.C3", [("xs", S.VariableLengthArrayType(d, 3)), ("tail", u(8))])
        yield "union", mk_struct("t.C4", [("u", S.UnionType(name="t.U", version=Version(1, 0), attributes=[
            S.Field(d, "d"), S.Field(u(8), "o")], deprecated=False, fixed_port_id=None, source_file_path=Path("t", "T"),
            has_parent_service=False)), ("tail", u(8))])

    for i, fw in enumerate(revs):
        for j, fr in enumerate(revs):
            dw = S.DelimitedType(mk_struct("t.D", fw), 128)
            dr = S.DelimitedType(mk_struct("t.D", fr), 128)
            for (cn, cw), (_, cr) in zip(containers(dw), containers(dr)):
                for _k in range(4 if tier == "quick" else 50):
                    stats["evolution_pairs"] += 1
                    v = _gen_value(rng, cw)
                    v["tail"] = 255 if cn != "array" else 65535  # non-zero bytes follow the nested object(s)
                    if cn in ("array", "vararray"):
                        for el in v["xs"]:
                            el["a"] = 255  # ... also between array elements
                    try:
                        back = deserialize(cr, serialize(cw, v))
                    except Exception as e:  # noqa
                        bad("delimited-evolution", "%s: %s (writer revision %d, reader revision %d, container %s)"
                            % (type(e).__name__, e, i, j, cn), {"value": repr(v)})
                        continue
                    common = [n for n, _ in fw if n in dict(fr)]

                    def objs(x):
                        if cn == "field":
                            return [x["x"]]
                        if cn in ("array", "vararray"):
                            return list(x["xs"])
                        return [x["u"]["d"]] if "d" in x["u"] else []
                    ok = back["tail"] == v["tail"] and len(objs(back)) == len(objs(v))
                    for ow, orr in zip(objs(v), objs(back)):
                        ok = ok and all(orr[n] == ow[n] for n in common) and all(orr[n] == zero_of(ft_) for n, ft_ in fr if n not in dict(fw))
                    if cw.bit_length_set != cr.bit_length_set or not ok:
                        bad("delimited-evolution", "writer revision %d, reader revision %d, container %s" % (i, j, cn),
                            {"value": repr(v), "back": repr(back)})
    # relaxed input forms (positional structures, bare value for single-field structures) encode to the same bytes as the
    # explicit dict form; normalisation is the identity on the explicit form and idempotent; too many positional values
    # are rejected with ValueError; omitted structure fields encode like their defaults (zero / empty / first variant)
    stats["relaxed_form_checks"] = 0

    def relax(t, v, how):
        if isinstance(t, S.DelimitedType):
            return relax(t.inner_type, v, how)
        if isinstance(t, S.StructureType) and isinstance(v, dict):
            fs = t.fields_except_padding
            vals = [relax(f.data_type, v[f.name], how) for f in fs]
            if len(fs) == 1:
                # single-field structures: the bare value (a list `[x]` would be taken as the bare value too, so the
                # positional form does not exist for them); a dict-valued field keeps the explicit form
                return vals[0] if (how % 2 == 0 and not isinstance(vals[0], dict)) else {fs[0].name: vals[0]}
            return list(vals) if how % 3 else tuple(vals)
        if isinstance(t, S.UnionType) and isinstance(v, dict):
            (k, x), = v.items()
            ft = [f.data_type for f in t.fields if f.name == k][0]
            return {k: relax(ft, x, how)}
        if isinstance(t, S.ArrayType) and isinstance(v, list):
            return [relax(t.element_type, x, how) for x in v]
        return v

    for _ in range(budget // 2):
        td = _gen_type(rng, composite_only=True)
        if _has_float(td):
            continue
        try:
            t = _mk_any_type(td)
            v = _gen_value(rng, t)
            how = rng.randrange(6)
            stats["relaxed_form_checks"] += 1
            explicit = serialize(t, v)
            n1 = _serdes._normalize_relaxed_value(t, v)
            if not _same_value(n1, v):
                bad("normalize-explicit-form-unchanged", "normalisation changes an explicit value", {"type": td, "value": repr(v)})
            rv = relax(t, v, how)
            n2 = _serdes._normalize_relaxed_value(t, rv)
            if not _same_value(_serdes._normalize_relaxed_value(t, n2), n2):
                bad("normalize-idempotent", "normalisation is not idempotent", {"type": td, "value": repr(rv)})
            if serialize(t, rv, relaxed=True) != explicit:
                bad("relaxed-same-bytes", "a relaxed form does not encode like the explicit form", {"type": td, "value": repr(rv)})
            inner = t.inner_type if isinstance(t, S.DelimitedType) else t
            if isinstance(inner, S.StructureType):
                fs = inner.fields_except_padding
                if len(fs) != 1:
                    try:
                        serialize(t, [0] * (len(fs) + 1), relaxed=True)
                        bad("too-many-positional", "too many positional values accepted", {"type": td})
                    except ValueError:
                        pass
                    except _serdes.SerDesError:
                        pass
                if isinstance(v, dict) and v:
                    k = sorted(v)[rng.randrange(len(v))]
                    ft = [f.data_type for f in fs if f.name == k][0]
                    w = dict(v)
                    w[k] = NATIVE_DEFAULT(ft)
                    omitted = {kk: vv for kk, vv in v.items() if kk != k}
                    if serialize(t, omitted) != serialize(t, w):
                        bad("omitted-field-default", "an omitted field does not encode like its default", {"type": td, "field": k})
        except _Slow:
            raise
        except Exception as e:  # noqa
            bad("relaxed-forms", "%s: %s" % (type(e).__name__, e), {"type": td})
    # delimited siblings with payloads of different length under one writer (a later payload shorter than an earlier
    # one): a reader with an appended field must see zeros after the shorter payload, never bytes of an earlier sibling
    stats["sibling_payload_checks"] = 0
    vw = [("a", u(8)), ("xs", S.VariableLengthArrayType(u(8), 4))]
    vr = vw + [("z", u(16)), ("zz", S.FixedLengthArrayType(S.ByteType(), 2))]
    dw = S.DelimitedType(mk_struct("t.V", vw), 128)
    dr = S.DelimitedType(mk_struct("t.V", vr), 128)
    for cw, cr in ((mk_struct("t.K1", [("xs", S.FixedLengthArrayType(dw, 3)), ("tail", u(8))]),
                    mk_struct("t.K1", [("xs", S.FixedLengthArrayType(dr, 3)), ("tail", u(8))])),
                   (mk_struct("t.K2", [("p", dw), ("q", dw), ("tail", u(8))]),
                    mk_struct("t.K2", [("p", dr), ("q", dr), ("tail", u(8))]))):
        for lens in ((4, 0, 2), (3, 1, 0), (4, 4, 0), (0, 4, 1)):
            stats["sibling_payload_checks"] += 1
            els = [{"a": 255, "xs": [255] * n} for n in lens]
            v = {"xs": els, "tail": 255} if "xs" in [f.name for f in cw.fields] else {"p": els[0], "q": els[1], "tail": 255}
            try:
                back = deserialize(cr, serialize(cw, v))
                got = back["xs"] if "xs" in back else [back["p"], back["q"]]
                if any(g["z"] != 0 or g["zz"] != bytes(2) for g in got) or back["tail"] != 255 or \
                        any(g["xs"] != e["xs"] for g, e in zip(got, els)):
                    bad("delimited-siblings", "appended fields of a sibling do not read as zeros / payload mixed up",
                        {"value": repr(v), "back": repr(back)})
            except Exception as e:  # noqa
                bad("delimited-siblings", "%s: %s" % (type(e).__name__, e), {"value": repr(v)})
    return {"name": "bounded codec stand-in (serializer, composite round trip, length in bit_length_set, truncation / zero "
                    "extension, totality on garbage, delimited evolution)", "level": "bounded",
            "bound": "seeded random nested types (depth <= 3, <= 3 fields) x 3 values; %d types" % budget,
            "stats": stats, "violations": viol}


def _bit_op_table(eng, tier, seed):
    """Complete finite check of the assumed bit-operator identities on the domain on which the writer uses them
       (byte values x bit index), and a seeded sample for the mask identity on arbitrary integers."""
    import random

    viol = []
    for x in range(256):
        for k in range(8):
            if x & ~(1 << k) != x - ((x >> k) & 1) * 2 ** k:
                viol.append({"name": "_serdes.bitops/and-not", "detail": "x=%d k=%d" % (x, k)})
            if x < 2 ** k and x | (1 << k) != x + 2 ** k:
                viol.append({"name": "_serdes.bitops/or-disjoint", "detail": "x=%d k=%d" % (x, k)})
    rng = random.Random(seed)
    for _ in range(2000):
        v = rng.randrange(-2 ** 70, 2 ** 70)
        n = rng.randrange(0, 72)
        if v & ((1 << n) - 1) != v % 2 ** n or (v >> n) != v // 2 ** n:
            viol.append({"name": "_serdes.bitops/mask", "detail": "v=%d n=%d" % (v, n)})
        if n and int.from_bytes((v % 2 ** (8 * n)).to_bytes(n, "little"), "little") != v % 2 ** (8 * n):
            viol.append({"name": "_serdes.bitops/to-bytes", "detail": "v=%d n=%d" % (v, n)})
    return {"name": "bit operator identities assumed by the library model", "level": "complete over bytes x bit index; "
            "seeded sample (2000) for masks / shifts / to_bytes on integers up to 2**70", "violations": viol[:5]}


def _no_hidden_state(eng, tier, seed):
    """Effect obligations (decided on the AST, complete for what they state): every codec function of _serdes.py is a
    function of its arguments only - its `def` carries no decorator (a memoising / wrapping decorator such as
    functools.lru_cache would make results depend on earlier calls and on `==` of the arguments instead of the argument
    objects), it has no `global` / `nonlocal` statement, it reads no module-level name bound to a mutable value, and it
    stores no attribute on a module-level function / class (function attributes used as caches)."""
    import ast

    mod = eng.repo.modules.get("pydsdl._serdes")
    obs = []
    if mod is None:
        return {"check": "effects(no hidden state)", "name": "no hidden state", "obligations": [
            {"name": "_serdes/effect#module-found", "ok": False, "function": "pydsdl._serdes", "detail": "module not found"}]}
    immutable_ok = (ast.Constant,)

    def is_immutable_binding(node):
        if isinstance(node, immutable_ok):
            return True
        if isinstance(node, ast.Call) and isinstance(node.func, ast.Name) and node.func.id == "object" and not node.args:
            return True  # a sentinel
        if isinstance(node, (ast.BinOp, ast.Subscript, ast.Name, ast.Attribute)):
            return all(isinstance(x, (ast.BinOp, ast.Subscript, ast.Name, ast.Attribute, ast.BitOr, ast.Load, ast.Constant,
                                      ast.Tuple, ast.Ellipsis.__class__)) or isinstance(x, ast.expr_context)
                       for x in ast.walk(node))  # a typing alias such as  bool | int | dict[str, typing.Any]
        return False

    wanted = [q for q in sorted(eng.repo.functions) if q.startswith("pydsdl._serdes.") and "_test" not in q]
    for q in wanted:
        fi = eng.repo.functions[q]
        if fi.outer is not None or not isinstance(fi.node, (ast.FunctionDef,)):
            continue
        short = q.replace("pydsdl.", "")
        allowed = {"property"} if fi.cls is not None else set()
        extra = [d for d in fi.decorators if d not in allowed]
        obs.append({"name": "%s/effect#no-decorator" % short, "ok": not extra, "function": q,
                    "detail": "decorated with %s" % extra if extra else ""})
        bad = []
        local = {a.arg for a in fi.node.args.args + fi.node.args.kwonlyargs + fi.node.args.posonlyargs}
        for node in ast.walk(fi.node):
            if isinstance(node, ast.Name) and isinstance(node.ctx, ast.Store):
                local.add(node.id)
        for node in ast.walk(fi.node):
            if isinstance(node, (ast.Global, ast.Nonlocal)):
                bad.append("%s statement" % type(node).__name__.lower())
            if isinstance(node, ast.Name) and isinstance(node.ctx, ast.Load) and node.id not in local \
                    and node.id in mod.assigns and not is_immutable_binding(mod.assigns[node.id]):
                bad.append("reads module-level `%s` bound to a mutable value" % node.id)
            if isinstance(node, ast.Attribute) and isinstance(node.ctx, ast.Store) and isinstance(node.value, ast.Name) \
                    and node.value.id not in local and (node.value.id in mod.functions or node.value.id in mod.classes
                                                        or node.value.id in mod.assigns):
                bad.append("stores an attribute on module-level `%s`" % node.value.id)
        obs.append({"name": "%s/effect#no-module-state" % short, "ok": not bad, "function": q, "detail": "; ".join(bad)})
    return {"check": "effects(no hidden state)", "name": "codec functions are functions of their arguments (AST effects)",
            "obligations": obs}


EXTRA_CHECKS = [_bounded_codec, _bit_op_table, _no_hidden_state]

NOT_COVERED = [
    "the composite-level VALUE round trip deserialize(serialize(v)) == v as one statement: proved are its per-call links - "
    "every structure field / array element / union variant is encoded and decoded exactly once, in order, by the codec of "
    "its own type on the same device, the serializer takes the given value (or what _default_value returned for an omitted "
    "field), tag = index of the named variant, prefix = element count, header = payload byte length, positions in L(T) - "
    "and the primitive round trip; that the decoder's result dict / list holds the decoded values under the field names "
    "(dicts / lists built in loops are opaque to the engine) is covered by the BOUNDED native stand-in only",
    "_default_value: proved by class (scalar zeros, empty str / bytes / list, fixed array length, dict for composites); the "
    "full default value (recursively) by the native reading and the bounded omitted-field check",
    "decoder positions in L(T) for types that nest a delimited member: not proved (only for deep-sealed types); framing of "
    "the delimited object itself is proved",
    "float codec (IEEE 754 packing through struct, NaN/inf/subnormals, float -> int rounding of numeric inputs): trusted",
    "termination of the mutually recursive _serialize_* / _deserialize_* functions (structural recursion over the finite "
    "type tree): not proved; read_bits / write_bits recursion is proved terminating (decreases bit_length)",
    "relaxed input forms (_normalize_relaxed_value): assumed interface, bounded native check only",
]
NOT_COVERED_C07 = [
    "the clause `returns an object that is valid for T (re-serialisation is a fixed point)`: bounded stand-in only",
    "b and b followed by zero bytes decode alike at the level of whole objects: proved for every single read (bitsval over "
    "the zero-extended data), for primitives and for the sequence of codec calls (each field / element / variant decoded "
    "once, in order, from the same reader); the assembled composite value by the bounded stand-in",
    "float decoding (struct.unpack on an exactly-sized buffer is total): trusted; termination of the type recursion",
]
NOT_COVERED_C14 = [
    "layout half (container bit length set / extent / following offsets unchanged when a nested delimited type is replaced "
    "by a revision with the same extent): lemmas over the C02/C08 contracts (specs/c14_layout.py), not this module",
    "`common leading fields keep their values` as a statement about VALUES: the engine proves the framing (header = byte "
    "length of the inner representation written to a fresh writer, exactly that many bytes follow; the reader of either "
    "revision is advanced by 32 + 8 * header and reads zeros beyond the payload; no state is shared between payloads - AST "
    "effect obligations) and the per-field codec protocol; the assembled values by the bounded stand-in (writer/reader "
    "revision pairs x containers x values per run)",
]
EXPLANATION = (
    "Bit layer: _BitReader.read_bits returns bitsval(data, offset, k) (k = n, or the bits left before start+limit of a bounded "
    "sub-reader) and always advances by n - proved for symbolic, unbounded offsets / widths / data: slow path by the loop "
    "invariant acc == bitsval(data, off, i), fast path through int.from_bytes = base-256 digits and the split lemma, the "
    "recursion through the function's own contract with a decreases clause. _BitWriter keeps WFw (len == ceil(off/8), "
    "nothing beyond the offset) and write_bits(v, n) leaves every earlier read unchanged and makes bitsval(buf, off, n) == "
    "v mod 2**n. Primitive codec: finite instantiation over class x width 1..64 x cast mode with the value symbolic: wire "
    "value is the Specification's (two's complement of the saturated / truncated value) and decoding it gives the value "
    "back. Decoding of arrays / composites: prefix > capacity, tag >= number of variants and 8*header > remaining bits are "
    "rejected exactly then (exceptions raised by the function itself), a normal return implies the opposite, a delimited "
    "object occupies 32 + 8*header bits whatever its inner type is, and only SerDesError / ValueError (TypeError for "
    "services) can escape. Mathematical facts about bitsval / lsb are ground instances of theorems proved in "
    "lean/Pydsdl/Bits.lean (checked on every run).")
EXPLANATION_C07 = EXPLANATION
EXPLANATION_C14 = EXPLANATION
ASSUMPTIONS = [
    "library model of bytes / bytearray / int.from_bytes / int.to_bytes / << >> | & ~ (pyvc/bytesmodel.py, listed under "
    "assumed_library_contracts); the identities x & ~(1<<k) and x | (1<<k) are checked exhaustively on bytes x bit index",
    "ground instances of the bit-layer lemma schemas of pyvc/bittheory.py (each names its Lean theorem); the correspondence "
    "SMT schema <-> Lean statement is by hand and tested natively (hints are evaluated on concrete data in the native runs)",
    "slice / zero-padding provenance (`view`) of bytes values in the library model: byte i of data[a:b] padded with zeros "
    "is byte a+i of the zero-extended data (used for int.from_bytes in the fast path)",
    "a bytearray field is owned by its object (_BitWriter._buffer is allocated in __init__ and never leaked: finish() copies)",
    "bytes(list) of the elements of a decoded byte / utf8 array may raise ValueError in the model (it cannot: the elements are "
    "uint8 values) - an over-approximation inside the allowed exception classes",
    "_serialize_primitive / _deserialize_primitive for FloatType: only offset / frame clauses are stated and they are NOT "
    "verified for floats (no instance); they are used at call sites",
]
from pyvc import bittheory as _bt

ASSUMPTIONS = ASSUMPTIONS + ["bit-layer lemma schema `%s`: %s" % kv for kv in sorted(_bt.SCHEMAS.items())]
