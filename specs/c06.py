"""
C06 / C07 / C14(wire) - the serdes module pydsdl/_serdes.py.

Bit layer abstraction (pyvc.bittheory): bitsval(d, off, k) = sum_{i<k} bit(d zero-extended, off+i) * 2**i with
bit p = bit (p mod 8) of byte (p div 8), i.e. the Specification's "least significant bit first, little-endian" reading of a
byte string as a bit string.  The reader contracts say *which bits* are returned (zeros beyond the data and beyond the
limit of a bounded sub-reader); the writer contracts say which bits a byte string produced by the writer holds.
"""
import z3
from pyvc.spec import contract, class_spec, inline_ok, loop_invariant
from pyvc.values import Int, Bool, Str, Opt, ObjOf, Bytes, ByteArray, MutObjOf
from pyvc.speclib import AND, OR, NOT, IMPLIES, IFF, ITE, EQ, IS_NONE, VAL, ISINST, AS, smt
from pyvc import speclib
from pyvc.bittheory import (BITSVAL, BITAT, DLEN, LSB, POW2, H_SPLIT, H_LSB_SPLIT, H_LSB_STEP, H_BEYOND, H_POW2_ADD, H_POW2_MONO)
from . import common  # noqa
from .common import PRIMITIVE, VOID_T, SERIALIZABLE, COMPOSITE

SD = "pydsdl._serdes."
READER = SD + "_BitReader"
WRITER = SD + "_BitWriter"
P67 = ["C06", "C07", "C14"]
LEAN = ["Bits.lean"]
LEVEL = "proof"


# ------------------------------------------------------------------------------------------------ small helpers
def MAX0(x):
    return ITE(x > 0, x, 0)


def MIN(a, b):
    return ITE(a <= b, a, b)


def DIV(a, b):
    """floor division by a positive constant"""
    if smt():
        from pyvc.values import Int as _I

        return _I.unwrap(a) / b
    return a // b


def SAME_BYTES(a, b):
    """the same byte string (identity of content)"""
    if smt():
        return AND(a.arr == b.arr, a.length == b.length)
    return bytes(a) == bytes(b)


def SAME_OPT_INT(a, b):
    return EQ(a, b)


# ------------------------------------------------------------------------------------------------ _BitReader
@class_spec(READER)
class _ReaderSpec:
    fields = dict(_data=Bytes, _start_offset=Int, _bit_offset=Int, _bit_limit=Opt(Int))
    mutable = ["_bit_offset"]

    def invariant(self):
        # positions are never negative and the reader never moves backwards
        return {"offsets": AND(0 <= self._start_offset, self._start_offset <= self._bit_offset)}


def AVAIL(r):
    """Bits left before the limit of a bounded (sub-)reader; only meaningful when the reader has a limit."""
    return MAX0(VAL(r._bit_limit) - (r._bit_offset - r._start_offset))


def EFFECTIVE(r, n):
    """How many of the n requested bits are actually taken from the data: all of them for an unbounded reader,
    at most the bits left before start + limit for a bounded one (the rest read as zero)."""
    if smt():
        return ITE(IS_NONE(r._bit_limit), n, MIN(n, AVAIL(r)))
    return n if r._bit_limit is None else min(n, AVAIL(r))


def READER_FRAME(s):
    """only the position changes"""
    a, b = s.self, s.old.self
    return AND(SAME_BYTES(a._data, b._data), a._start_offset == b._start_offset, EQ(a._bit_limit, b._bit_limit))


@contract(READER + ".__init__", props=P67)
class _ReaderInit:
    params = dict(data=Bytes, bit_offset=Int, bit_limit=Opt(Int))
    instances = lambda: [{"data": Bytes}, {"data": ByteArray}]

    def pre(s):
        return {"offset-nonneg": s.bit_offset >= 0}

    def post(s):
        r = s.self
        return {"data": SAME_BYTES(r._data, s.data), "start": r._start_offset == s.bit_offset,
                "offset": r._bit_offset == s.bit_offset, "limit": EQ(r._bit_limit, s.bit_limit)}


@contract(READER + ".read_bits", props=P67)
class _ReadBits:
    params = dict(bit_length=Int)
    returns = Int
    modifies = ["_bit_offset"]

    def pre(s):
        return {"count-nonneg": s.bit_length >= 0}

    def decreases(s):
        return s.bit_length

    def post(s):
        o = s.old.self
        n = s.bit_length
        eff = EFFECTIVE(o, n)
        return {
            # the value of the bits actually available: zeros beyond the data and beyond start + limit
            "value": s.result == BITSVAL(o._data, o._bit_offset, eff, unfold=False),
            "value-range": AND(0 <= s.result, s.result < POW2(n)),
            # the offset always advances by n
            "advance": s.self._bit_offset == o._bit_offset + n,
            "frame": READER_FRAME(s),
            # proof hints (instances of Lean lemmas; evaluated as checks in the native reading)
            "hint": AND(H_SPLIT(o._data, o._bit_offset, 8 * DIV(eff, 8), eff % 8),
                        H_POW2_MONO(eff, n)),
        }


@loop_invariant(READER + ".read_bits", loop=0)
def _read_bits_slow(s):
    (acc,) = list(s.carried.values())
    r = s.self
    return {"acc-is-bitsval": acc == BITSVAL(r._data, r._bit_offset, s.i),
            "acc-range": AND(0 <= acc, acc < POW2(s.i))}


@contract(READER + ".align_to", props=P67)
class _ReaderAlign:
    params = dict(bit_alignment=Int)
    modifies = ["_bit_offset"]

    def post(s):
        o = s.old.self
        a = s.bit_alignment
        new = s.self._bit_offset
        return {
            "no-op-for-nonpositive": IMPLIES(a <= 0, new == o._bit_offset),
            # the least multiple of the alignment that is not below the old position
            "aligned": IMPLIES(a > 0, lambda: AND(new % a == 0, new >= o._bit_offset, new < o._bit_offset + a)),
            "frame": READER_FRAME(s),
        }


@contract(READER + ".bounded_subreader", props=P67)
class _SubReader:
    params = dict(bit_count=Int)
    returns = MutObjOf(READER)
    modifies = ["_bit_offset"]

    def post(s):
        o, r = s.old.self, s.result
        return {
            "sub-data": SAME_BYTES(r._data, o._data),
            "sub-start": AND(r._start_offset == o._bit_offset, r._bit_offset == o._bit_offset),
            "sub-limit": AND(NOT(IS_NONE(r._bit_limit)), lambda: VAL(r._bit_limit) == s.bit_count),
            "parent-advance": s.self._bit_offset == o._bit_offset + s.bit_count,
            "frame": READER_FRAME(s),
        }

    def pre(s):
        return {"count-nonneg": s.bit_count >= 0}


@contract(READER + ".remaining_bits", props=P67)
class _Remaining:
    returns = Int

    def post(s):
        r = s.self
        return {
            "bounded": IMPLIES(NOT(IS_NONE(r._bit_limit)), lambda: s.result == AVAIL(r)),
            "unbounded": IMPLIES(IS_NONE(r._bit_limit), lambda: s.result == MAX0(8 * DLEN(r._data) - r._bit_offset)),
        }


inline_ok(READER + ".bit_offset", WRITER + ".bit_offset")


# ------------------------------------------------------------------------------------------------ _BitWriter
def DIV(a, b):
    """floor division by a positive constant"""
    if smt():
        from pyvc.values import Int as _I

        return _I.unwrap(a) / b
    return a // b


def CEIL8(x):
    return DIV(x + 7, 8)


def TAIL_ZERO(buf, off):
    """every bit of the buffer at or beyond position `off` is zero"""
    return BITSVAL(buf, off, 8 * DLEN(buf) - off, unfold=False) == 0


def PREFIX_PRESERVED(new, old, upto):
    """every read that ends at or before bit `upto` gives the same value on both byte strings"""
    if smt():
        from pyvc import bittheory as bt

        p, k = z3.FreshConst(z3.IntSort(), "p"), z3.FreshConst(z3.IntSort(), "k")
        lhs = bt.bitsval_f(new.arr, new.length, p, k)
        return z3.ForAll([p, k], z3.Implies(z3.And(p >= 0, k >= 0, p + k <= upto),
                                            lhs == bt.bitsval_f(old.arr, old.length, p, k)), patterns=[lhs])
    from pyvc.bittheory import native_bit

    return all(native_bit(bytes(new), q) == native_bit(bytes(old), q) for q in range(upto))


@class_spec(WRITER)
class _WriterSpec:
    fields = dict(_buffer=ByteArray, _bit_offset=Int)
    mutable = ["_buffer", "_bit_offset"]

    def invariant(self):
        # WFw: the buffer holds exactly the bytes touched so far and nothing beyond the write position
        return {"offset-nonneg": self._bit_offset >= 0,
                "length": DLEN(self._buffer) == CEIL8(self._bit_offset),
                "tail-zero": TAIL_ZERO(self._buffer, self._bit_offset)}


@contract(WRITER + ".__init__", props=["C06", "C14"])
class _WriterInit:
    def post(s):
        return {"empty": AND(DLEN(s.self._buffer) == 0, s.self._bit_offset == 0)}


@contract(WRITER + ".write_bits", props=["C06", "C14"])
class _WriteBits:
    params = dict(value=Int, bit_length=Int)
    modifies = ["_buffer", "_bit_offset"]

    def pre(s):
        return {"count-nonneg": s.bit_length >= 0}

    def decreases(s):
        return s.bit_length

    def post(s):
        o, w = s.old.self, s.self
        n = s.bit_length
        fb8 = 8 * DIV(n, 8)
        return {
            # bits written so far ++ lsb(value, n): earlier bits unchanged, the n new bits are the low bits of value
            "prefix": PREFIX_PRESERVED(w._buffer, o._buffer, o._bit_offset),
            "written": BITSVAL(w._buffer, o._bit_offset, n, unfold=False) == LSB(s.value, n),
            "advance": w._bit_offset == o._bit_offset + n,
            "hint": AND(H_SPLIT(w._buffer, o._bit_offset, fb8, n % 8), H_LSB_SPLIT(s.value, fb8, n % 8)),
        }


@loop_invariant(WRITER + ".write_bits", loop=0)
def _write_bits_slow(s):
    w, o = s.self, s.old.self
    cur = o._bit_offset + s.i
    buf = w._buffer
    return {
        "length": DLEN(buf) == ITE(s.i > 0, CEIL8(cur), DLEN(o._buffer)),
        "prefix": PREFIX_PRESERVED(buf, o._buffer, o._bit_offset),
        "written": BITSVAL(buf, o._bit_offset, s.i, unfold=False) == LSB(s.value, s.i),
        "tail-zero": TAIL_ZERO(buf, cur),
        "offset-unchanged": w._bit_offset == o._bit_offset,
        "hint": AND(H_LSB_STEP(s.value, s.i), H_BEYOND(buf, cur, 8 * (DLEN(buf) + 1) - cur)),
    }


@contract(WRITER + ".align_to", props=["C06", "C14"])
class _WriterAlign:
    params = dict(bit_alignment=Int)
    modifies = ["_buffer", "_bit_offset"]

    def post(s):
        o, w = s.old.self, s.self
        a = s.bit_alignment
        new = w._bit_offset
        return {
            "no-op-for-nonpositive": IMPLIES(a <= 0, lambda: AND(new == o._bit_offset, SAME_BYTES(w._buffer, o._buffer))),
            "aligned": IMPLIES(a > 0, lambda: AND(new % a == 0, new >= o._bit_offset, new < o._bit_offset + a)),
            "prefix": PREFIX_PRESERVED(w._buffer, o._buffer, o._bit_offset),
            "zero-padding": BITSVAL(w._buffer, o._bit_offset, new - o._bit_offset, unfold=False) == 0,
        }


@contract(WRITER + ".finish", props=["C06", "C14"])
class _WriterFinish:
    returns = Bytes

    def post(s):
        w = s.self
        return {"content": SAME_BYTES(s.result, w._buffer),
                "whole-bytes": DLEN(s.result) == CEIL8(w._bit_offset),
                "padding-zero": TAIL_ZERO(s.result, w._bit_offset)}

# ------------------------------------------------------------------------------------------------ native harness
from pyvc.native import NativeSuite

NATIVE = NativeSuite()
NATIVE_BUDGET = {"quick": 300, "thorough": 5000}


def _gen_reader(rng, i):
    n = rng.choice([0, 0, 1, 2, 3, 5, 9])
    data = [rng.choice([0, 255, rng.randrange(256)]) for _ in range(n)]
    start = rng.choice([0, 0, 1, 3, 7, 8, 9, 16, 8 * n, 8 * n + 3])
    off = start + rng.choice([0, 0, 1, 2, 7, 8, 13])
    limit = rng.choice([None, None, 0, 1, 5, 8, 9, 16, 17, 40, 100])
    return {"data": data, "start": start, "off": off, "limit": limit,
            "n": rng.choice([0, 1, 2, 3, 7, 8, 9, 12, 15, 16, 17, 24, 31, 32, 33, 64]),
            "a": rng.choice([-1, 0, 1, 2, 3, 8, 16, 64])}


def _mk_reader(d):
    from pydsdl import _serdes

    r = _serdes._BitReader(bytes(d["data"]), d["start"], d["limit"])
    r._bit_offset = d["off"]
    return r


def _build_read_bits(d):
    r = _mk_reader(d)
    return (lambda: r.read_bits(d["n"])), {"self": r, "bit_length": d["n"]}


def _build_align(d):
    r = _mk_reader(d)
    return (lambda: r.align_to(d["a"])), {"self": r, "bit_alignment": d["a"]}


def _build_sub(d):
    r = _mk_reader(d)
    return (lambda: r.bounded_subreader(d["n"])), {"self": r, "bit_count": d["n"]}


def _build_remaining(d):
    r = _mk_reader(d)
    return (lambda: r.remaining_bits), {"self": r}


def _build_reader_init(d):
    from pydsdl import _serdes

    data = bytes(d["data"]) if d["n"] % 2 else bytearray(d["data"])
    return (lambda: _serdes._BitReader(data, d["start"], d["limit"])), {"data": data, "bit_offset": d["start"],
                                                                        "bit_limit": d["limit"]}


NATIVE.add(READER + ".read_bits", _gen_reader, _build_read_bits)
NATIVE.add(READER + ".align_to", _gen_reader, _build_align)
NATIVE.add(READER + ".bounded_subreader", _gen_reader, _build_sub)
NATIVE.add(READER + ".remaining_bits", _gen_reader, _build_remaining)
NATIVE.add(READER + ".__init__", _gen_reader, _build_reader_init)



def _gen_writer(rng, i):
    ops = [(rng.choice([0, 1, 5, 255, 256, 65535, -1, -2, 2 ** 40 + 12345, rng.randrange(-2 ** 20, 2 ** 70)]),
            rng.choice([0, 1, 2, 3, 7, 8, 9, 12, 16, 17, 24, 33, 64])) for _ in range(rng.choice([0, 1, 2, 3]))]
    return {"ops": ops, "value": rng.choice([0, 1, 2, 170, 255, 256, 43690, -1, -129, 2 ** 64 - 1, rng.randrange(-2 ** 66, 2 ** 66)]),
            "n": rng.choice([0, 1, 2, 3, 7, 8, 9, 12, 15, 16, 17, 24, 31, 32, 33, 64]),
            "a": rng.choice([-1, 0, 1, 2, 3, 8, 16, 64])}


def _mk_writer(d):
    from pydsdl import _serdes

    w = _serdes._BitWriter()
    for v, n in d["ops"]:
        w.write_bits(v, n)
    return w


def _build_write_bits(d):
    w = _mk_writer(d)
    return (lambda: w.write_bits(d["value"], d["n"])), {"self": w, "value": d["value"], "bit_length": d["n"]}


def _build_walign(d):
    w = _mk_writer(d)
    return (lambda: w.align_to(d["a"])), {"self": w, "bit_alignment": d["a"]}


def _build_finish(d):
    w = _mk_writer(d)
    return (lambda: w.finish()), {"self": w}


def _writer_inv_native(s):
    w = s.self
    return (w._bit_offset >= 0 and len(w._buffer) == (w._bit_offset + 7) // 8
            and BITSVAL(w._buffer, w._bit_offset, 8 * len(w._buffer) - w._bit_offset) == 0)


_WriteBits.native_extra_post = staticmethod(_writer_inv_native)
_WriterAlign.native_extra_post = staticmethod(_writer_inv_native)
NATIVE.add(WRITER + ".write_bits", _gen_writer, _build_write_bits)
NATIVE.add(WRITER + ".align_to", _gen_writer, _build_walign)
NATIVE.add(WRITER + ".finish", _gen_writer, _build_finish)

NOT_COVERED = []
EXPLANATION = ""
ASSUMPTIONS = []
